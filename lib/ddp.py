"""DDP program model shared by the semantic checks: JSON AST (DESIGN.md Appendix B) -> DDP source (ddprender),
and the build/run pipeline for compiled programs (kddp kompiliere + gcc link with the tree's runtime)."""
import json, os, subprocess, shutil, tempfile, time
from concurrent.futures import ThreadPoolExecutor
import vlib

M64 = 1 << 64


# ------------------------------------------------------------------------------------------ values / types
def TB(x):
    return {"b": x}


TZ, TK, TBY, TW, TC, TT, TV, TNONE = TB("Z"), TB("K"), TB("B"), TB("W"), TB("C"), TB("T"), TB("V"), TB("none")


def TL(e):
    return {"l": e}


def TS(n):
    return {"s": n}


def limbs(v):
    v %= M64
    return [(v >> (8 * i)) & 255 for i in range(8)]


def unlimbs(l):
    v = sum(b << (8 * i) for i, b in enumerate(l))
    return v - M64 if v >= 1 << 63 else v


def Z(v):
    return {"k": "Z", "v": limbs(v)}


def K(m, e=0):
    while e > 0 and m % 2 == 0:
        m //= 2
        e -= 1
    return {"k": "K", "s": "fin", "m": m, "e": e}


def B(v):
    return {"k": "B", "v": v}


def W(v):
    return {"k": "W", "v": bool(v)}


def C(cp):
    return {"k": "C", "v": cp if isinstance(cp, int) else ord(cp)}


def T(s):
    return {"k": "T", "v": [ord(c) for c in s] if isinstance(s, str) else list(s)}


def L(et, vals):
    return {"k": "L", "et": et, "v": list(vals)}


def lit(v):
    return {"k": "lit", "v": v}


def ident(n):
    return {"k": "id", "n": n}


def un(op, r):
    return {"k": "un", "op": op, "r": r}


def bin_(op, l, r):
    return {"k": "bin", "op": op, "l": l, "r": r}


def ter(op, l, m, r):
    return {"k": "ter", "op": op, "l": l, "m": m, "r": r}


def cast(to, l):
    return {"k": "cast", "to": to, "l": l}


def call(f, args):
    return {"k": "call", "f": f, "args": [{"p": p, "e": e} for p, e in args]}


NONE = {"k": "none"}

# ------------------------------------------------------------------------------------------ rendering
PRIM = {"Z": ("Zahl", "Zahlen", "f"), "K": ("Kommazahl", "Kommazahlen", "f"), "B": ("Byte", "Byte", "m"), "W": ("Wahrheitswert", "Wahrheitswert", "m"),
        "C": ("Buchstabe", "Buchstaben", "m"), "T": ("Text", "Text", "m"), "V": ("Variable", "Variablen", "f")}


def tname(t):
    if "alias" in t:
        return t["alias"]
    if "a" in t or "d" in t:          # a type alias / a type definition (C04): {"a"|"d": name, "of": type}, always declared feminine
        return t.get("a") or t["d"]
    if "g" in t:
        return t["g"]
    if "b" in t:
        return PRIM[t["b"]][0]
    if "s" in t:
        return t["s"]
    e = t["l"]
    if "a" in e or "d" in e:
        return (e.get("a") or e["d"]) + " Liste"
    if "g" in e:
        return e["g"] + " Liste"
    if "b" in e:
        return PRIM[e["b"]][1] + " Liste"
    if "s" in e:
        return e["s"] + " Liste"
    raise ValueError("nested list types have no spelling: %r" % (t,))


def tgender(t):
    if "alias" in t or "a" in t or "d" in t:
        return "f"
    if "g" in t:
        return "n"
    if "b" in t:
        return PRIM[t["b"]][2]
    if "s" in t:
        return "m"
    return "f"


def esc_char(cp, quote):
    m = {7: "\\a", 8: "\\b", 10: "\\n", 13: "\\r", 9: "\\t", 92: "\\\\", ord(quote): "\\" + quote}
    return m.get(cp, chr(cp))


def kdec(m, e):
    from fractions import Fraction
    neg = m < 0
    m = abs(m)
    ip, num, den = m >> e, m & ((1 << e) - 1), 1 << e
    ds = ""
    while num:
        num *= 10
        ds += str(num // den)
        num %= den
    return ("-" if neg else "") + str(ip) + "," + (ds or "0")


def rvalue(v):
    k = v["k"]
    if k == "Z":
        n = unlimbs(v["v"])
        if n == -(1 << 63):
            return "(-9223372036854775807 minus 1)"
        return str(n) if n >= 0 else "(-%d)" % -n
    if k == "K":
        s = kdec(v["m"], v["e"])
        return s if not s.startswith("-") else "(%s)" % s
    if k == "B":
        return "(%d als Byte)" % v["v"]
    if k == "W":
        return "wahr" if v["v"] else "falsch"
    if k == "C":
        return "'" + esc_char(v["v"], "'") + "'"
    if k == "T":
        return '"' + "".join(esc_char(c, '"') for c in v["v"]) + '"'
    if k == "L":
        if not v["v"]:
            return "(eine leere %s)" % tname(TL(v["et"]))
        return "(eine Liste, die aus %s besteht)" % ", ".join(rvalue(x) for x in v["v"])
    if k == "V":
        return "(%s als Variable)" % rvalue(v["v"])
    if k == "S":
        raise ValueError("struct literals are written with 'new' nodes")
    raise ValueError(k)


BINFMT = {"plus": "%s plus %s", "minus": "%s minus %s", "mal": "%s mal %s", "durch": "%s durch %s", "mod": "%s modulo %s", "pow": "%s hoch %s",
          "and": "%s und %s", "or": "%s oder %s", "xor": "entweder %s, oder %s", "eq": "%s gleich %s ist", "ne": "%s ungleich %s ist",
          "lt": "%s kleiner als %s ist", "le": "%s kleiner als, oder %s ist", "gt": "%s größer als %s ist", "ge": "%s größer als, oder %s ist",
          "cat": "%s verkettet mit %s", "idx": "%s an der Stelle %s", "band": "%s logisch und %s", "bor": "%s logisch oder %s", "bxor": "%s logisch kontra %s",
          "shl": "%s um %s Bit nach links verschoben", "shr": "%s um %s Bit nach rechts verschoben",
          "sfrom": "%s ab dem %s. Element", "sto": "%s bis zum %s. Element"}
UNFMT = {"neg": "-%s", "abs": "der Betrag von %s", "not": "nicht %s", "lnot": "logisch nicht %s", "len": "die Länge von %s"}


# functions with an alias of their own (instead of "<name> <p1> <p2> ..."): base name -> alias text with {name}, <param> placeholders and
# at most one negation marker <!word>; specialised copies "<base>__<types>" share the entry of their base
ALIAS_FORMS = {}


def alias_base(name):
    return name.split("__")[0]


def alias_text(name):
    return ALIAS_FORMS[alias_base(name)].replace("{name}", name)


def alias_call(e, negated):
    import re as _re
    text = alias_text(e["f"])
    text = _re.sub(r"<!(\w+)>", (lambda m: m.group(1)) if negated else "", text)
    for a in e["args"]:
        text = text.replace("<%s>" % a["p"], rarg(a["e"]))
    return " ".join(text.split())


def rexpr(e):
    k = e["k"]
    if k == "lit":
        return rvalue(e["v"])
    if k == "id":
        return e["n"]
    if k == "un" and e["op"] == "not" and e.get("via_alias") and e["r"]["k"] == "call":      # the negated form of an alias with a <!...> marker
        return "(" + alias_call(e["r"], True) + ")"
    if k == "un":
        return "(" + UNFMT[e["op"]] % rexpr(e["r"]) + ")"
    if k == "bin":
        return "(" + BINFMT[e["op"]] % (rexpr(e["l"]), rexpr(e["r"])) + ")"
    if k == "fld":
        return "(%s von %s)" % (e["f"], rexpr(e["e"]))
    if k == "ter":
        f = {"slice": "%s im Bereich von %s bis %s", "between": "%s zwischen %s und %s ist", "falls": "%s, falls %s, ansonsten %s"}[e["op"]]
        return "(" + f % (rexpr(e["l"]), rexpr(e["m"]), rexpr(e["r"])) + ")"
    if k == "cast":
        return "(%s als %s)" % (rexpr(e["l"]), tname(e["to"]))
    if k == "tchk":
        return "(%s %s %s ist)" % (rexpr(e["l"]), "eine" if tgender(e["t"]) == "f" else "ein", tname(e["t"]))
    if k == "std":
        return "(der Standardwert von %s %s)" % ("einer" if tgender(e["t"]) == "f" else "einem", tname(e["t"]))
    if k == "size":
        return "(die Größe von %s %s)" % ("einer" if tgender(e["t"]) == "f" else "einem", tname(e["t"]))
    if k == "list":
        if not e["vals"]:
            return "(eine leere %s)" % tname(TL(e["et"]))
        return "(eine Liste, die aus %s besteht)" % ", ".join(rexpr(x) for x in e["vals"])
    if k == "call":
        if alias_base(e["f"]) in ALIAS_FORMS:
            return "(" + alias_call(e, False) + ")"
        return "(" + " ".join([e["f"]] + [rarg(a["e"]) for a in e["args"]]) + ")"
    if k == "new":
        parts = ["%s gleich %s" % (a["p"], rarg(a["e"])) for a in e["args"]]
        return "(ein %s mit %s)" % (e["s"], " und ".join(parts)) if parts else "(ein leerer %s)" % e["s"]
    if k == "wenn":    # only as the whole right-hand side of a declaration / "x ist ..." / a return
        return "%s, wenn %s" % ("wahr" if e["val"] else "falsch", rexpr(e["c"]))
    if k == "chain":   # precedence cases: operands and operator names, rendered WITHOUT parentheses
        return rchain(e["items"])
    raise ValueError(k)


CHAIN_PREC = {"or": 2, "and": 3, "bor": 4, "bxor": 5, "band": 6, "eq": 7, "ne": 7, "lt": 8, "le": 8, "gt": 8, "ge": 8, "plus": 10, "minus": 10, "cat": 10, "mal": 11, "durch": 11, "mod": 11}
CHAIN_WORD = {"or": "oder", "and": "und", "bor": "logisch oder", "bxor": "logisch kontra", "band": "logisch und", "eq": "gleich", "ne": "ungleich", "lt": "kleiner als", "le": "kleiner als, oder",
              "gt": "größer als", "ge": "größer als, oder", "plus": "plus", "minus": "minus", "cat": "verkettet mit", "mal": "mal", "durch": "durch", "mod": "modulo", "not": "nicht", "neg": "-"}


def rchain(items):
    """flat rendering of an operator chain: no parentheses; the closing 'ist' of a comparison stands where its right operand ends,
    i.e. before the next operator that does not bind tighter than the comparison"""
    out, pending = [], []          # pending: precedences of comparisons whose 'ist' is still to be written
    for x in items:
        x = x["o"] if isinstance(x, dict) and "o" in x else x
        if isinstance(x, str) and x in CHAIN_PREC:
            while pending and CHAIN_PREC[x] <= pending[-1]:
                out.append("ist")
                pending.pop()
            out.append(CHAIN_WORD[x])
            if x in ("eq", "ne", "lt", "le", "gt", "ge"):
                pending.append(CHAIN_PREC[x])
        elif isinstance(x, str):
            out.append(CHAIN_WORD[x])
        else:
            out.append(rexpr(x))
    out += ["ist"] * len(pending)
    s = " ".join(out).replace("- ", "-")
    return "(" + s + ")"


def rarg(e):
    if e["k"] == "idx" or (e["k"] == "fld" and "l" in e):      # an assignable passed to a Referenz parameter
        return "(" + rlv(e) + ")"
    s = rexpr(e)
    if e["k"] == "id" or (e["k"] == "lit" and e["v"]["k"] in ("W", "C", "T")) or (e["k"] == "lit" and e["v"]["k"] == "Z" and not s.startswith("(")):
        return s
    return s if s.startswith("(") and s.endswith(")") else "(" + s + ")"


def rlv(lv):
    k = lv["k"]
    if k == "id":
        return lv["n"]
    if k == "fld":
        inner = rlv(lv["l"])
        return "%s von %s" % (lv["f"], inner if lv["l"]["k"] == "id" else "(" + inner + ")")
    if k == "idx":
        inner = rlv(lv["l"])
        if lv["l"]["k"] == "idx":      # nested indexing is written  x an der Stelle i, an der Stelle j
            return "%s, an der Stelle %s" % (inner, rarg(lv["i"]))
        return "%s an der Stelle %s" % (inner, rarg(lv["i"]))
    raise ValueError(k)


WRONG_ARTICLE = {"Die": "Der", "Der": "Die", "Das": "Die", "jede": "jeden", "jeden": "jede", "jedes": "jede", "eine": "einen", "einen": "eine", "ein": "eine"}


def article(t, case="nom", right=True):
    """right=False: deliberately the article of another gender (C04 fault injection)"""
    if not right:
        return WRONG_ARTICLE[article(t, case)]
    g = tgender(t)
    return {"nom": {"f": "Die", "m": "Der", "n": "Das"}, "akk": {"f": "eine", "m": "einen", "n": "ein"}, "jede": {"f": "jede", "m": "jeden", "n": "jedes"}}[case][g]


def rstmts(ss, ind):
    out = []
    tab = "\t" * ind
    for s in ss:
        k = s["k"]
        if k == "var" and s.get("c"):
            out.append("%s%s Konstante %s ist %s." % (tab, "Die" if s.get("art", True) else "Der", s["n"], rexpr(s["e"])))
        elif k == "var":
            if s["e"]["k"] == "fill":
                out.append("%s%s %s %s ist %s Mal %s." % (tab, article(s["t"], right=s.get("art", True)), tname(s["t"]), s["n"], rexpr(s["e"]["n"]), rexpr(s["e"]["v"])))
            else:
                out.append("%s%s %s %s ist %s." % (tab, article(s["t"], right=s.get("art", True)), tname(s["t"]), s["n"], rexpr(s["e"])))
        elif k == "set":
            out.append("%sSpeichere %s in %s." % (tab, rexpr(s["e"]), rlv(s["lv"])))
        elif k == "setis":
            out.append("%s%s ist %s." % (tab, rlv(s["lv"]), rexpr(s["e"])))
        elif k == "cset":
            f = {"plus": "Erhöhe %s um %s.", "minus": "Verringere %s um %s.", "mal": "Vervielfache %s um %s.", "durch": "Teile %s durch %s.",
                 "shl": "Verschiebe %s um %s Bit nach links.", "shr": "Verschiebe %s um %s Bit nach rechts."}
            lvs = rlv(s["lv"])
            lvs = lvs if s["lv"]["k"] == "id" else "(" + lvs + ")"
            out.append(tab + ("Negiere %s." % lvs if s["op"] == "neg" else f[s["op"]] % (lvs, rexpr(s["e"]))))
        elif k == "print":
            out.append("%sSchreibe %s%s." % (tab, rarg(s["e"]), " auf eine Zeile" if s["nl"] else ""))
        elif k == "expr":
            e = rexpr(s["e"])
            out.append("%s%s." % (tab, e[1:-1] if s["e"]["k"] == "call" else e))
        elif k == "if":
            cur, first = s, True
            while True:
                head = "Wenn" if first else "Wenn aber"
                if cur.get("oneline") and len(cur["then"]) == 1:
                    body = rstmts(cur["then"], 0)[0]
                    out.append("%s%s %s, %s" % (tab, head, rexpr(cur["c"]), body[0].lower() + body[1:]))
                else:
                    out.append("%s%s %s, dann:" % (tab, head, rexpr(cur["c"])))
                    out += rstmts(cur["then"], ind + 1) or [tab + "\t[leer]"]
                first = False
                if cur.get("elif") and len(cur["else"]) == 1 and cur["else"][0]["k"] == "if":
                    cur = cur["else"][0]
                    continue
                if cur["else"]:
                    if cur.get("oneline") and len(cur["else"]) == 1:
                        body = rstmts(cur["else"], 0)[0]
                        out.append("%sSonst %s" % (tab, body[0].lower() + body[1:]))
                    else:
                        out.append("%sSonst:" % tab)
                        out += rstmts(cur["else"], ind + 1)
                break
        elif k == "while":
            if s.get("oneline") and len(s["body"]) == 1:
                b = rstmts(s["body"], 0)[0]
                out.append("%sSolange %s, %s" % (tab, rexpr(s["c"]), b[0].lower() + b[1:]))
            else:
                out.append("%sSolange %s, mache:" % (tab, rexpr(s["c"])))
                out += rstmts(s["body"], ind + 1)
        elif k == "dowhile":
            out.append("%sMache:" % tab)
            out += rstmts(s["body"], ind + 1)
            out.append("%sSolange %s." % (tab, rexpr(s["c"])))
        elif k == "repeat":
            out.append("%sWiederhole:" % tab)
            out += rstmts(s["body"], ind + 1)
            out.append("%s%s Mal." % (tab, rexpr(s["n"])))
        elif k == "for":
            tn = "Buchstaben" if s["t"] == TC else tname(s["t"])
            step = "" if s["step"]["k"] == "none" else " mit Schrittgröße %s" % rexpr(s["step"])
            head = "%sFür %s %s %s von %s bis %s%s, " % (tab, article(s["t"], "jede", s.get("art", True)), tn, s["v"], rexpr(s["from"]), rexpr(s["to"]), step)
            if s.get("oneline") and len(s["body"]) == 1:
                b = rstmts(s["body"], 0)[0]
                out.append(head + b[0].lower() + b[1:])
            else:
                out.append(head + "mache:")
                out += rstmts(s["body"], ind + 1)
        elif k == "foreach":
            tn = "Buchstaben" if s["t"] == TC else tname(s["t"])
            idx = " mit Index %s" % s["idx"] if s["idx"] else ""
            head = "%sFür %s %s %s%s in %s, " % (tab, article(s["t"], "jede", s.get("art", True)), tn, s["v"], idx, rexpr(s["in"]))
            if s.get("oneline") and len(s["body"]) == 1:
                b = rstmts(s["body"], 0)[0]
                out.append(head + b[0].lower() + b[1:])
            else:
                out.append(head + "mache:")
                out += rstmts(s["body"], ind + 1)
        elif k == "break":
            out.append(tab + "Verlasse die Schleife.")
        elif k == "continue":
            out.append(tab + "Fahre mit der Schleife fort.")
        elif k == "ret":
            out.append(tab + ("Verlasse die Funktion." if s["e"]["k"] == "none" else ("Gib %s, zurück." if s["e"]["k"] == "wenn" else "Gib %s zurück.") % rexpr(s["e"])))
        elif k == "todo":
            out.append(tab + "...")
        elif k == "block":
            out.append(tab + ":")
            out += rstmts(s["body"], ind + 1)
        else:
            raise ValueError(k)
    return out


def rtype_ret(t, right=True):
    if t == TNONE:
        return "nichts"
    return "%s %s" % (article(t, "akk", right), "Buchstaben" if t == TC else tname(t))


def rfuncs(funcs, extern_funcs=(), public=False):
    lines, deferred = [], []
    for fd in funcs:
        ps = fd["params"]
        kind = ("öffentliche " if public else "") + ("generische " if fd.get("generic") else "")
        ext = "ist extern sichtbar, " if fd["n"] in extern_funcs else ""
        if not ps:
            head = "Die %sFunktion %s gibt %s zurück, %smacht:" % (kind, fd["n"], rtype_ret(fd["ret"], fd.get("retart", True)), ext)
        elif len(ps) == 1:
            head = "Die %sFunktion %s mit dem Parameter %s vom Typ %s, gibt %s zurück, %smacht:" % (kind, fd["n"], ps[0]["n"], rparamtype(ps[0]), rtype_ret(fd["ret"], fd.get("retart", True)), ext)
        else:
            names = ", ".join(p["n"] for p in ps[:-1]) + " und " + ps[-1]["n"]
            types = ", ".join(rparamtype(p) for p in ps[:-1]) + " und " + rparamtype(ps[-1])
            head = "Die %sFunktion %s mit den Parametern %s vom Typ %s, gibt %s zurück, %smacht:" % (kind, fd["n"], names, types, rtype_ret(fd["ret"], fd.get("retart", True)), ext)
        if fd.get("forward"):      # declared now, defined after all declarations ("Die Funktion f macht:")
            lines.append(head[:-len("macht:")] + "wird später definiert")
            deferred += ["Die Funktion %s macht:" % fd["n"]] + rstmts(fd["body"], 1) + [""]
        else:
            lines.append(head)
            lines += rstmts(fd["body"], 1)
        lines.append("Und kann so benutzt werden:")
        lines.append('\t"%s"' % (alias_text(fd["n"]) if alias_base(fd["n"]) in ALIAS_FORMS else " ".join([fd["n"]] + ["<%s>" % p["n"] for p in ps])))
        lines.append("")
    return lines + deferred


def rstructs(structs, public=False):
    lines = []
    for sd in structs:
        lines.append("Wir nennen die %sKombination aus" % ("öffentliche " if public else ""))
        for f in sd["fields"]:
            d = "" if f["def"]["k"] == "none" else " mit Standardwert %s" % rexpr(f["def"])
            lines.append("\t%s %s%s %s%s," % ({"f": "der", "m": "dem", "n": "dem"}[tgender(f["t"])], "öffentlichen " if public else "", tname(f["t"]), f["n"], d))
        alias = "ein %s mit %s" % (sd["n"], " und ".join("%s gleich <%s>" % (f["n"], f["n"]) for f in sd["fields"]))
        lines.append('einen %s, und erstellen sie so:\n\t"%s" oder\n\t"ein leerer %s"' % (sd["n"], alias, sd["n"]))
        lines.append("")
    return lines


def render_with_lib(P, libfuncs):
    """functions named in libfuncs (and all Kombinationen) live in the imported module lib.ddp; returns {file: text}"""
    lib = ['Binde "Duden/Ausgabe" ein.', ""] + list(P.get("typedecls", [])) + rstructs(P["structs"], public=True) + rfuncs([f for f in P["funcs"] if f["n"] in libfuncs], public=True)
    n = P.get("nearly", 0)
    main = ['Binde "Duden/Ausgabe" ein.', 'Binde "lib" ein.', ""] + list(P.get("main_decoys", [])) + rstmts(P["main"][:n], 0) + [""] + rfuncs([f for f in P["funcs"] if f["n"] not in libfuncs]) + rstmts(P["main"][n:], 0)
    return {"lib.ddp": "\n".join(lib) + "\n", "main.ddp": "\n".join(main) + "\n"}


def rparamtype(p):
    t = p["t"]
    if not p["ref"]:
        return tname(t)
    if "l" in t:
        return tname(t) + "n Referenz"
    if "g" in t:
        return t["g"] + " Referenz"
    if "b" in t:
        return {"Z": "Zahlen Referenz", "K": "Kommazahlen Referenz", "C": "Buchstaben Referenz", "V": "Variablen Referenz"}.get(t["b"], tname(t) + " Referenz")
    return tname(t) + " Referenz"


def render(P, extern_funcs=()):
    """P: program dict (structs, funcs, main, nearly). Returns DDP source text."""
    lines = ['Binde "Duden/Ausgabe" ein.', ""] + list(P.get("typedecls", []))
    for sd in P["structs"]:
        lines.append("Wir nennen die Kombination aus")
        for f in sd["fields"]:
            d = "" if f["def"]["k"] == "none" else " mit Standardwert %s" % rexpr(f["def"])
            lines.append("\t%s %s %s%s," % ({"f": "der", "m": "dem"}[tgender(f["t"])], tname(f["t"]), f["n"], d))
        alias = "ein %s mit %s" % (sd["n"], " und ".join("%s gleich <%s>" % (f["n"], f["n"]) for f in sd["fields"]))
        lines.append('einen %s, und erstellen sie so:\n\t"%s" oder\n\t"ein leerer %s"' % (sd["n"], alias, sd["n"]))
        lines.append("")
    n = P.get("nearly", 0)
    lines += rstmts(P["main"][:n], 0)
    lines.append("")
    deferred = []
    for fd in P["funcs"]:
        ps = fd["params"]
        if not ps:
            head = "Die %sFunktion %s gibt %s zurück, %smacht:" % ("generische " if fd.get("generic") else "", fd["n"], rtype_ret(fd["ret"]), "ist extern sichtbar, " if fd["n"] in extern_funcs else "")
        elif len(ps) == 1:
            head = "Die %sFunktion %s mit dem Parameter %s vom Typ %s, gibt %s zurück, macht:" % ("generische " if fd.get("generic") else "", fd["n"], ps[0]["n"], rparamtype(ps[0]), rtype_ret(fd["ret"]))
        else:
            names = ", ".join(p["n"] for p in ps[:-1]) + " und " + ps[-1]["n"]
            types = ", ".join(rparamtype(p) for p in ps[:-1]) + " und " + rparamtype(ps[-1])
            head = "Die %sFunktion %s mit den Parametern %s vom Typ %s, gibt %s zurück, macht:" % ("generische " if fd.get("generic") else "", fd["n"], names, types, rtype_ret(fd["ret"]))
        if fd.get("forward"):      # the definition follows at the very end of the program, after its uses
            lines.append(head[:-len("macht:")] + "wird später definiert")
            deferred += ["Die Funktion %s macht:" % fd["n"]] + rstmts(fd["body"], 1) + [""]
        else:
            lines.append(head)
            lines += rstmts(fd["body"], 1)
        lines.append("Und kann so benutzt werden:")
        lines.append('\t"%s"' % (alias_text(fd["n"]) if alias_base(fd["n"]) in ALIAS_FORMS else " ".join([fd["n"]] + ["<%s>" % p["n"] for p in ps])))
        lines.append("")
    lines += rstmts(P["main"][n:], 0)
    lines += deferred
    return "\n".join(lines) + "\n"


# ------------------------------------------------------------------------------------------ build and run
class Runner:
    """Compiles DDP sources with the tree's kddp and links/runs them. One scratch dir per program."""

    def __init__(self, jobs=14):
        self.sut = vlib.sut()
        self.root = vlib.subdir("run")
        self.jobs = jobs
        self.n = 0
        self.env = dict(os.environ, DDPPATH=self.sut)

    _ausgabe_lock = __import__("threading").Lock()

    def ausgabe_obj(self, opt):
        """Duden/Ausgabe compiled on its own (for the 'modules not linked' configuration), cached in the SUT dir"""
        o = os.path.join(self.sut, "lib", "ausgabe_unlinked_O%d.o" % opt)
        with Runner._ausgabe_lock:
            return self._ausgabe_obj(o, opt)

    def _ausgabe_obj(self, o, opt):
        if not os.path.exists(o):
            tmp = o + ".%d.%d.tmp.o" % (os.getpid(), __import__("threading").get_ident())
            p = subprocess.run([os.path.join(self.sut, "bin", "kddp"), "kompiliere", os.path.join(self.sut, "Duden", "Ausgabe.ddp"), "-o", tmp, "-O", str(opt),
                                "--module-linken=false", "--list-defs-linken=false"], env=self.env, stdout=subprocess.PIPE, stderr=subprocess.STDOUT, text=True)
            if p.returncode != 0:
                raise vlib.Infra("cannot compile Duden/Ausgabe on its own: " + p.stdout[-800:])
            subprocess.run(["objcopy", "--localize-symbol=ddp_ddpmain", tmp], check=True)
            os.replace(tmp, o)
        return o

    def build(self, d, main, opt=1, asan=False, ledger=True, extra_objs=(), kddp_flags=(), forkmain=False, cfg="LL"):
        """cfg: first letter modules linked (L) / not (U), second letter list definitions linked (L) / not (U).
        returns (ok, stage, stderr-tail, exe path)"""
        obj = os.path.join(d, "x%d%s.o" % (opt, cfg))
        kddp_flags = list(kddp_flags)
        extra_objs = list(extra_objs)
        if cfg[1] == "U" or cfg[0] == "U":
            kddp_flags.append("--list-defs-linken=false")
            extra_objs.append(os.path.join(self.sut, "lib", "ddp_list_types_defs.o"))
        if cfg[0] == "U":
            kddp_flags.append("--module-linken=false")
            extra_objs.append(self.ausgabe_obj(opt))
        p = subprocess.run([os.path.join(self.sut, "bin", "kddp"), "kompiliere", main, "-o", obj, "-O", str(opt)] + list(kddp_flags), cwd=d, env=self.env,
                           stdout=subprocess.PIPE, stderr=subprocess.STDOUT, text=True, errors="replace", timeout=120)
        if p.returncode != 0 or not os.path.exists(obj):
            return False, "compile", "rc=%d %s" % (p.returncode, p.stdout[-1500:]), None
        exe = os.path.join(d, "x%d%s%s" % (opt, cfg, "a" if asan else ""))
        lib = os.path.join(self.sut, "asan/lib" if asan else "lib")
        cmd = (["clang-14", "-fsanitize=address"] if asan else ["gcc"]) + [obj] + list(extra_objs) + \
              [os.path.join(self.sut, "shim", "setlocale_wrap.o"), os.path.join(self.sut, "shim", "ledger_wrap.o")] + [
               "-L" + lib, "-lddpstdlib", "-lddpruntime", "-lm",
               (os.path.join(self.sut, "shim", "forkmain_asan.o" if asan else "forkmain.o") if forkmain else os.path.join(lib, "main.o")),
               "-Wl,--wrap=setlocale", "-Wl,--wrap=ddp_reallocate", "-o", exe]
        p = subprocess.run(cmd, cwd=d, stdout=subprocess.PIPE, stderr=subprocess.STDOUT, text=True, errors="replace", timeout=120)
        if p.returncode != 0:
            return False, "link", p.stdout[-1500:], None
        return True, "ok", "", exe

    def execute(self, exe, ledger=False, timeout=10, asan=False):
        env = dict(os.environ)
        led = None
        pass_fds = ()
        if ledger:
            led = exe + ".ledger"
            fd = os.open(led, os.O_WRONLY | os.O_CREAT | os.O_TRUNC, 0o644)
            env["VERIF_LEDGER_FD"] = str(fd)
            pass_fds = (fd,)
        if asan:
            env["ASAN_OPTIONS"] = "detect_leaks=1:abort_on_error=0:exitcode=99"
        try:
            rc = None
            # a time-out is only believed when it repeats with six times the budget (the machine may be busy)
            for attempt, tmo in enumerate((timeout, timeout * 6)):
                if attempt and ledger:
                    os.ftruncate(fd, 0)
                    os.lseek(fd, 0, os.SEEK_SET)
                try:
                    p = subprocess.run([exe], stdin=subprocess.DEVNULL, stdout=subprocess.PIPE, stderr=subprocess.PIPE, env=env, timeout=tmo, pass_fds=pass_fds)
                    rc, out, err, to = p.returncode, p.stdout, p.stderr, False
                    break
                except subprocess.TimeoutExpired as e:
                    rc, out, err, to = -1, e.stdout or b"", e.stderr or b"", True
        finally:
            if ledger:
                os.close(fd)
        return dict(code=rc, out=out, err=err.decode("utf-8", "replace"), timeout=to, ledger=led)

    _count = __import__("itertools").count(1)      # one numbering for all runners of the process (they share the scratch directory)

    def newdir(self):
        self.n = next(Runner._count)
        d = os.path.join(self.root, "p%06d" % self.n)
        os.makedirs(d)
        return d

    def run_sources(self, sources, opts=(1,), ledger=False, asan=False, keep=False, cfgs=("LL",)):
        """sources: list of str (single-file programs) or dicts {file: text} whose main file is main.ddp.
        Returns list of dict(build=..., runs={opt: result})"""
        dirs = [self.newdir() for _ in sources]

        def one(i):
            d = dirs[i]
            if isinstance(sources[i], dict):
                for rel, text in sources[i].items():
                    with open(os.path.join(d, "m.ddp" if rel == "main.ddp" else rel), "w") as f:
                        f.write(text)
            else:
                with open(os.path.join(d, "m.ddp"), "w") as f:
                    f.write(sources[i])
            res = dict(dir=d, runs={}, fail={})
            for o in opts:
                for cfg in cfgs:
                    key = o if cfgs == ("LL",) else (o, cfg)
                    ok, stage, msg, exe = self.build(d, "m.ddp", opt=o, asan=asan, cfg=cfg)
                    if not ok:
                        res["fail"][key] = (stage, msg)
                        continue
                    res["runs"][key] = self.execute(exe, ledger=ledger, asan=asan)
            if not keep:
                for f in os.listdir(d):
                    if not f.endswith(".ledger") and not f.endswith(".ddp"):
                        try:
                            os.remove(os.path.join(d, f))
                        except OSError:
                            pass
            return res
        with ThreadPoolExecutor(max_workers=self.jobs) as ex:
            return list(ex.map(one, range(len(sources))))


DISPATCH_DECL = '''Die Funktion verif_fall_nr gibt eine Zahl zurück,
ist in "forkmain.c" definiert
Und kann so benutzt werden:
	"die Nummer des Falls"
'''


def run_forked(runner, src, ncases, opts=(1,), asan=False, dispatch=False):
    """src: DDP source holding extern sichtbar functions fall_0..fall_{n-1}; returns {opt: [result per case]} / fail.
    dispatch: the case is called from the end of the module's top level (imported modules' globals still alive) instead of after it"""
    d = runner.newdir()
    if dispatch:
        src = src + "\n" + DISPATCH_DECL + "\n" + "\n".join("Wenn die Nummer des Falls gleich %d ist, fall_%d." % (k, k) for k in range(ncases)) + "\n"
    with open(os.path.join(d, "m.ddp"), "w") as f:
        f.write(src)
    with open(os.path.join(d, "cases.c"), "w") as f:
        if dispatch:
            f.write("extern void verif_noop(void);\nvoid (*VERIF_CASES[])(void) = {%s};\nint VERIF_NCASES = %d;\n" % (", ".join("verif_noop" for k in range(ncases)), ncases))
        else:
            f.write("".join("extern void fall_%d(void);\n" % k for k in range(ncases)))
            f.write("void (*VERIF_CASES[])(void) = {%s};\nint VERIF_NCASES = %d;\n" % (", ".join("fall_%d" % k for k in range(ncases)), ncases))
    p = subprocess.run(["gcc", "-c", "cases.c", "-o", "cases.o"], cwd=d, stdout=subprocess.PIPE, stderr=subprocess.STDOUT, text=True)
    res = dict(dir=d, runs={}, fail={})
    for o in opts:
        ok, stage, msg, exe = runner.build(d, "m.ddp", opt=o, asan=asan, extra_objs=[os.path.join(d, "cases.o")], forkmain=True)
        if not ok:
            res["fail"][o] = (stage, msg)
            continue
        env = dict(os.environ)
        if asan:
            env["ASAN_OPTIONS"] = "detect_leaks=1:abort_on_error=0:exitcode=99"
        try:
            pr_ = subprocess.run([exe], stdin=subprocess.DEVNULL, stdout=subprocess.PIPE, stderr=subprocess.PIPE, env=env, timeout=20 + 11 * ncases)
        except subprocess.TimeoutExpired:
            res["fail"][o] = ("run", "timeout of the forking driver")
            continue
        data, out, pos = pr_.stdout, [], 0
        while pos < len(data):
            nl = data.index(b"\n", pos)
            hdr = data[pos:nl].decode().split()
            if hdr[0] != "@@case":
                break
            code, no, ne = int(hdr[2]), int(hdr[3]), int(hdr[4])
            o_ = data[nl + 1:nl + 1 + no]
            e_ = data[nl + 1 + no:nl + 1 + no + ne]
            pos = nl + 1 + no + ne
            out.append(dict(code=code, out=o_, err=e_.decode("utf-8", "replace"), timeout=(code == -14), ledger=None))
        if len(out) != ncases:
            res["fail"][o] = ("run", "forking driver answered %d of %d cases: %s" % (len(out), ncases, pr_.stderr[-300:]))
            continue
        res["runs"][o] = out
    return res


def obs_event(r, cfg):
    out = r["out"].decode("utf-8", "replace")
    return dict(e="obs", cfg=cfg, out=[ord(c) for c in out], rterr=r["err"].lstrip().startswith("Laufzeitfehler"), code=r["code"])
