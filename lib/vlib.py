"""Shared machinery for the Kompilierer verification checks (see DESIGN.md §2).

Exit codes: 0 held / 1 violation (a line `VIOLATION property=<id> replay=<path>` is printed) /
2 infrastructure problem (never a verdict about the code).
"""
import json, os, re, shutil, subprocess, sys, tempfile, time, hashlib, random

VERIF = os.path.dirname(os.path.dirname(os.path.abspath(__file__)))
SPEC = os.path.join(VERIF, "spec")
REPO = os.environ.get("VERIF_REPO", "/repo")
TLA_CP = "/opt/veriftools/tla/tla2tools.jar:/opt/veriftools/tla/CommunityModules-deps.jar"


class Infra(Exception):
    """Something in the machinery (not the code under test) went wrong -> exit 2."""


def seed():
    try:
        return int(os.environ.get("VERIF_SEED", "1"))
    except ValueError:
        return 1


def log(*a):
    print(*a, file=sys.stderr, flush=True)


# ------------------------------------------------------------------------------------------
# scratch space (outside /repo and /verif, removed on exit)
_scratch = None


def scratch():
    global _scratch
    if _scratch is None:
        base = os.environ.get("VERIF_SCRATCH", "/var/tmp")
        _scratch = tempfile.mkdtemp(prefix="verif.", dir=base)
        import atexit
        atexit.register(lambda: shutil.rmtree(_scratch, ignore_errors=True))
    return _scratch


def subdir(name):
    d = os.path.join(scratch(), name)
    os.makedirs(d, exist_ok=True)
    return d


# ------------------------------------------------------------------------------------------
# system under test
_sut = None


def sut():
    """Build (or reuse the content-hash cached build of) /repo's working tree; returns install dir."""
    global _sut
    if _sut is None:
        p = subprocess.run([os.path.join(VERIF, "harness", "build_sut.sh")], stdout=subprocess.PIPE,
                           stderr=subprocess.PIPE, text=True)
        if p.returncode != 0:
            raise Infra("SUT build failed:\n" + p.stderr[-4000:])
        _sut = p.stdout.strip().splitlines()[-1]
    return _sut


GOENV = dict(GOFLAGS="-mod=mod", GOPROXY="off", GOSUMDB="off", GOTOOLCHAIN="local")


def go_bin():
    for c in ["/root/go/pkg/mod/golang.org/toolchain@v0.0.1-go1.24.0.linux-amd64/bin/go", "go1.26", "go"]:
        if shutil.which(c):
            return c
    raise Infra("no go toolchain")


def harness_bin(name):
    """Build the Go harness command harness/go/cmd/<name> against the SUT's copy of the tree."""
    s = sut()
    src = os.path.join(VERIF, "harness", "go")
    h = hashlib.sha1()
    for root, _, files in sorted(os.walk(src)):
        for f in sorted(files):
            if f.endswith(".go") or f == "go.mod.in":
                h.update(open(os.path.join(root, f), "rb").read())
    stamp = h.hexdigest()[:12]
    out = os.path.join(s, "hbin", stamp, name)
    if os.path.exists(out):
        return out
    work = os.path.join(s, "hsrc", stamp)
    if not os.path.exists(os.path.join(work, "go.mod")):
        shutil.rmtree(work, ignore_errors=True)
        shutil.copytree(src, work)
        gm = open(os.path.join(work, "go.mod.in")).read().replace("@SUTSRC@", os.path.join(s, "src"))
        open(os.path.join(work, "go.mod"), "w").write(gm)
        shutil.copy(os.path.join(s, "src", "go.sum"), os.path.join(work, "go.sum"))
    env = dict(os.environ, **GOENV)
    os.makedirs(os.path.dirname(out), exist_ok=True)
    p = subprocess.run([go_bin(), "build", "-tags", "verif", "-o", out, "./cmd/" + name], cwd=work, env=env,
                       stdout=subprocess.PIPE, stderr=subprocess.STDOUT, text=True)
    if p.returncode != 0:
        raise Infra("harness build failed (%s):\n%s" % (name, p.stdout[-6000:]))
    return out


# ------------------------------------------------------------------------------------------
# TLC
class TLCResult:
    def __init__(self, rc, out, wall):
        self.rc, self.out, self.wall = rc, out, wall
        self.generated = self.distinct = 0
        m = re.findall(r"(\d+) states generated, (\d+) distinct states found", out)
        if m:
            self.generated, self.distinct = int(m[-1][0]), int(m[-1][1])
        self.ok = rc == 0 and "Model checking completed. No error has been found." in out or \
            (rc == 0 and "Finished in" in out and "Error:" not in out)
        self.invariant_violated = "is violated" in out
        self.postcondition_failed = "Postcondition" in out or "postcondition" in out and "violated" in out
        self.error = ("Error:" in out) and not self.invariant_violated


def tlc(module, cfg, modules_dirs, workdir=None, workers=1, timeout=600, extra=(), files=None, xss="512m",
        dfs=False, heap=None, gcthreads=None):
    """Run TLC on <module>.tla with <cfg> in a scratch copy of the given spec dirs.
    `files` is {name: content or path-to-copy} placed next to the modules (traces, generated data)."""
    wd = workdir or tempfile.mkdtemp(prefix="tlc.", dir=scratch())
    os.makedirs(wd, exist_ok=True)
    for d in modules_dirs:
        dd = d if os.path.isabs(d) else os.path.join(SPEC, d)
        for f in os.listdir(dd):
            if f.endswith(".tla") or f.endswith(".cfg"):
                shutil.copy(os.path.join(dd, f), os.path.join(wd, f))
    for name, content in (files or {}).items():
        dst = os.path.join(wd, name)
        if isinstance(content, str) and os.path.isabs(content) and os.path.exists(content) and "\n" not in content:
            if os.path.abspath(content) != os.path.abspath(dst):
                shutil.copy(content, dst)
        else:
            with open(dst, "w") as fh:
                fh.write(content)
    meta = os.path.join(wd, "meta")
    jopts = "-Xss%s" % xss
    if dfs:
        jopts += " -Dtlc2.tool.queue.IStateQueue=StateDeque"
    env = dict(os.environ, JAVA_TOOL_OPTIONS=jopts)
    cmd = ["java", "-XX:+UseParallelGC"]
    if gcthreads:
        cmd.append("-XX:ParallelGCThreads=%d" % gcthreads)
    if heap:
        cmd.append("-Xmx" + heap)
    cmd += ["-cp", TLA_CP, "tlc2.TLC", "-workers", str(workers), "-metadir", meta, "-config", cfg,
            "-noGenerateSpecTE"] + list(extra) + [module]
    t0 = time.time()
    try:
        p = subprocess.run(["timeout", str(timeout)] + cmd, cwd=wd, env=env, stdout=subprocess.PIPE,
                           stderr=subprocess.STDOUT, text=True)
    except Exception as e:  # pragma: no cover
        raise Infra("cannot run TLC: %s" % e)
    r = TLCResult(p.returncode, p.stdout, time.time() - t0)
    r.workdir = wd
    if p.returncode == 124:
        raise Infra("TLC timed out after %ss on %s/%s" % (timeout, module, cfg))
    if "java.lang.OutOfMemoryError" in p.stdout or "StackOverflowError" in p.stdout:
        raise Infra("TLC resource error on %s/%s:\n%s" % (module, cfg, p.stdout[-3000:]))
    return r


def tlc_must_pass(r, what):
    if r.rc != 0 or "No error has been found" not in r.out:
        raise Infra("TLC did not finish cleanly for %s (rc=%s):\n%s" % (what, r.rc, r.out[-5000:]))


def tlc_prints(out):
    """Values printed with PrintT/Print come on their own lines; return list of lines that look like TLC values
    after a marker `@@name@@`."""
    res = {}
    for m in re.finditer(r'^"?@@(\w+)@@"?\s*(.*)$', out, re.M):
        res.setdefault(m.group(1), []).append(m.group(2))
    return res


# ------------------------------------------------------------------------------------------
# findings, violations, evidence
def known_findings():
    p = os.path.join(VERIF, "known_findings.json")
    if not os.path.exists(p):
        return []
    return json.load(open(p)).get("findings", [])


class Check:
    def __init__(self, pid, tier):
        self.pid, self.tier = pid, tier
        self.t0 = time.time()
        self.violations = []   # (key, description, replay dict)
        self.known_hits = {}
        self.cov = dict(states=0, transitions=0, traces_validated_against_impl=0, samples=[],
                        evaluations=0, distinct_nontrivial=0, rule="", tlc_runs=[])
        self.assumptions = []
        self.known = {f["key"]: f for f in known_findings() if f.get("property") == pid and f.get("status", "open") == "open"}

    def add_tlc(self, r, name):
        self.cov["states"] += r.distinct
        self.cov["transitions"] += r.generated
        self.cov["tlc_runs"].append(dict(name=name, generated=r.generated, distinct=r.distinct, wall_s=round(r.wall, 1)))

    def sample(self, s, limit=6):
        if len(self.cov["samples"]) < limit:
            self.cov["samples"].append(s)

    def fail(self, key, desc, replay):
        """Register a failing case. `key` is the canonical case key matched against known_findings.json."""
        for k in self.known:
            if key == k or key.startswith(k + ":") or re.fullmatch(self.known[k].get("match", "(?!)"), key):
                self.known_hits.setdefault(k, []).append(key)
                return
        self.violations.append((key, desc, replay))

    def finish(self, exhaustive=None, extra=None):
        os.makedirs(os.path.join(VERIF, "evidence"), exist_ok=True)
        rc = 0
        for k, hits in sorted(self.known_hits.items()):
            print("KNOWN-FINDING: property=%s %s (%d case(s), e.g. %s)" % (self.pid, self.known[k]["what"], len(hits), hits[0]))
        if self.violations:
            rc = 1
            d = os.path.join(VERIF, "replays", self.pid)
            os.makedirs(d, exist_ok=True)
            seen = 0
            for key, desc, replay in self.violations[:20]:
                fn = os.path.join(d, re.sub(r"[^A-Za-z0-9_.=-]+", "_", key)[:120] + ".json")
                json.dump(dict(property=self.pid, key=key, description=desc, case=replay), open(fn, "w"), indent=1, ensure_ascii=False)
                print("VIOLATION property=%s replay=%s" % (self.pid, fn))
                print("  " + desc[:600])
                seen += 1
            if len(self.violations) > seen:
                print("  ... and %d more failing cases" % (len(self.violations) - seen))
        cov = dict(self.cov)
        if exhaustive is not None:
            cov["exhaustive"] = exhaustive
        if extra:
            cov.update(extra)
        cov["known_finding_cases"] = sum(len(v) for v in self.known_hits.values())
        ev = dict(property_id=self.pid, tier=self.tier, seed=seed(), level="model_checking", coverage=cov,
                  assumptions=self.assumptions, wall_s=round(time.time() - self.t0, 1), violations=len(self.violations))
        json.dump(ev, open(os.path.join(VERIF, "evidence", self.pid + ".json"), "w"), indent=1, ensure_ascii=False)
        if self.tier == "thorough":      # kept next to the per-change evidence, which the next quick run overwrites
            os.makedirs(os.path.join(VERIF, "evidence", "thorough"), exist_ok=True)
            json.dump(ev, open(os.path.join(VERIF, "evidence", "thorough", self.pid + ".json"), "w"), indent=1, ensure_ascii=False)
        return rc


def run_main(fn):
    try:
        rc = fn()
    except Infra as e:
        log("INFRASTRUCTURE ERROR (exit 2, no verdict):", e)
        sys.exit(2)
    except SystemExit:
        raise
    except BaseException:
        # a bug or a dead tool in the machinery is never a verdict about the code
        import traceback
        log("INFRASTRUCTURE ERROR (exit 2, no verdict): the check itself failed\n" + traceback.format_exc())
        sys.exit(2)
    sys.exit(rc)


def generic_replay(path):
    """./check <ID> --replay <file>: shows the recorded case and runs its program(s) again on the CURRENT tree (compile, and if that works
    link and run), so that the recorded observation can be compared with today's. Informational: exit 0."""
    import ddp
    d = json.load(open(path))
    case = d.get("case") or {}
    print("property   :", d.get("property"))
    print("case key   :", d.get("key"))
    print("description:", d.get("description"))
    files = None
    if isinstance(case.get("files"), dict):
        files = dict(case["files"])
    elif isinstance(case.get("source"), str):
        files = {"m.ddp": case["source"]}
    for k in ("event", "expected", "observed", "prototype", "signature", "fault_class", "cfg", "opt"):
        if k in case:
            print("%-11s: %s" % (k, json.dumps(case[k], ensure_ascii=False)[:1500]))
    if not files:
        print("(the case holds no program source; the record above is the whole case)")
        return 0
    runner = ddp.Runner()
    dd = runner.newdir()
    for rel, text in files.items():
        pth = os.path.join(dd, rel)
        os.makedirs(os.path.dirname(pth), exist_ok=True)
        with open(pth, "wb") as f:
            f.write(text if isinstance(text, bytes) else text.encode("utf-8", "surrogateescape"))
    main = case.get("main") or ("main.ddp" if "main.ddp" in files else "m.ddp" if "m.ddp" in files else sorted(f for f in files if f.endswith(".ddp"))[0])
    extra = []
    if "callee.c" in files:
        inc = os.path.join(runner.sut, "src", "lib", "runtime", "include")
        subprocess.run(["gcc", "-c", "-O1", "-I", inc, "callee.c", "-o", "callee.o"], cwd=dd)
        extra = [os.path.join(dd, "callee.o")]
    for o in ([case["opt"]] if isinstance(case.get("opt"), int) else [0, 2]):
        ok, stage, msg, exe = runner.build(dd, main, opt=o, extra_objs=extra)
        print("---- -O%d on the current tree: %s" % (o, "built" if ok else "does not build (%s)" % stage))
        if not ok:
            print(msg[-2500:])
            continue
        r = runner.execute(exe)
        print("exit status %s%s" % (r["code"], " (TIMEOUT)" if r["timeout"] else ""))
        print("stdout: %r" % r["out"].decode("utf-8", "replace")[:3000])
        print("stderr: %r" % r["err"][:1500])
    return 0


def read_ledger(path):
    """events of an allocation ledger; a process that dies while writing leaves a broken last line, which is dropped"""
    out = []
    if path and os.path.exists(path):
        for ln in open(path, errors="replace"):
            try:
                ev = json.loads(ln)
            except ValueError:
                continue
            if isinstance(ev, dict) and ev.get("e") == "h":
                out.append(ev)
    return out


def write_ndjson(path, records):
    with open(path, "w") as f:
        for r in records:
            f.write(json.dumps(r, ensure_ascii=True, separators=(",", ":")))
            f.write("\n")


def read_ndjson(path):
    out = []
    with open(path) as f:
        for l in f:
            l = l.strip()
            if l:
                out.append(json.loads(l))
    return out


def rng(tag=""):
    return random.Random("%d/%s" % (seed(), tag))


# ------------------------------------------------------------------------------------------
# pattern T, monitor variant: chunked parallel trace validation
def parse_marked(out):
    """TLC prints  <<"@@name@@", value>>  (possibly wrapped over several lines). Returns {name: [text...]}"""
    res = {}
    for m in re.finditer(r'<<\s*"@@(\w+)@@",\s*(.*?)>>\s*\n(?=\S|$)', out, re.S):
        res.setdefault(m.group(1), []).append(m.group(2))
    return res


def ints_of(text):
    return [int(x) for x in re.findall(r"-?\d+", text)]


def split_chunks(records, nchunks, is_start=lambda r: r.get("e") == "reset"):
    starts = [i for i, r in enumerate(records) if is_start(r)]
    if not starts or starts[0] != 0:
        starts = [0] + starts
    if len(starts) <= nchunks:
        cuts = starts
    else:
        step = len(starts) / float(nchunks)
        cuts = sorted(set(starts[int(i * step)] for i in range(nchunks)))
    chunks = []
    for a, b in zip(cuts, cuts[1:] + [len(records)]):
        if b > a:
            chunks.append((a, records[a:b]))
    return chunks


def validate_monitor(module, cfg, dirs, records, procs=12, timeout=900, sets=("bad", "drift"), extra_files=None, xss="512m", is_start=None):
    """Run the monitor trace spec over `records` (list of dicts) split at reset boundaries.
    Returns (result dict name -> sorted list of GLOBAL 0-based record indices, stats)."""
    from concurrent.futures import ThreadPoolExecutor
    chunks = split_chunks(records, procs, is_start) if is_start else split_chunks(records, procs)
    res = {s: [] for s in sets}
    stats = dict(generated=0, distinct=0, lines=0, wall=0.0, chunks=len(chunks))

    def one(ch):
        off, recs = ch
        wd = tempfile.mkdtemp(prefix="tv.", dir=scratch())
        write_ndjson(os.path.join(wd, "trace.ndjson"), recs)
        files = dict(extra_files or {})
        r = tlc(module, cfg, dirs, workdir=wd, workers=1, timeout=timeout, files=files, xss=xss, gcthreads=2, heap="3g")
        return off, len(recs), r

    t0 = time.time()
    with ThreadPoolExecutor(max_workers=procs) as ex:
        for off, n, r in ex.map(one, chunks):
            marks = parse_marked(r.out)
            if r.rc != 0 or "lines" not in marks or ints_of(marks["lines"][-1]) != [n]:
                raise Infra("trace validation did not consume the whole trace (%s/%s, chunk at %d):\n%s" % (module, cfg, off, r.out[-3000:]))
            for s in sets:
                if s in marks:
                    res[s] += [off + x - 1 for x in ints_of(marks[s][-1])]
            for k_, v_ in marks.items():
                if k_ not in sets and k_ != "lines":
                    stats.setdefault("marks", {}).setdefault(k_, []).extend(v_)
            stats["generated"] += r.generated
            stats["distinct"] += r.distinct
            stats["lines"] += n
            shutil.rmtree(r.workdir, ignore_errors=True)
    stats["wall"] = time.time() - t0
    for s in sets:
        res[s].sort()
    return res, stats


# ------------------------------------------------------------------------------------------
# frontend worker pool (harness/go/cmd/fe): sacrificial processes with memory and time limits
class FEPool:
    def __init__(self, nworkers=12, timeout=20, mem_gb=8):
        self.bin = harness_bin("fe")
        self.n, self.timeout, self.mem = nworkers, timeout, mem_gb
        self.root = subdir("fe")
        self.counter = 0

    def materialize(self, files):
        """files: {relative path: str|bytes}. Returns the directory."""
        self.counter += 1
        d = os.path.join(self.root, "j%07d" % self.counter)
        for rel, content in files.items():
            p = os.path.join(d, rel)
            os.makedirs(os.path.dirname(p), exist_ok=True)
            with open(p, "wb") as f:
                f.write(content if isinstance(content, bytes) else content.encode("utf-8"))
        return d

    def _spawn(self):
        import resource
        lim = self.mem << 30

        def pre():
            resource.setrlimit(resource.RLIMIT_AS, (lim, lim))
        env = dict(os.environ, DDPPATH=sut(), GOMAXPROCS="2")
        return subprocess.Popen([self.bin], stdin=subprocess.PIPE, stdout=subprocess.PIPE, stderr=subprocess.PIPE,
                                env=env, preexec_fn=pre)

    def run(self, jobs, keep_dirs=False):
        """jobs: list of dict(files=..., main=..., **opts) ; returns list of answers in order.
        An answer is the worker's JSON plus, when the worker died or hung:  killed=<returncode>, stderr=<tail> / timeout=True."""
        import threading, queue, select
        q = queue.Queue()
        for i, j in enumerate(jobs):
            q.put((i, j))
        results = [None] * len(jobs)

        def worker():
            proc = None
            while True:
                try:
                    i, j = q.get_nowait()
                except queue.Empty:
                    break
                d = j.get("dir") or self.materialize(j["files"])
                req = dict(id=str(i), dir=d, main=j["main"])
                for k in ("calls", "render", "dump", "repeat", "stack", "trace", "types"):
                    if k in j:
                        req[k] = j[k]
                if proc is None or proc.poll() is not None:
                    proc = self._spawn()
                try:
                    proc.stdin.write((json.dumps(req) + "\n").encode())
                    proc.stdin.flush()
                    deadline = time.time() + self.timeout * max(1, j.get("repeat", 1) / 10.0)
                    buf = b""
                    ans = None
                    fd = proc.stdout.fileno()
                    while True:
                        left = deadline - time.time()
                        if left <= 0:
                            break
                        r, _, _ = select.select([fd], [], [], min(left, 1.0))
                        if r:
                            chunk = os.read(fd, 1 << 20)
                            if not chunk:
                                break
                            buf += chunk
                            if buf.endswith(b"\n"):
                                ans = json.loads(buf.decode())
                                break
                        elif proc.poll() is not None:
                            break
                    if ans is None:
                        if proc.poll() is None and time.time() >= deadline:
                            proc.kill()
                            proc.wait()
                            ans = dict(id=str(i), timeout=True, runs=[])
                        else:
                            proc.wait()
                            err = proc.stderr.read().decode("utf-8", "replace")
                            ans = dict(id=str(i), killed=proc.returncode, stderr=err[:1500] + ("\n...\n" + err[-1500:] if len(err) > 3000 else ""), runs=[])
                        proc = None
                except BrokenPipeError:
                    ans = dict(id=str(i), killed=-1, stderr="broken pipe", runs=[])
                    proc = None
                ans["dir"] = d
                results[i] = ans
                if not keep_dirs and not j.get("dir"):
                    shutil.rmtree(d, ignore_errors=True)
            if proc is not None and proc.poll() is None:
                try:
                    proc.stdin.close()
                except Exception:
                    pass
                proc.kill()
                proc.wait()

        ths = [threading.Thread(target=worker) for _ in range(min(self.n, max(1, len(jobs))))]
        for t in ths:
            t.start()
        for t in ths:
            t.join()
        return results
