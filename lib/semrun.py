"""Runs program ASTs through the real compiler/runtime and validates the observations with DDPRunTrace (TLC)."""
import json, os, re, bisect
import vlib, ddp
from vlib import Infra

T_CFG = """SPECIFICATION Spec
CONSTANTS
  TraceFile = "trace.ndjson"
  Fuel = %d
  DecSep = 46
  Plan = %s
INVARIANTS Report
POSTCONDITION Accepted
CHECK_DEADLOCK FALSE
"""


def parse_unspecat(out):
    res = {}
    for m in re.finditer(r'<<\s*"@@unspecat@@",\s*(\d+),\s*"(\w+)",\s*<<(.*?)>>\s*>>', out, re.S):
        cps = [int(x) for x in re.findall(r"-?\d+", m.group(3))]
        res[int(m.group(1))] = "".join(chr(c) for c in cps)
    return res


def parse_exp(out):
    """@@exp@@ prints: <<"@@exp@@", l, sig, <<cps>>>> -> {line(0-based global handled by caller): (sig, text)}"""
    res = {}
    for m in re.finditer(r'<<\s*"@@exp@@",\s*(\d+),\s*"(\w+)",\s*<<(.*?)>>\s*>>', out, re.S):
        cps = [int(x) for x in re.findall(r"-?\d+", m.group(3))]
        res[int(m.group(1))] = (m.group(2), "".join(chr(c) for c in cps))
    return res


def validate(records, procs=14, timeout=1800, plan=False, fuel=400):
    """records: prog/obs events. Returns (bad indices, {idx: (sig, expected text)}, stats, n_unspec)"""
    from concurrent.futures import ThreadPoolExecutor
    import tempfile, shutil, time
    chunks = vlib.split_chunks(records, procs, lambda r: r.get("e") == "prog")
    bad, exp, nun = [], {}, 0
    unspecat = {}
    sigs = {}
    stats = dict(generated=0, distinct=0, lines=0, wall=0.0, chunks=len(chunks))

    def one(ch):
        off, recs = ch
        wd = tempfile.mkdtemp(prefix="sem.", dir=vlib.scratch())
        vlib.write_ndjson(os.path.join(wd, "trace.ndjson"), recs)
        r = vlib.tlc("DDPRunTrace", "t.cfg", ["sem", "common", "syntax"], workdir=wd, workers=1, timeout=timeout, files={"t.cfg": T_CFG % (fuel, "TRUE" if plan else "FALSE")}, gcthreads=2, heap="3g")
        return off, len(recs), r
    t0 = time.time()
    with ThreadPoolExecutor(max_workers=procs) as ex:
        for off, n, r in ex.map(one, chunks):
            marks = vlib.parse_marked(r.out)
            if r.rc != 0 or "lines" not in marks or vlib.ints_of(marks["lines"][-1]) != [n]:
                raise Infra("DDPRunTrace did not consume the whole trace (chunk at %d):\n%s" % (off, r.out[-4000:]))
            bad += [off + x - 1 for x in vlib.ints_of(marks["bad"][-1])]
            nun += vlib.ints_of(marks["unspec"][-1])[0]
            for ln, v in parse_exp(r.out).items():
                exp[off + ln - 1] = v
            for ln, v in parse_unspecat(r.out).items():
                unspecat[off + ln - 1] = v
            for m in re.finditer(r'<<\s*"@@sig@@",\s*(\d+),\s*"(\w+)"\s*>>', r.out):
                sigs[off + int(m.group(1)) - 1] = m.group(2)
            stats["generated"] += r.generated; stats["distinct"] += r.distinct; stats["lines"] += n
            shutil.rmtree(r.workdir, ignore_errors=True)
    stats["wall"] = time.time() - t0
    validate.unspecat = unspecat
    validate.sigs = sigs
    return sorted(bad), exp, stats, nun


def run_programs(progs, opts=(1,), runner=None, ledger=False):
    """progs: list of program dicts. Returns (records, index: list of (record start, prog idx), build failures)"""
    runner = runner or ddp.Runner()
    srcs = [ddp.render(p) for p in progs]
    results = runner.run_sources(srcs, opts=opts, ledger=ledger)
    recs, starts, fails = [], [], []
    for i, (p, r) in enumerate(zip(progs, results)):
        if r["fail"]:
            fails.append((i, r["fail"], srcs[i]))
        if not r["runs"]:
            continue
        starts.append((len(recs), i))
        recs.append(dict(e="prog", id=p.get("id", str(i)), p=dict(structs=p["structs"], funcs=p["funcs"], main=p["main"])))
        for o, rr in sorted(r["runs"].items()):
            if rr["timeout"]:
                recs.append(dict(e="obs", cfg="O%d" % o, out=[], rterr=False, code=-99))
            else:
                recs.append(ddp.obs_event(rr, "O%d" % o))
    return recs, starts, fails, srcs, results


def plan_cases(ck, cases, funcs=(), nearly=(), label="plan"):
    """TLC-only pass: classify every case on its own (ok / rterr / unspec) before anything is compiled."""
    import semgen
    recs = []
    for i, c in enumerate(cases):
        p = semgen.batch_program([c], "plan%d" % i, funcs=funcs, nearly_stmts=nearly)
        recs.append(dict(e="prog", id=p["id"], p=dict(structs=p["structs"], funcs=p["funcs"], main=p["main"])))
    bad, exp, st, nun = validate(recs, plan=True)
    ck.cov["states"] += st["distinct"]; ck.cov["transitions"] += st["generated"]
    ck.cov["tlc_runs"].append(dict(name="DDPRunTrace %s" % label, lines=st["lines"], wall_s=round(st["wall"], 1), chunks=st["chunks"]))
    sigs = validate.sigs
    if len(sigs) != len(cases):
        raise Infra("planning pass classified %d of %d cases" % (len(sigs), len(cases)))
    return [sigs[i] for i in range(len(cases))]


def _judge_forked(ck, errc, opts, funcs, nearly, prefix, label, runner, compile_failed, asan, per=60):
    import semgen
    from concurrent.futures import ThreadPoolExecutor
    groups = [errc[i:i + per] for i in range(0, len(errc), per)]

    def one(g):
        fns = [dict(n="fall_%d" % k, params=[], ret=ddp.TNONE, body=[{"k": "block", "body": semgen.batch_program([c], "x")["main"][0]["body"]}]) for k, c in enumerate(g)]
        P = dict(structs=list(semgen.STRUCTS.values()), funcs=list(funcs) + fns, main=list(nearly), nearly=len(nearly), typedecls=list(semgen.TYPEDECLS_SEM))
        src = ddp.render(P, extern_funcs={f["n"] for f in fns})
        # with globals in the program the case runs at the end of the module's top level (afterwards the globals are released)
        return g, fns, src, ddp.run_forked(runner, src, len(g), opts=opts, asan=asan, dispatch=bool(nearly))
    recs, meta = [], []
    done = []
    while groups:
        nxt = []
        with ThreadPoolExecutor(max_workers=runner.jobs) as ex:
            for g, fns, src, res in ex.map(one, groups):
                if res["fail"] and len(g) > 1:
                    h = len(g) // 2
                    nxt += [g[:h], g[h:]]
                else:
                    done.append((g, fns, src, res))
        groups = nxt
    if True:
        for g, fns, src, res in done:
            if res["fail"]:
                for c in g:
                    compile_failed.append((c.key, list(res["fail"].values())[0][0], list(res["fail"].values())[0][1], src))
                continue
            for k, c in enumerate(g):
                meta.append((len(recs), c, src))
                recs.append(dict(e="prog", id=c.key, p=dict(structs=list(semgen.STRUCTS.values()), funcs=list(funcs) + [fns[k]],
                                                             main=list(nearly) + [{"k": "expr", "e": ddp.call("fall_%d" % k, [])}])))
                for o in opts:
                    recs.append(ddp.obs_event(res["runs"][o][k], "O%d" % o))
    if not recs:
        return dict(n=0)
    bad, exp, st, nun = validate(recs)
    ck.cov["states"] += st["distinct"]; ck.cov["transitions"] += st["generated"]
    ck.cov["tlc_runs"].append(dict(name="DDPRunTrace %s forked" % label, lines=st["lines"], wall_s=round(st["wall"], 1), chunks=st["chunks"]))
    ck.cov["traces_validated_against_impl"] += sum(1 for r in recs if r["e"] == "obs")
    starts = [m[0] for m in meta]
    for i in bad:
        j = bisect.bisect_right(starts, i) - 1
        _, c, src = meta[j]
        ev = recs[i]
        sig, etext = exp.get(i, ("?", ""))
        otext = "".join(chr(x) for x in ev["out"])
        ck.fail("%s:%s:%s" % (prefix, c.key, ev["cfg"]), "case %s (%s, forked driver): expected %s %r, observed rterr=%s code=%s %r" % (
            c.key, ev["cfg"], sig, etext[:150], ev["rterr"], ev["code"], otext[:150]),
            dict(case=c.key, cfg=ev["cfg"], expected=dict(sig=sig, out=etext), observed=dict(out=otext, rterr=ev["rterr"], code=ev["code"]), source=src))
    return dict(n=len(meta))


def judge_cases(ck, cases, opts=(1,), per=40, funcs=(), nearly=(), prefix="C01", runner=None, label="cases", ledger=False, asan=False, fork_solo=24):
    """Batches cases into programs, runs them under every opt level, validates with DDPRunTrace and registers failures
    on the Check object.  Batches that fail to build are bisected down to single cases (those are C02's subject and are
    returned); a batch that reaches an unspecified corner is cut there and the remaining cases are re-run, so that
    every specified case is compared.
    Returns dict(n_cases, n_progs, compile_failed=[(key, stage, msg, src)], unspec_cases=[keys], records, meta)"""
    import semgen, re as _re
    runner = runner or ddp.Runner()
    sigs = plan_cases(ck, cases, funcs=funcs, nearly=nearly, label=label + " plan")
    okc = [c for c, s in zip(cases, sigs) if s == "ok"]
    errc = [c for c, s in zip(cases, sigs) if s == "rterr"]
    compile_failed, unspec_cases = [], [c.key for c, s in zip(cases, sigs) if s == "unspec"]
    pending = [(okc[i:i + per], "%s-%s-%d" % (prefix, label, i // per)) for i in range(0, len(okc), per)]
    # cases expected to end in a Laufzeitfehler: a seed-chosen sample as stand-alone programs, all of them through the
    # forking driver (one compilation, one process per case; see harness/shim/forkmain.c)
    rs = vlib.rng(prefix + label)
    solo = rs.sample(errc, min(len(errc), fork_solo))
    pending += [([c], "%s-%s-e%d" % (prefix, label, i)) for i, c in enumerate(solo)]
    fork_stats = _judge_forked(ck, errc, opts, funcs, nearly, prefix, label, runner, compile_failed, asan)
    all_recs, all_meta = [], []      # meta: (record start, batch cases, src, results)
    nprogs = 0
    for rnd in range(12):
        if not pending:
            break
        progs = [semgen.batch_program(b, pid, funcs=funcs, nearly_stmts=nearly) for b, pid in pending]
        recs, starts, fails, srcs, results = run_programs(progs, opts=opts, runner=runner, ledger=ledger)
        nprogs += len(progs)
        failed_idx = {i for i, f, s in fails}
        nxt = []
        for i, f, s in fails:
            b, pid = pending[i]
            if len(b) == 1:
                stage, msg = list(f.values())[0]
                compile_failed.append((b[0].key, stage, msg, s))
            else:
                h = len(b) // 2
                nxt += [(b[:h], pid + "a"), (b[h:], pid + "b")]
        base = len(all_recs)
        rnd_recs, rnd_meta = [], []
        for (start, i) in starts:
            if i in failed_idx:
                continue
            end = min([s for s, _ in starts if s > start] + [len(recs)])
            rnd_meta.append((len(rnd_recs), pending[i][0], srcs[i], results[i], pending[i][1]))
            rnd_recs += recs[start:end]
        if rnd_recs:
            bad, exp, st, nun = validate(rnd_recs)
            ck.cov["states"] += st["distinct"]; ck.cov["transitions"] += st["generated"]
            ck.cov["tlc_runs"].append(dict(name="DDPRunTrace %s round %d" % (label, rnd), lines=st["lines"], wall_s=round(st["wall"], 1), chunks=st["chunks"]))
            ck.cov["traces_validated_against_impl"] += sum(1 for r in rnd_recs if r["e"] == "obs")
            mstarts = [m[0] for m in rnd_meta]
            for i, text in validate.unspecat.items():
                j = bisect.bisect_right(mstarts, i) - 1
                _, bcases, src, res, pid = rnd_meta[j]
                ms = [int(x) for x in _re.findall(r"#(\d+):", text)]
                k = ms[-1] if ms else 0
                unspec_cases.append(bcases[k].key)
                if k + 1 < len(bcases):
                    nxt.append((bcases[k + 1:], pid + "u"))
            for i in bad:
                j = bisect.bisect_right(mstarts, i) - 1
                _, bcases, src, res, pid = rnd_meta[j]
                ev = rnd_recs[i]
                sig, etext = exp.get(i, ("?", ""))
                otext = "".join(chr(c) for c in ev["out"])
                ci = semgen.first_diff_case(etext, otext)
                if ci is None or ci >= len(bcases):
                    ci = len(bcases) - 1     # only the verdict (exit status / Laufzeitfehler) differs: the last case
                key = "%s:%s:%s" % (prefix, bcases[ci].key, ev["cfg"])
                ck.fail(key, "compiled program disagrees with DDPSem at case %s (%s): expected %s %r..., observed rterr=%s code=%s %r..." % (
                    bcases[ci].key, ev["cfg"], sig, _around(etext, ci), ev["rterr"], ev["code"], _around(otext, ci)),
                    dict(case=bcases[ci].key, cfg=ev["cfg"], expected=dict(sig=sig, out=etext), observed=dict(out=otext, rterr=ev["rterr"], code=ev["code"]), source=src))
                # the cases after the failing one were not compared: re-run them
                if ci + 1 < len(bcases) and all(n[1] != pid + "f" for n in nxt):
                    nxt.append((bcases[ci + 1:], pid + "f"))
            for m in rnd_meta:
                all_meta.append((len(all_recs) + m[0],) + m[1:4])
            all_recs += rnd_recs
        pending = nxt
    # a pass must not be vacuous: when a large part of the (specified, hence well-formed) cases does not build, nothing was decided
    if len(compile_failed) > max(5, len(cases) // 10):
        k, stage, msg, src = compile_failed[0]
        raise Infra("%d of %d specified cases did not build (first: %s, %s): %s" % (len(compile_failed), len(cases), k, stage, msg[-1200:]))
    return dict(n_cases=len(cases), n_progs=nprogs, compile_failed=compile_failed, unspec_cases=unspec_cases, records=all_recs, meta=all_meta)


def _around(text, ci):
    if ci is None:
        return text[:120]
    m = text.find("#%d:" % ci)
    return text[m:m + 100] if m >= 0 else text[:120]
