"""Runs program ASTs through the real compiler/runtime and validates the observations with DDPRunTrace (TLC)."""
import json, os, re, bisect
import vlib, ddp
from vlib import Infra

T_CFG = """SPECIFICATION Spec
CONSTANTS
  TraceFile = "trace.ndjson"
  Fuel = 400
  DecSep = 46
INVARIANTS Report
POSTCONDITION Accepted
CHECK_DEADLOCK FALSE
"""


def parse_exp(out):
    """@@exp@@ prints: <<"@@exp@@", l, sig, <<cps>>>> -> {line(0-based global handled by caller): (sig, text)}"""
    res = {}
    for m in re.finditer(r'<<\s*"@@exp@@",\s*(\d+),\s*"(\w+)",\s*<<(.*?)>>\s*>>', out, re.S):
        cps = [int(x) for x in re.findall(r"-?\d+", m.group(3))]
        res[int(m.group(1))] = (m.group(2), "".join(chr(c) for c in cps))
    return res


def validate(records, procs=14, timeout=1800):
    """records: prog/obs events. Returns (bad indices, {idx: (sig, expected text)}, stats, n_unspec)"""
    from concurrent.futures import ThreadPoolExecutor
    import tempfile, shutil, time
    chunks = vlib.split_chunks(records, procs, lambda r: r.get("e") == "prog")
    bad, exp, nun = [], {}, 0
    stats = dict(generated=0, distinct=0, lines=0, wall=0.0, chunks=len(chunks))

    def one(ch):
        off, recs = ch
        wd = tempfile.mkdtemp(prefix="sem.", dir=vlib.scratch())
        vlib.write_ndjson(os.path.join(wd, "trace.ndjson"), recs)
        r = vlib.tlc("DDPRunTrace", "t.cfg", ["sem", "common"], workdir=wd, workers=1, timeout=timeout, files={"t.cfg": T_CFG}, gcthreads=2, heap="3g")
        return off, len(recs), r
    t0 = time.time()
    with ThreadPoolExecutor(max_workers=procs) as ex:
        for off, n, r in ex.map(one, chunks):
            marks = vlib.parse_marked(r.out)
            if r.rc != 0 or "lines" not in marks or vlib.ints_of(marks["lines"][-1]) != [n]:
                raise Infra("DDPRunTrace did not consume the whole trace (chunk at %d):\n%s" % (off, r.out[-4000:]))
            bad += [off + x - 1 for x in vlib.ints_of(marks["bad"][-1])]
            nun += vlib.ints_of(marks["unspec"][-1])[0]
            for ln, v in parse_exp(r.out).items():
                exp[off + ln - 1] = v
            stats["generated"] += r.generated; stats["distinct"] += r.distinct; stats["lines"] += n
            shutil.rmtree(r.workdir, ignore_errors=True)
    stats["wall"] = time.time() - t0
    return sorted(bad), exp, stats, nun


def run_programs(progs, opts=(1,), runner=None, ledger=False):
    """progs: list of program dicts. Returns (records, index: list of (record start, prog idx), build failures)"""
    runner = runner or ddp.Runner()
    srcs = [ddp.render(p) for p in progs]
    results = runner.run_sources(srcs, opts=opts, ledger=ledger)
    recs, starts, fails = [], [], []
    for i, (p, r) in enumerate(zip(progs, results)):
        if r["fail"]:
            fails.append((i, r["fail"], srcs[i]))
        if not r["runs"]:
            continue
        starts.append((len(recs), i))
        recs.append(dict(e="prog", id=p.get("id", str(i)), p=dict(structs=p["structs"], funcs=p["funcs"], main=p["main"])))
        for o, rr in sorted(r["runs"].items()):
            if rr["timeout"]:
                recs.append(dict(e="obs", cfg="O%d" % o, out=[], rterr=False, code=-99))
            else:
                recs.append(ddp.obs_event(rr, "O%d" % o))
    return recs, starts, fails, srcs, results
