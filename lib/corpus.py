"""The repository's own programs (tests/testdata/kddp, tests/testdata/stdlib, examples) as semantic cases.

The tree the REAL frontend builds for each program is exported by harness/go/cmd/astx into the JSON program shape of
DDPSem.tla; TLC (DDPRunTrace) evaluates it and judges what the executable compiled from the ORIGINAL source printed.
Constructs the exporter does not translate are `unsup` nodes without a meaning: from there on the run is unspecified and
only the output up to that point is compared (counted in the evidence).  Nothing is judged without the specification:
a program the exporter refuses, or that does not link in this sandbox, is counted and skipped."""
import json, os, shutil, subprocess
from concurrent.futures import ThreadPoolExecutor
import vlib, ddp, semrun
from vlib import Infra

SKIP_DIRS = {"Regex", "Komprimierung"}          # cannot be linked in this sandbox (empty PCRE2 / libarchive submodules)


def programs(subset="all"):
    """[(id, srcdir, mainfile)] under the SUT's copy of the tree; subset "kddp": the language tests only"""
    src = os.path.join(vlib.sut(), "src")
    out = []
    for base in (("tests/testdata/kddp",) if subset == "kddp" else ("tests/testdata/kddp", "tests/testdata/stdlib")):
        root = os.path.join(src, base)
        for d, dirs, files in sorted(os.walk(root)):
            dirs.sort()
            n = os.path.basename(d)
            if n in SKIP_DIRS:
                dirs[:] = []
                continue
            if n + ".ddp" in files and "expected.txt" in files:
                out.append((os.path.relpath(d, src), d, n + ".ddp"))
    ex = os.path.join(src, "examples")
    if os.path.isdir(ex) and subset != "kddp":
        for f in sorted(os.listdir(ex)):
            if f.endswith(".ddp"):
                out.append(("examples/" + f[:-4], ex, f))
    only = os.environ.get("VERIF_CORPUS_ONLY")      # debugging aid: substring of the program id
    if only:
        out = [x for x in out if only in x[0]]
    return out


def export(progs):
    """astx answers by id"""
    exe = vlib.harness_bin("astx")
    req = "".join(json.dumps(dict(id=i, dir=d, main=m)) + "\n" for i, d, m in progs)
    p = subprocess.run([exe], input=req.encode(), stdout=subprocess.PIPE, stderr=subprocess.PIPE, env=dict(os.environ, DDPPATH=vlib.sut()), timeout=600)
    ans = {}
    for ln in p.stdout.decode().splitlines():
        a = json.loads(ln)
        ans[a["id"]] = a
    if len(ans) != len(progs):
        raise Infra("astx answered %d of %d requests: %s" % (len(ans), len(progs), p.stderr.decode()[-2000:]))
    return ans


def build_and_run(runner, progs, opts, ledger=False, asan=False, stdin_files=True):
    """compile each ORIGINAL program in a scratch copy of its directory, run it there. -> {id: {opt: result}|fail}"""
    def one(item):
        i, d, m = item
        wd = runner.newdir()
        dst = os.path.join(wd, "src")
        shutil.copytree(d, dst)
        res = dict(dir=dst, runs={}, fail={})
        # C files beside the program hold its extern functions (kddp would compile them itself; here the link is ours)
        extra = []
        for f in sorted(os.listdir(dst)):
            if f.endswith(".c"):
                o_ = os.path.join(dst, f[:-2] + ".cobj")
                cc = subprocess.run((["clang-14", "-fsanitize=address"] if asan else ["gcc"]) + ["-c", "-O1", "-I", os.path.join(runner.sut, "include"), f, "-o", o_],
                                    cwd=dst, stdout=subprocess.PIPE, stderr=subprocess.STDOUT)
                if cc.returncode == 0:
                    extra.append(o_)
        for o in opts:
            ok, stage, msg, exe = runner.build(dst, m, opt=o, asan=asan, extra_objs=extra)
            if not ok:
                res["fail"][o] = (stage, msg)
                continue
            res["runs"][o] = execute_in(runner, exe, dst, ledger=ledger, asan=asan)
        for f in os.listdir(dst):
            if f.startswith("x") and (f.endswith(".o") or "." not in f):
                try:
                    os.remove(os.path.join(dst, f))
                except OSError:
                    pass
        return i, res
    with ThreadPoolExecutor(max_workers=runner.jobs) as ex:
        return dict(ex.map(one, progs))


def execute_in(runner, exe, cwd, ledger=False, asan=False, timeout=20):
    """stdout goes to a size-limited file: an interactive example that meets end of input may print its prompt for ever"""
    import resource
    env = dict(os.environ)
    led, pass_fds, fd = None, (), None
    if ledger:
        led = exe + ".ledger"
        fd = os.open(led, os.O_WRONLY | os.O_CREAT | os.O_TRUNC, 0o644)
        env["VERIF_LEDGER_FD"] = str(fd)
        pass_fds = (fd,)
    if asan:
        env["ASAN_OPTIONS"] = "detect_leaks=1:abort_on_error=0:exitcode=99"
    outp = exe + ".stdout"

    def limit():
        resource.setrlimit(resource.RLIMIT_FSIZE, (8 << 20, 8 << 20))
    try:
        for attempt, tmo in enumerate((timeout, timeout * 4)):
            if attempt and ledger:
                os.ftruncate(fd, 0)
                os.lseek(fd, 0, os.SEEK_SET)
            with open(outp, "wb") as of:
                try:
                    p = subprocess.run([exe], cwd=cwd, stdin=subprocess.DEVNULL, stdout=of, stderr=subprocess.PIPE, env=env, timeout=tmo, pass_fds=pass_fds, preexec_fn=limit)
                    rc, err, to = p.returncode, p.stderr[-20000:], False
                except subprocess.TimeoutExpired as e:
                    rc, err, to = -1, (e.stderr or b"")[-20000:], True
            if not to:
                break
    finally:
        if fd is not None:
            os.close(fd)
    out = open(outp, "rb").read()
    os.remove(outp)
    flood = len(out) >= (8 << 20) - 4096
    return dict(code=rc, out=b"" if flood else out, err=err.decode("utf-8", "replace"), timeout=to or flood, ledger=led)


def check_semantics(ck, opts, label, fuel=4000, per_program_timeout=150, subset="all"):
    """exports, builds, runs and validates the corpus; registers violations on ck; returns coverage dict"""
    progs = programs(subset)
    ans = export(progs)
    runner = ddp.Runner()
    usable = [(i, d, m) for i, d, m in progs if ans[i]["ok"]]
    results = build_and_run(runner, usable, opts)
    recs, owner = [], []
    cov = dict(programs=len(progs), exported=len(usable), refused={i: ans[i].get("err", "")[:80] for i, _, _ in progs if not ans[i]["ok"]},
               not_built={}, nodes=sum(ans[i]["nodes"] for i, _, _ in usable), unsup={}, features=sorted({f for i, _, _ in usable for f in (ans[i]["features"] or [])}))
    for i, d, m in usable:
        for k, v in ans[i]["unsup"].items():
            cov["unsup"][k] = cov["unsup"].get(k, 0) + v
        r = results[i]
        if not r["runs"]:
            cov["not_built"][i] = "; ".join("O%s %s" % (o, st) for o, (st, _) in r["fail"].items())
            continue
        if any(rr["timeout"] for rr in r["runs"].values()):
            cov.setdefault("waits_for_input", []).append(i)      # interactive examples: nothing to compare
            continue
        # every optimisation level must build when one does (C02 / C11 talk about that; here it is only counted)
        recs.append(dict(e="prog", id=i, p=ans[i]["p"]))
        owner.append((len(recs) - 1, i))
        for o, rr in sorted(r["runs"].items()):
            recs.append(ddp.obs_event(rr, "O%d" % o))
    if not recs:
        raise Infra("corpus: no program could be exported and built")
    bad, exp, st, unspecat, skipped = validate_each(recs, [s for s, _ in owner], fuel, per_program_timeout)
    cov["evaluation_too_expensive"] = [owner[j][1] for j in skipped]
    cov["slowest_evaluations_s"] = dict(sorted(st.get("per_program", {}).items(), key=lambda kv: -kv[1])[:8])
    ck.cov["tlc_runs"].append(dict(name="DDPRunTrace " + label, lines=st["lines"], wall_s=round(st["wall"], 1), processes=len(owner)))
    owner = [o for j, o in enumerate(owner) if j not in skipped]
    starts = [s for s, _ in owner]
    import bisect
    nobs = sum(len(results[i]["runs"]) for _, i in owner)
    full, prefix_chars = 0, 0
    for s, i in owner:
        if s in unspecat:
            prefix_chars += len(unspecat[s])
        else:
            full += 1
    cov.update(validated_observations=nobs, programs_validated=len(owner), programs_specified_to_the_end=full,
               programs_compared_up_to_an_unspecified_point=len(owner) - full, output_chars_compared_before_unspecified_points=prefix_chars)
    for b in bad:
        j = bisect.bisect_right(starts, b) - 1
        pid = owner[j][1]
        ev = recs[b]
        sig, etext = exp.get(b, ("?", ""))
        otext = "".join(chr(c) for c in ev["out"])
        k = 0
        while k < min(len(etext), len(otext)) and etext[k] == otext[k]:
            k += 1
        ck.fail("%s:corpus:%s:%s" % (ck.pid, pid, ev["cfg"]),
                "%s at -%s: the executable compiled from the repository's program behaves differently from what DDPSem assigns to the tree the real parser built "
                "(verdict %s, exit %s%s); first difference at output offset %d: expected %r, observed %r" % (
                    pid, ev["cfg"], sig, ev["code"], ", Laufzeitfehler" if ev["rterr"] else "", k, etext[max(0, k - 40):k + 60], otext[max(0, k - 40):k + 60]),
                dict(program=pid, cfg=ev["cfg"], expected=etext, observed=otext, exported=recs[owner[j][0]]["p"]))
    return cov


def validate_each(recs, starts, fuel, timeout, group=6):
    """TLC processes over groups of programs (prog event + its obs events each); a group that exceeds its budget is split into single
    programs, a single program that exceeds the budget is skipped.
    -> (bad global indices, {idx: (sig, text)}, stats, {prog start idx: output prefix before the unspecified point}, set of skipped program numbers)"""
    import tempfile, time
    bounds = list(zip(starts, starts[1:] + [len(recs)]))
    bad, exp, unspecat, skipped = [], {}, {}, set()
    stats = dict(generated=0, distinct=0, lines=0, wall=0.0, per_program={})

    def one(js):
        a, b = bounds[js[0]][0], bounds[js[-1]][1]
        wd = tempfile.mkdtemp(prefix="corp.", dir=vlib.scratch())
        vlib.write_ndjson(os.path.join(wd, "trace.ndjson"), recs[a:b])
        try:
            r = vlib.tlc("DDPRunTrace", "t.cfg", ["sem", "common", "syntax"], workdir=wd, workers=1, timeout=timeout * (1 + len(js) // 3),
                         files={"t.cfg": semrun.T_CFG % (fuel, "FALSE")}, gcthreads=2, heap="3g")
        except Infra as e:
            shutil.rmtree(wd, ignore_errors=True)
            if "timed out" in str(e) or "resource error" in str(e):
                return js, None
            raise
        shutil.rmtree(wd, ignore_errors=True)
        return js, r
    t0 = time.time()
    groups = [list(range(i, min(i + group, len(bounds)))) for i in range(0, len(bounds), group)]
    while groups:
        nxt = []
        with ThreadPoolExecutor(max_workers=14) as ex:
            for js, r in ex.map(one, groups):
                a, b = bounds[js[0]][0], bounds[js[-1]][1]
                if r is None:
                    if len(js) == 1:
                        skipped.add(js[0])
                    else:
                        nxt += [[j] for j in js]
                    continue
                marks = vlib.parse_marked(r.out)
                if r.rc != 0 or "lines" not in marks or vlib.ints_of(marks["lines"][-1]) != [b - a]:
                    raise Infra("DDPRunTrace did not consume the whole trace of %s:\n%s" % (recs[a].get("id"), r.out[-4000:]))
                bad += [a + x - 1 for x in vlib.ints_of(marks["bad"][-1])]
                for ln, v in semrun.parse_exp(r.out).items():
                    exp[a + ln - 1] = v
                for ln, v in semrun.parse_unspecat(r.out).items():
                    unspecat[a + ln - 1] = v
                stats["generated"] += r.generated; stats["distinct"] += r.distinct; stats["lines"] += b - a
                stats["per_program"]["%s (+%d)" % (recs[a].get("id"), len(js) - 1)] = round(r.wall, 1)
        groups = nxt
    stats["wall"] = time.time() - t0
    return sorted(bad), exp, stats, unspecat, skipped


def check_heap(ck, opts, subset="all"):
    """allocation ledgers of the corpus programs, validated by HeapTrace (exactly-once release, nothing live at a normal end)"""
    import c05
    progs = programs(subset)
    runner = ddp.Runner()
    results = build_and_run(runner, progs, opts, ledger=True)
    recs, meta = [], []
    skipped = {}
    for i, d, m in progs:
        r = results[i]
        for o, rr in sorted(r["runs"].items()):
            if rr["timeout"]:
                skipped[i] = "waits for input"
                continue
            led = vlib.read_ledger(rr["ledger"])
            if len(led) > 60000:
                skipped[i] = "ledger of %d events" % len(led)
                continue
            meta.append((len(recs), i, "O%d" % o))
            recs.append(dict(e="reset", id="%s-O%d" % (i, o)))
            recs += led
            # a Laufzeitfehler or Beende-call ends the process without unwinding: only a normal end must leave nothing live
            recs.append(dict(e="end", normal=(rr["code"] == 0)))
        for o, (st, msg) in r["fail"].items():
            skipped[i] = "O%d %s" % (o, st)
    if not meta:
        raise Infra("corpus: no ledger was recorded")
    res, st = vlib.validate_monitor("HeapTrace", "t.cfg", ["own"], recs, procs=14, sets=("bad",), extra_files={"t.cfg": c05.T_CFG})
    ck.cov["states"] += st["distinct"]; ck.cov["transitions"] += st["generated"]
    ck.cov["tlc_runs"].append(dict(name="HeapTrace corpus", lines=st["lines"], wall_s=round(st["wall"], 1)))
    import bisect
    starts = [x[0] for x in meta]
    seen = set()
    for b in res["bad"]:
        j = bisect.bisect_right(starts, b) - 1
        _, pid, cfg = meta[j]
        if (pid, cfg) in seen:
            continue
        seen.add((pid, cfg))
        ev = recs[b]
        what = {"h": "allocator call outside the protocol (double free, foreign pointer or wrong size)", "end": "blocks still live at normal termination (leak)"}.get(ev["e"], ev["e"])
        ck.fail("%s:corpus-ledger:%s:%s" % (ck.pid, pid, cfg), "%s in the repository's program %s (%s): %s" % (what, pid, cfg, json.dumps(ev)[:500]), dict(program=pid, cfg=cfg, event=ev))
    return dict(programs=len(progs), ledgers_validated=len(meta), allocator_calls_checked=sum(1 for r in recs if r["e"] == "h"), skipped=skipped)
