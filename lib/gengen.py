"""Generic functions for C15: templates over type parameters, their textual specialisations (ASTs for DDPSem) and the two
renderings (generic source / specialised source), in one module or with the functions in an imported library."""
import copy, itertools
import ddp, semgen
from ddp import *
from semgen import Case, var, setv, lvid, zl, pr, acc_init, acc_add, as_text, if_, idx_lv, fn, RET, BRK

G = lambda n: {"g": n}
GT = G("T")


def subst(x, b):
    """replace type parameters in an AST fragment"""
    if isinstance(x, dict):
        if set(x.keys()) == {"g"}:
            return b[x["g"]]
        return {k: subst(v, b) for k, v in x.items()}
    if isinstance(x, list):
        return [subst(v, b) for v in x]
    return x


def tenc(t):
    if "b" in t:
        return t["b"]
    if "s" in t:
        return t["s"]
    return "L" + tenc(t["l"])


TEMPLATES = [
    fn("identitaet", [("x", GT, False)], GT, [RET(ident("x"))]),
    fn("erstes", [("l", TL(GT), False)], GT, [RET(bin_("idx", ident("l"), zl(1)))]),
    fn("laenge_von", [("l", TL(GT), False)], TZ, [RET(un("len", ident("l")))]),
    fn("als_paar", [("a", GT, False), ("b", GT, False)], TL(GT), [RET({"k": "list", "et": GT, "vals": [ident("a"), ident("b")]})]),
    fn("tausche", [("a", GT, True), ("b", GT, True)], TNONE, [var("tmp", GT, ident("a"), False), setv(lvid("a"), ident("b")), setv(lvid("b"), ident("tmp"))]),
    fn("kopiere_n", [("x", GT, False), ("n", TZ, False)], TL(GT), [var("r", TL(GT), {"k": "list", "et": GT, "vals": []}, False),
        {"k": "for", "v": "i", "t": TZ, "from": zl(1), "to": ident("n"), "step": NONE, "body": [setv(lvid("r"), bin_("cat", ident("r"), ident("x")))]}, RET(ident("r"))]),
    fn("letztes", [("l", TL(GT), False), ("n", TZ, False)], GT, [if_(bin_("ge", ident("n"), un("len", ident("l"))), [RET(bin_("idx", ident("l"), ident("n")))]),
        RET(call("letztes", [("l", ident("l")), ("n", bin_("plus", ident("n"), zl(1)))]))]),
    fn("enthaelt", [("l", TL(GT), False), ("x", GT, False)], TW, [{"k": "foreach", "v": "e", "t": GT, "idx": "", "in": ident("l"), "body": [if_(bin_("eq", ident("e"), ident("x")), [RET(lit(W(True)))])]}, RET(lit(W(False)))]),
    fn("ersetze_erstes", [("l", TL(GT), False), ("x", GT, False)], TL(GT), [setv(idx_lv(lvid("l"), zl(1)), ident("x")), RET(ident("l"))]),       # writes its by-value list parameter
    fn("verschachtelt", [("x", GT, False)], TL(GT), [RET(call("als_paar", [("a", call("identitaet", [("x", ident("x"))])), ("b", ident("x"))]))]),   # generic calling generics
    fn("hinterstes", [("l", TL(GT), False)], GT, [RET(call("letztes", [("l", ident("l")), ("n", zl(1))]))]),      # a generic calling a self-recursive generic
    # two type parameters: each binds on its own (also to the same type)
    fn("erstes_von", [("a", GT, False), ("b", G("R"), False)], GT, [RET(ident("a"))]),
    fn("zweites_von", [("a", GT, False), ("b", G("R"), False)], G("R"), [RET(ident("b"))]),
    fn("laengen_summe", [("l", TL(GT), False), ("m", TL(G("R")), False)], TZ, [RET(bin_("plus", un("len", ident("l")), un("len", ident("m"))))]),
    fn("vertausche_in", [("a", GT, True), ("b", G("R"), False), ("c", GT, False)], G("R"), [setv(lvid("a"), ident("c")), RET(ident("b"))]),
    # an alias with a negation marker: "kommt_vor x in l" / "kommt_vor x nicht in l" (the second is the negation of the first)
    fn("kommt_vor", [("x", GT, False), ("l", TL(GT), False)], TW, [{"k": "foreach", "v": "e", "t": GT, "idx": "", "in": ident("l"), "body": [if_(bin_("eq", ident("e"), ident("x")), [RET(lit(W(True)))])]}, RET(lit(W(False)))]),
    fn("vorgabe", [("x", GT, False)], GT, [var("d", GT, {"k": "std", "t": GT}, False), RET(ident("d"))]),
]
# two generic functions share one alias ("die Beschreibung von <x>"; their type parameters have different names, otherwise the second alias is a duplicate): the first can only be instantiated for a Text or a list
# (its body takes the length), for every other type its instantiation fails and the call means the second one.  `beschreibung`
# is the name of that overloaded call; which template it means is decided by the bound type (DISPATCH).
TEMPLATES.append(fn("beschr_laenge", [("x", G("A"), False)], TT, [var("n", TZ, un("len", ident("x")), False), RET(bin_("cat", lit(T("Laenge ")), cast(TT, ident("n"))))]))
TEMPLATES.append(fn("beschr_sonst", [("x", G("B"), False)], TT, [RET(lit(T("irgendein Wert")))]))
TEMPLATES.append(fn("zweimal", [("w", GT, False)], TT, [var("e1", TT, call("beschreibung", [("x", ident("w"))]), False), var("e2", TT, call("beschreibung", [("x", ident("w"))]), False),
                                                      RET(bin_("cat", ident("e1"), bin_("cat", lit(T(" / ")), ident("e2"))))]))
TEMPLATES.append(fn("zweimal_aussen", [("w", GT, False)], TT, [var("a1", TT, call("zweimal", [("w", ident("w"))]), False), RET(bin_("cat", ident("a1"), bin_("cat", lit(T(" | ")), call("beschreibung", [("x", ident("w"))]))))]))
# a generic function whose body instantiates ITSELF with another type (Text) before anything else: two entries of one list are open at once
_inner = call("selbst_anders", [("x", lit(T("innen"))), ("tiefe", bin_("minus", ident("tiefe"), zl(1)))])
_inner["inst"] = {"T": TT}
TEMPLATES.append(fn("selbst_anders", [("x", GT, False), ("tiefe", TZ, False)], TZ, [if_(bin_("gt", ident("tiefe"), zl(0)), [RET(bin_("plus", zl(1), _inner))]), RET(zl(0))]))
DISPATCH = {"beschreibung": lambda b: "beschr_laenge" if (b["T"] == TT or "l" in b["T"]) else "beschr_sonst"}
DISPATCH_ALL = {"beschreibung": ["beschr_laenge", "beschr_sonst"]}
for _n in ("beschreibung", "beschr_laenge", "beschr_sonst"):
    ddp.ALIAS_FORMS[_n] = "die Beschreibung von <x>"
# a generic body that names a type of its own module: the alias Wert (= Kommazahl) is private to the declaring module,
# the importing module declares another type under the same name
TWERT = {"b": "K", "alias": "Wert"}
TEMPLATES.append(fn("halbiere", [("x", GT, False)], TK, [var("h", TWERT, cast(TWERT, bin_("durch", ident("x"), zl(2))), False), RET(bin_("plus", ident("h"), ident("h")))]))
TYPEDECLS = ["Wir nennen eine Kommazahl auch eine Wert.", ""]
MAIN_DECOYS = ["Wir nennen eine Zahl auch eine Wert.", ""]
for t in TEMPLATES:
    t["generic"] = True
TBYNAME = {t["n"]: t for t in TEMPLATES}

VALUES = {  # type enc -> (type, [value exprs])
    "Z": (TZ, [zl(7), zl(-1)]), "T": (TT, [lit(T("ö€")), lit(T(""))]), "W": (TW, [lit(W(True)), lit(W(False))]), "C": (TC, [lit(C("x")), lit(C("😀"))]), "K": (TK, [lit(K(3, 1)), lit(K(-9, 2))]),
    "LZ": (TL(TZ), [lit(L(TZ, [Z(1), Z(2)])), lit(L(TZ, []))]), "Paar": (TS("Paar"), [semgen.new("Paar", zahl=zl(3), wort=lit(T("drei"))), semgen.new("Paar", zahl=zl(4), wort=lit(T("vier")))]),
}


ddp.ALIAS_FORMS["kommt_vor"] = "{name} <x> <!nicht> in <l>"


def gcall(name, binding, args):
    """call of a generic template with a given binding of its type parameters"""
    c = call(name, args)
    c["inst"] = binding
    return c


def cases(tier, rng):
    cs = []
    for enc, (t, vals) in VALUES.items():
        b = {"T": t}
        a, v2 = vals
        lst = {"k": "list", "et": t, "vals": [a, v2, a]} if "l" not in t else None
        cs.append(Case("gen:identitaet:%s" % enc, gcall("identitaet", b, [("x", a)]), t))
        cs.append(Case("gen:vorgabe:%s" % enc, gcall("vorgabe", b, [("x", a)]), t) if enc != "Paar" else Case("gen:vorgabe:%s" % enc, gcall("vorgabe", b, [("x", a)]), t))
        cs.append(Case("gen:als_paar:%s" % enc, gcall("als_paar", b, [("a", a), ("b", v2)]), TL(t)) if "l" not in t else None)
        cs.append(Case("gen:verschachtelt:%s" % enc, gcall("verschachtelt", b, [("x", v2)]), TL(t)) if "l" not in t else None)
        cs.append(Case("gen:kopiere_n:%s" % enc, gcall("kopiere_n", b, [("x", a), ("n", zl(3))]), TL(t)) if "l" not in t else None)
        su = [var("ga", t, a, False), var("gb", t, v2, False), {"k": "expr", "e": gcall("tausche", b, [("a", lvid("ga")), ("b", lvid("gb"))])}]
        cs.append(Case("gen:tausche:%s" % enc, semgen.pair2(ident("ga"), t, ident("gb"), t)[0], semgen.pair2(ident("ga"), t, ident("gb"), t)[1], su))
        cs.append(Case("gen:zweimal:%s" % enc, gcall("zweimal", b, [("w", a)]), TT))
        cs.append(Case("gen:selbst_anders:%s" % enc, gcall("selbst_anders", b, [("x", a), ("tiefe", zl(2))]), TZ))
        cs.append(Case("gen:zweimal_aussen:%s" % enc, gcall("zweimal_aussen", b, [("w", v2)]), TT))
        if enc in ("Z", "K"):
            cs.append(Case("gen:halbiere:%s" % enc, gcall("halbiere", b, [("x", zl(7) if enc == "Z" else lit(K(7, 1)))]), TK))
        if lst:
            sl = [var("gl", TL(t), lst, False)]
            cs.append(Case("gen:hinterstes:%s" % enc, gcall("hinterstes", b, [("l", ident("gl"))]), t, sl))      # before any direct instantiation of the recursive callee
            cs.append(Case("gen:erstes:%s" % enc, gcall("erstes", b, [("l", ident("gl"))]), t, sl))
            cs.append(Case("gen:laenge_von:%s" % enc, gcall("laenge_von", b, [("l", ident("gl"))]), TZ, sl))
            cs.append(Case("gen:letztes:%s" % enc, gcall("letztes", b, [("l", ident("gl")), ("n", zl(1))]), t, sl))
            cs.append(Case("gen:kommt_vor:ja:%s" % enc, gcall("kommt_vor", b, [("x", v2), ("l", ident("gl"))]), TW, sl))
            cs.append(Case("gen:kommt_vor:nicht:%s" % enc, {"k": "un", "op": "not", "via_alias": True, "r": gcall("kommt_vor", b, [("x", v2), ("l", ident("gl"))])}, TW, sl))
            cs.append(Case("gen:kommt_vor:nicht-nein:%s" % enc, {"k": "un", "op": "not", "via_alias": True, "r": gcall("kommt_vor", b, [("x", a), ("l", {"k": "list", "et": t, "vals": [v2]})])}, TW))
            cs.append(Case("gen:enthaelt:%s" % enc, gcall("enthaelt", b, [("l", ident("gl")), ("x", v2)]), TW, sl))
            # a by-value list parameter written by the generic callee: the caller's list must be unchanged
            su2 = sl + [var("gr", TL(t), gcall("ersetze_erstes", b, [("l", ident("gl")), ("x", v2)]), False)]
            cs.append(Case("gen:ersetze_erstes:%s" % enc, semgen.pair2(ident("gr"), TL(t), ident("gl"), TL(t))[0], semgen.pair2(ident("gr"), TL(t), ident("gl"), TL(t))[1], su2))
    encs = list(VALUES)
    for e1, e2 in [(a, b) for a in encs for b in encs if (a, b) in {("Z", "T"), ("T", "Z"), ("K", "K"), ("C", "LZ"), ("Paar", "W"), ("W", "Paar"), ("LZ", "LZ"), ("T", "T")}]:
        (t1, v1), (t2, v2) = VALUES[e1], VALUES[e2]
        b = {"T": t1, "R": t2}
        cs.append(Case("gen2:erstes_von:%s:%s" % (e1, e2), gcall("erstes_von", b, [("a", v1[0]), ("b", v2[1])]), t1))
        cs.append(Case("gen2:zweites_von:%s:%s" % (e1, e2), gcall("zweites_von", b, [("a", v1[0]), ("b", v2[1])]), t2))
        if "l" not in t1 and "l" not in t2:
            cs.append(Case("gen2:laengen_summe:%s:%s" % (e1, e2), gcall("laengen_summe", b, [("l", {"k": "list", "et": t1, "vals": [v1[0], v1[1]]}), ("m", {"k": "list", "et": t2, "vals": [v2[0]]})]), TZ))
        su = [var("g2a", t1, v1[0], False)]
        r = {"k": "pair"} if False else None
        cs.append(Case("gen2:vertausche_in:%s:%s" % (e1, e2), ident("g2a"), t1, su + [var("g2r", t2, gcall("vertausche_in", b, [("a", lvid("g2a")), ("b", v2[0]), ("c", v1[1])]), False)]))
    return [c for c in cs if c is not None]


def collect_insts(x, out):
    if isinstance(x, dict):
        if x.get("k") == "call" and "inst" in x:
            out.append((x["f"], x["inst"]))
        for v in x.values():
            collect_insts(v, out)
    elif isinstance(x, list):
        for v in x:
            collect_insts(v, out)


def iname(f, b):
    return "%s__%s" % (f, "_".join(tenc(b[k]) for k in sorted(b)))


def specialise(P):
    """P: program whose calls carry 'inst' bindings. Returns the program with one concrete function per instantiation."""
    need, done, funcs = [], set(), []
    collect_insts(P["main"], need)
    while need:
        f, b = need.pop()
        key = iname(f, b)
        if key in done:
            continue
        done.add(key)
        t = copy.deepcopy(TBYNAME[f])
        body_insts = []
        t = subst(t, b)
        # inner generic calls inherit the binding of the type parameter they pass on
        def fix(x):
            if isinstance(x, dict):
                if x.get("k") == "call" and x["f"] in DISPATCH:
                    x["f"] = DISPATCH[x["f"]](b)
                    x["inst"] = {TBYNAME[x["f"]]["params"][0]["t"]["g"]: b["T"]}      # the candidates name their type parameter differently (A, B)
                if x.get("k") == "call" and x["f"] in TBYNAME and "inst" not in x:
                    x["inst"] = dict(b)
                for v in x.values():
                    fix(v)
            elif isinstance(x, list):
                for v in x:
                    fix(v)
        fix(t["body"])
        collect_insts(t["body"], need)
        t["n"] = key
        t.pop("generic", None)
        funcs.append(t)

    def rename(x):
        if isinstance(x, dict):
            if x.get("k") == "call" and "inst" in x:
                x = dict(x)
                x["f"] = iname(x["f"], x["inst"])
                x.pop("inst")
            return {k: rename(v) for k, v in x.items()}
        if isinstance(x, list):
            return [rename(v) for v in x]
        return x
    S = dict(P)
    S["main"] = rename(P["main"])
    order = {t["n"]: i for i, t in enumerate(TEMPLATES)}
    # (the Text specialisation first: selbst_anders__<X> calls selbst_anders__T)
    funcs.sort(key=lambda f: (order[f["n"].split("__")[0]], 0 if f["n"].endswith("__T") else 1, f["n"]))
    S["funcs"] = list(P["funcs"]) + [rename(f) for f in funcs]
    return S


def strip_inst(x):
    if isinstance(x, dict):
        return {k: strip_inst(v) for k, v in x.items() if k != "inst"}
    if isinstance(x, list):
        return [strip_inst(v) for v in x]
    return x


def generic_program(P):
    """the same program with the generic templates declared once (calls keep the template's alias)"""
    used = []
    need = []
    collect_insts(P["main"], need)
    seen = set()
    stack = [f for f, _ in need]
    while stack:
        f = stack.pop()
        if f in seen:
            continue
        seen.add(f)
        inner = []

        def walk(x):
            if isinstance(x, dict):
                if x.get("k") == "call" and x["f"] in TBYNAME:
                    inner.append(x["f"])
                if x.get("k") == "call" and x["f"] in DISPATCH_ALL:
                    inner.extend(DISPATCH_ALL[x["f"]])
                for v in x.values():
                    walk(v)
            elif isinstance(x, list):
                for v in x:
                    walk(v)
        walk(TBYNAME[f]["body"])
        stack += inner
    order = [t for t in TEMPLATES if t["n"] in seen]
    Gp = dict(P)
    Gp["main"] = strip_inst(P["main"])
    Gp["funcs"] = list(P["funcs"]) + order
    return Gp
