"""Generators of core-language programs (JSON ASTs) for the semantic checks, and the batch/diagnose machinery.
A *case* is (key, setup statements, expression, result type); a *batch* is a program that prints, for each case,
a marker `#i:` followed by the value and a line feed."""
import itertools, random
from ddp import *

MAXI, MINI = (1 << 63) - 1, -(1 << 63)
ZB = [0, 1, -1, 2, 7, 255, 256, (1 << 31) - 1, 1 << 31, MAXI - 1, MAXI, MINI, MINI + 1]
ZS = [0, 1, -1, 7, 256, MAXI, MINI]
BB = [0, 1, 127, 128, 255]
KB = [(0, 0), (1, 1), (-1, 1), (3, 1), (-9, 2), (255, 0), (1024, 0), (1, 4)]
CB = [ord("a"), 0xF6, 0x20AC, 0x1F600, 10, ord("Z")]
TBV = ["", "a", "ö€", "a😀\nb", "hallo"]


def pr(e, nl=False):
    return {"k": "print", "e": e, "nl": nl}


def var(n, t, e, g=True):
    return {"k": "var", "n": n, "t": t, "e": e, "g": g}


def setv(lv, e):
    return {"k": "set", "lv": lv, "e": e}


def lvid(n):
    return {"k": "id", "n": n}


def print_value(e, t, tmp):
    """statements printing the value of expression e of type t on the current line (no line feed)"""
    if "b" in t:
        if t["b"] == "V":
            return [pr(lit(T("<var>")))]
        return [pr(e)]
    if "l" in t:
        n = "it_" + tmp
        return [pr(lit(T("["))), {"k": "foreach", "v": n, "t": t["l"], "idx": "", "in": e, "body": print_value(ident(n), t["l"], tmp + "x") + [pr(lit(T(";")))]}, pr(lit(T("]")))]
    if "s" in t:
        return [pr(lit(T("{"))), var("sv_" + tmp, t, e, False)] + sum(
            [print_value({"k": "fld", "f": f["n"], "e": ident("sv_" + tmp)}, f["t"], tmp + "y") + [pr(lit(T(",")))] for f in STRUCTS[t["s"]]["fields"]], []) + [pr(lit(T("}")))]
    raise ValueError(t)


STRUCTS = {
    "Paar": dict(n="Paar", fields=[dict(n="zahl", t=TZ, **{"def": lit(Z(7))}), dict(n="wort", t=TT, **{"def": lit(T("w"))})]),
    "Kiste": dict(n="Kiste", fields=[dict(n="inhalt", t=TL(TZ), **{"def": NONE}), dict(n="paar", t=TS("Paar"), **{"def": NONE}), dict(n="flag", t=TW, **{"def": lit(W(True))})]),
}


def new(s, **args):
    return {"k": "new", "s": s, "args": [{"p": f["n"], "e": args[f["n"]]} for f in STRUCTS[s]["fields"] if f["n"] in args]}


class Case:
    def __init__(self, key, expr, t, setup=(), may_fail=False):
        self.key, self.expr, self.t, self.setup, self.may_fail = key, expr, t, list(setup), may_fail


def batch_program(cases, pid, funcs=(), nearly_stmts=()):
    main = list(nearly_stmts)
    n0 = len(main)
    for i, c in enumerate(cases):
        body = c.setup + [pr(lit(T("#%d:" % i)))] + print_value(c.expr, c.t, "c%d" % i) + [pr(lit(T("")), True)]
        main.append({"k": "block", "body": body})
    return dict(id=pid, structs=list(STRUCTS.values()), funcs=list(funcs), main=main, nearly=n0, cases=[c.key for c in cases])


def first_diff_case(expected, observed):
    """index of the case whose marker precedes the first differing position"""
    n = 0
    while n < len(expected) and n < len(observed) and expected[n] == observed[n]:
        n += 1
    import re
    last = None
    for m in re.finditer(r"#(\d+):", observed[:n + 1] if len(observed) > n else observed):
        last = int(m.group(1))
    for m in re.finditer(r"#(\d+):", expected[:n + 1]):
        last = max(last if last is not None else -1, int(m.group(1))) if m.start() <= n else last
    return last


# ------------------------------------------------------------------------------------------ operator table
def zl(v):
    return lit(Z(v))


def operands(t, small=False):
    b = t.get("b")
    if b == "Z":
        return [(zl(v), "%d" % v) for v in (ZS if small else ZB)]
    if b == "B":
        return [(lit(B(v)), "b%d" % v) for v in BB]
    if b == "K":
        return [(lit(K(m, e)), "k%d_%d" % (m, e)) for m, e in KB]
    if b == "W":
        return [(lit(W(v)), str(v)) for v in (True, False)]
    if b == "C":
        return [(lit(C(v)), "c%x" % v) for v in CB]
    if b == "T":
        return [(lit(T(v)), "t%d" % i) for i, v in enumerate(TBV)]
    raise ValueError(t)


def via_var(e, t, name):
    """the operand through a variable (keeps the compiler from folding it)"""
    return [var(name, t, e, False)], ident(name)


def optable(tier, rng):
    """cases for every operator on every admissible operand-type combination with boundary values"""
    cases = []
    k = [0]

    def add(key, e, t, setup=()):
        cases.append(Case(key, e, t, setup))

    def binop(op, lt, rt, res, small=False, lits=True):
        for (a, an), (b, bn) in itertools.product(operands(lt, small), operands(rt, small)):
            k[0] += 1
            if lits and k[0] % 2 == 0:
                add("bin:%s:%s:%s" % (op, an, bn), bin_(op, a, b), res)
            else:
                s1, x = via_var(a, lt, "oa%d" % k[0])
                s2, y = via_var(b, rt, "ob%d" % k[0])
                add("bin:%s:%s:%s:v" % (op, an, bn), bin_(op, x, y), res, s1 + s2)
    num = [TZ, TK, TBY]
    for op in ("plus", "minus", "mal"):
        binop(op, TZ, TZ, TZ)
        binop(op, TBY, TBY, TBY)
        for lt, rt in ((TK, TK), (TZ, TK), (TK, TZ), (TBY, TK), (TK, TBY)):
            binop(op, lt, rt, TK, small=True)
    for lt, rt in itertools.product(num, num):
        binop("durch", lt, rt, TK, small=True)
    binop("mod", TZ, TZ, TZ)
    binop("mod", TBY, TBY, TBY)
    for op in ("band", "bor", "bxor"):
        binop(op, TZ, TZ, TZ, small=(tier == "quick"))
        binop(op, TBY, TBY, TBY)
    for op in ("lt", "le", "gt", "ge"):
        binop(op, TZ, TZ, TW, small=(tier == "quick" and op in ("le", "ge")))
        binop(op, TBY, TBY, TW)
        for lt, rt in ((TK, TK), (TZ, TK), (TK, TZ), (TBY, TK), (TK, TBY), (TZ, TBY), (TBY, TZ)):
            binop(op, lt, rt, TW, small=True)
    for op in ("eq", "ne"):
        for t in (TZ, TBY, TK, TW, TC, TT):
            binop(op, t, t, TW, small=True)
    for op in ("and", "or", "xor"):
        binop(op, TW, TW, TW)
    # shifts
    for op in ("shl", "shr"):
        for v in ZB:
            for n in (0, 1, 7, 8, 31, 32, 63, 64, -1):
                add("bin:%s:%d:%d" % (op, v, n), bin_(op, zl(v), zl(n)), TZ)
        for v in BB:
            for n in (0, 1, 7, 8):
                add("bin:%s:b%d:b%d" % (op, v, n), bin_(op, lit(B(v)), lit(B(n))), TBY)
    # unary
    for v in ZB:
        add("un:neg:%d" % v, un("neg", zl(v)), TZ)
        add("un:abs:%d" % v, un("abs", zl(v)), TZ)
        add("un:lnot:%d" % v, un("lnot", zl(v)), TZ)
    for v in BB:
        add("un:lnot:b%d" % v, un("lnot", lit(B(v))), TBY)
    for m, e in KB:
        add("un:neg:k%d_%d" % (m, e), un("neg", lit(K(m, e))), TK)
        add("un:abs:k%d_%d" % (m, e), un("abs", lit(K(m, e))), TK)
    for v in (True, False):
        add("un:not:%s" % v, un("not", lit(W(v))), TW)
    # between
    for x, a, b in itertools.product(ZS[:5], repeat=3):
        add("ter:between:%d:%d:%d" % (x, a, b), ter("between", zl(x), zl(a), zl(b)), TW)
    # falls (only the chosen branch is evaluated: the other one would fail)
    for c in (True, False):
        add("ter:falls:%s" % c, ter("falls", zl(1), lit(W(c)), zl(2)), TZ)
        add("ter:falls:lazy:%s" % c, ter("falls", zl(1) if c else bin_("idx", lit(L(TZ, [Z(1)])), zl(5)), lit(W(c)), bin_("idx", lit(L(TZ, [Z(1)])), zl(5)) if c else zl(2)), TZ)
    # short circuit: the right operand would fail
    boom = bin_("eq", bin_("idx", lit(L(TZ, [Z(1)])), zl(9)), zl(1))
    add("bin:and:short", bin_("and", lit(W(False)), boom), TW)
    add("bin:or:short", bin_("or", lit(W(True)), boom), TW)
    # texts and characters
    for i, s in enumerate(TBV):
        add("un:len:t%d" % i, un("len", lit(T(s))), TZ)
        su, x = via_var(lit(T(s)), TT, "lt%d" % i)
        add("un:len:t%d:v" % i, un("len", x), TZ, su)
        for j, s2 in enumerate(TBV):
            add("bin:cat:t%d:t%d" % (i, j), bin_("cat", lit(T(s)), lit(T(s2))), TT)
        for c in CB:
            add("bin:cat:t%d:c%x" % (i, c), bin_("cat", lit(T(s)), lit(C(c))), TT)
            add("bin:cat:c%x:t%d" % (c, i), bin_("cat", lit(C(c)), lit(T(s))), TT)
        for p in range(1, len(s) + 1):
            add("bin:idx:t%d:%d" % (i, p), bin_("idx", lit(T(s)), zl(p)), TC)
            add("bin:idx:t%d:b%d" % (i, p), bin_("idx", lit(T(s)), lit(B(p))), TC)
        for a, b in itertools.product(range(-1, len(s) + 3), repeat=2):
            if len(s) == 0 or max(1, min(a, len(s))) <= max(1, min(b, len(s))):
                add("ter:slice:t%d:%d:%d" % (i, a, b), ter("slice", lit(T(s)), zl(a), zl(b)), TT)
        for a in range(-1, len(s) + 3):
            add("bin:sfrom:t%d:%d" % (i, a), bin_("sfrom", lit(T(s)), zl(a)), TT)
            add("bin:sto:t%d:%d" % (i, a), bin_("sto", lit(T(s)), zl(a)), TT)
    for c1, c2 in itertools.product(CB[:3], repeat=2):
        add("bin:cat:c%x:c%x" % (c1, c2), bin_("cat", lit(C(c1)), lit(C(c2))), TL(TC))
    # lists
    lists = {"Z": [[], [1], [1, 2, 3], [MINI, 0, MAXI]], "T": [[], ["a"], ["ö", "", "x€"]], "W": [[], [True, False]], "B": [[], [0, 255]], "C": [[], [0x61, 0x1F600]]}
    mk = {"Z": Z, "T": T, "W": W, "B": B, "C": C}
    for b, ls in lists.items():
        et = TB(b)
        for i, l in enumerate(ls):
            lv = lit(L(et, [mk[b](x) for x in l]))
            add("un:len:l%s%d" % (b, i), un("len", lv), TZ)
            for p in range(1, len(l) + 1):
                add("bin:idx:l%s%d:%d" % (b, i, p), bin_("idx", lv, zl(p)), et)
            for j, l2 in enumerate(ls):
                lv2 = lit(L(et, [mk[b](x) for x in l2]))
                add("bin:cat:l%s%d:l%s%d" % (b, i, b, j), bin_("cat", lv, lv2), TL(et))
                add("bin:eq:l%s%d:l%s%d" % (b, i, b, j), bin_("eq", lv, lv2), TW)
                su1, x = via_var(lv, TL(et), "la%s%d_%d" % (b, i, j))
                su2, y = via_var(lv2, TL(et), "lb%s%d_%d" % (b, i, j))
                add("bin:ne:l%s%d:l%s%d:v" % (b, i, b, j), bin_("ne", x, y), TW, su1 + su2)
            if l:
                el = lit(mk[b](l[0]))
                add("bin:cat:l%s%d:el" % (b, i), bin_("cat", lv, el), TL(et))
                add("bin:cat:el:l%s%d" % (b, i), bin_("cat", el, lv), TL(et))
                if b not in ("C", "T"):
                    add("bin:cat:el:el:%s%d" % (b, i), bin_("cat", el, el), TL(et))
            for a, bb in itertools.product(range(0, len(l) + 2), repeat=2):
                if len(l) == 0 or max(1, min(a, len(l))) <= max(1, min(bb, len(l))):
                    add("ter:slice:l%s%d:%d:%d" % (b, i, a, bb), ter("slice", lv, zl(a), zl(bb)), TL(et))
    # casts
    for v in ZB:
        for to in (TK, TBY, TW, TC, TT):
            if to == TC and not (0 <= v < 0xD800 or 0xE000 <= v <= 0x10FFFF):
                continue
            add("cast:Z:%s:%d" % (to["b"], v), cast(to, zl(v)), to)
    for v in BB:
        for to in (TZ, TK, TW, TC, TT):
            add("cast:B:%s:%d" % (to["b"], v), cast(to, lit(B(v))), to)
    for m, e in KB:
        for to in (TZ, TBY, TT):
            add("cast:K:%s:%d_%d" % (to["b"], m, e), cast(to, lit(K(m, e))), to)
    for v in (True, False):
        for to in (TZ, TT):
            add("cast:W:%s:%s" % (to["b"], v), cast(to, lit(W(v))), to)
    for c in CB:
        for to in (TZ, TT):
            add("cast:C:%s:%x" % (to["b"], c), cast(to, lit(C(c))), to)
    for i, s in enumerate(["0", "42", "-17", "  12abc", "", "abc", "9223372036854775807", "-9223372036854775808", "+5", "007"]):
        add("cast:T:Z:%d" % i, cast(TZ, lit(T(s))), TZ)
    for v in (5, -1):
        add("cast:Z:L:%d" % v, cast(TL(TZ), zl(v)), TL(TZ))
    add("cast:T:L", cast(TL(TT), lit(T("x"))), TL(TT))
    # Variable: boxing, type test, unboxing of the held type
    for name, t, e in (("Z", TZ, zl(5)), ("T", TT, lit(T("v"))), ("W", TW, lit(W(True))), ("LZ", TL(TZ), lit(L(TZ, [Z(1), Z(2)])))):
        su = [var("vv" + name, TV, cast(TV, e), False)]
        add("var:unbox:" + name, cast(t, ident("vv" + name)), t, su)
        for name2, t2 in (("Z", TZ), ("T", TT), ("LZ", TL(TZ))):
            add("var:tchk:%s:%s" % (name, name2), {"k": "tchk", "t": t2, "l": ident("vv" + name)}, TW, su)
        su2 = [var("vw" + name, TV, cast(TV, e), False)]
        add("var:eq:" + name, bin_("eq", ident("vv" + name), ident("vw" + name)), TW, su + su2)
    add("var:eq:diff", bin_("eq", ident("vd1"), ident("vd2")), TW, [var("vd1", TV, cast(TV, zl(1)), False), var("vd2", TV, cast(TV, lit(T("1"))), False)])
    # Kombinationen
    p1 = new("Paar", zahl=zl(3), wort=lit(T("drei")))
    p2 = new("Paar", zahl=zl(3), wort=lit(T("drei")))
    p3 = new("Paar", zahl=zl(4), wort=lit(T("drei")))
    add("struct:new", p1, TS("Paar"))
    add("struct:default", {"k": "std", "t": TS("Paar")}, TS("Paar"))
    add("struct:default:nested", {"k": "std", "t": TS("Kiste")}, TS("Kiste"))
    add("struct:eq:same", bin_("eq", p1, p2), TW)
    add("struct:eq:diff", bin_("ne", p1, p3), TW)
    add("struct:field", {"k": "fld", "f": "wort", "e": p1}, TT)
    add("struct:nested", new("Kiste", inhalt=lit(L(TZ, [Z(1), Z(2)])), paar=p3, flag=lit(W(False))), TS("Kiste"))
    for t in (TZ, TK, TBY, TW, TT, TL(TZ), TL(TT)):
        add("std:%s" % tname(t), {"k": "std", "t": t}, t)
    if tier == "quick":
        # all structural cases, a seeded half of the big numeric tables
        keep = [c for c in cases if not c.key.startswith("bin:") or c.key.split(":")[1] in ("cat", "idx", "sfrom", "sto", "eq", "ne", "and", "or", "xor", "shl", "shr")]
        rest = [c for c in cases if c not in keep]
        rng.shuffle(rest)
        cases = keep + rest[:len(rest) // 2]
    return cases
