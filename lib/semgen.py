"""Generators of core-language programs (JSON ASTs) for the semantic checks, and the batch/diagnose machinery.
A *case* is (key, setup statements, expression, result type); a *batch* is a program that prints, for each case,
a marker `#i:` followed by the value and a line feed."""
import itertools, random
from ddp import *

MAXI, MINI = (1 << 63) - 1, -(1 << 63)
ZB = [0, 1, -1, 2, 7, 255, 256, (1 << 31) - 1, 1 << 31, MAXI - 1, MAXI, MINI, MINI + 1]
ZS = [0, 1, -1, 7, 256, MAXI, MINI]
BB = [0, 1, 127, 128, 255]
KB = [(0, 0), (1, 1), (-1, 1), (3, 1), (-9, 2), (255, 0), (1024, 0), (1, 4)]
CB = [ord("a"), 0xF6, 0x20AC, 0x1F600, 10, ord("Z")]
TBV = ["", "a", "ö€", "a😀\nb", "hallo"]


def pr(e, nl=False):
    return {"k": "print", "e": e, "nl": nl}


def var(n, t, e, g=True):
    return {"k": "var", "n": n, "t": t, "e": e, "g": g}


def setv(lv, e):
    return {"k": "set", "lv": lv, "e": e}


def lvid(n):
    return {"k": "id", "n": n}


NUMMER = {"d": "Nummer", "of": TZ}
KENNUNG = {"d": "Kennung", "of": TT}
TYPEDECLS_SEM = ["Wir definieren eine Nummer als eine Zahl.", "Wir definieren eine Kennung als einen Text.", ""]


def print_value(e, t, tmp):
    """statements printing the value of expression e of type t on the current line (no line feed)"""
    if "d" in t:           # a type definition is printed as its underlying type
        return print_value(cast(t["of"], e), t["of"], tmp)
    if "b" in t:
        if t["b"] == "V":
            return [pr(lit(T("<var>")))]
        return [pr(e)]
    if "l" in t:
        n = "it_" + tmp
        return [pr(lit(T("["))), {"k": "foreach", "v": n, "t": t["l"], "idx": "", "in": e, "body": print_value(ident(n), t["l"], tmp + "x") + [pr(lit(T(";")))]}, pr(lit(T("]")))]
    if "s" in t:
        return [pr(lit(T("{"))), var("sv_" + tmp, t, e, False)] + sum(
            [print_value({"k": "fld", "f": f["n"], "e": ident("sv_" + tmp)}, f["t"], tmp + "y") + [pr(lit(T(",")))] for f in STRUCTS[t["s"]]["fields"]], []) + [pr(lit(T("}")))]
    raise ValueError(t)


STRUCTS = {
    "Paar": dict(n="Paar", fields=[dict(n="zahl", t=TZ, **{"def": lit(Z(7))}), dict(n="wort", t=TT, **{"def": lit(T("w"))})]),
    "Kiste": dict(n="Kiste", fields=[dict(n="inhalt", t=TL(TZ), **{"def": NONE}), dict(n="paar", t=TS("Paar"), **{"def": NONE}), dict(n="flag", t=TW, **{"def": lit(W(True))})]),
    # layouts without a pointer-sized field: small fields before / around an 8-byte field, and small fields only
    "Misch": dict(n="Misch", fields=[dict(n="zeichen", t=TC, **{"def": lit(C("m"))}), dict(n="wert", t=TZ, **{"def": lit(Z(1))}), dict(n="aktiv", t=TW, **{"def": lit(W(True))})]),
    "Winzig": dict(n="Winzig", fields=[dict(n="aktiv", t=TW, **{"def": lit(W(False))}), dict(n="zeichen", t=TC, **{"def": lit(C("w"))})]),
}


def new(s, **args):
    return {"k": "new", "s": s, "args": [{"p": f["n"], "e": args[f["n"]]} for f in STRUCTS[s]["fields"] if f["n"] in args]}


class Case:
    def __init__(self, key, expr, t, setup=(), may_fail=False):
        self.key, self.expr, self.t, self.setup, self.may_fail = key, expr, t, list(setup), may_fail


def batch_program(cases, pid, funcs=(), nearly_stmts=()):
    main = list(nearly_stmts)
    n0 = len(main)
    for i, c in enumerate(cases):
        body = c.setup + [pr(lit(T("#%d:" % i)))] + print_value(c.expr, c.t, "c%d" % i) + [pr(lit(T("")), True)]
        main.append({"k": "block", "body": body})
    return dict(id=pid, structs=list(STRUCTS.values()), funcs=list(funcs), main=main, nearly=n0, cases=[c.key for c in cases], typedecls=list(TYPEDECLS_SEM))


def first_diff_case(expected, observed):
    """index of the case whose marker precedes the first differing position"""
    n = 0
    while n < len(expected) and n < len(observed) and expected[n] == observed[n]:
        n += 1
    import re
    last = None
    for m in re.finditer(r"#(\d+):", observed[:n + 1] if len(observed) > n else observed):
        last = int(m.group(1))
    for m in re.finditer(r"#(\d+):", expected[:n + 1]):
        last = max(last if last is not None else -1, int(m.group(1))) if m.start() <= n else last
    return last


# ------------------------------------------------------------------------------------------ operator table
def zl(v):
    return lit(Z(v))


def operands(t, small=False):
    b = t.get("b")
    if b == "Z":
        return [(zl(v), "%d" % v) for v in (ZS if small else ZB)]
    if b == "B":
        return [(lit(B(v)), "b%d" % v) for v in BB]
    if b == "K":
        return [(lit(K(m, e)), "k%d_%d" % (m, e)) for m, e in KB]
    if b == "W":
        return [(lit(W(v)), str(v)) for v in (True, False)]
    if b == "C":
        return [(lit(C(v)), "c%x" % v) for v in CB]
    if b == "T":
        return [(lit(T(v)), "t%d" % i) for i, v in enumerate(TBV)]
    raise ValueError(t)


def via_var(e, t, name):
    """the operand through a variable (keeps the compiler from folding it)"""
    return [var(name, t, e, False)], ident(name)


def optable(tier, rng):
    """cases for every operator on every admissible operand-type combination with boundary values"""
    cases = []
    k = [0]

    def add(key, e, t, setup=()):
        cases.append(Case(key, e, t, setup))

    def binop(op, lt, rt, res, small=False, lits=True):
        for (a, an), (b, bn) in itertools.product(operands(lt, small), operands(rt, small)):
            k[0] += 1
            if lits and k[0] % 2 == 0:
                add("bin:%s:%s:%s" % (op, an, bn), bin_(op, a, b), res)
            else:
                s1, x = via_var(a, lt, "oa%d" % k[0])
                s2, y = via_var(b, rt, "ob%d" % k[0])
                add("bin:%s:%s:%s:v" % (op, an, bn), bin_(op, x, y), res, s1 + s2)
    num = [TZ, TK, TBY]
    for op in ("plus", "minus", "mal"):
        binop(op, TZ, TZ, TZ)
        binop(op, TBY, TBY, TBY)
        for lt, rt in ((TK, TK), (TZ, TK), (TK, TZ), (TBY, TK), (TK, TBY)):
            binop(op, lt, rt, TK, small=True)
    for lt, rt in itertools.product(num, num):
        binop("durch", lt, rt, TK, small=True)
    binop("mod", TZ, TZ, TZ)
    binop("mod", TBY, TBY, TBY)
    for op in ("band", "bor", "bxor"):
        binop(op, TZ, TZ, TZ, small=(tier == "quick"))
        binop(op, TBY, TBY, TBY)
    for op in ("lt", "le", "gt", "ge"):
        binop(op, TZ, TZ, TW, small=(tier == "quick" and op in ("le", "ge")))
        binop(op, TBY, TBY, TW)
        for lt, rt in ((TK, TK), (TZ, TK), (TK, TZ), (TBY, TK), (TK, TBY), (TZ, TBY), (TBY, TZ)):
            binop(op, lt, rt, TW, small=True)
    for op in ("eq", "ne"):
        for t in (TZ, TBY, TK, TW, TC, TT):
            binop(op, t, t, TW, small=True)
    for op in ("and", "or", "xor"):
        binop(op, TW, TW, TW)
    # shifts
    for op in ("shl", "shr"):
        for v in ZB:
            for n in (0, 1, 7, 8, 31, 32, 63, 64, -1):
                add("bin:%s:%d:%d" % (op, v, n), bin_(op, zl(v), zl(n)), TZ)
        for v in BB:
            for n in (0, 1, 7, 8):
                add("bin:%s:b%d:b%d" % (op, v, n), bin_(op, lit(B(v)), lit(B(n))), TBY)
    # unary
    for v in ZB:
        add("un:neg:%d" % v, un("neg", zl(v)), TZ)
        add("un:abs:%d" % v, un("abs", zl(v)), TZ)
        add("un:lnot:%d" % v, un("lnot", zl(v)), TZ)
    for v in BB:
        add("un:lnot:b%d" % v, un("lnot", lit(B(v))), TBY)
    for m, e in KB:
        add("un:neg:k%d_%d" % (m, e), un("neg", lit(K(m, e))), TK)
        add("un:abs:k%d_%d" % (m, e), un("abs", lit(K(m, e))), TK)
    for v in (True, False):
        add("un:not:%s" % v, un("not", lit(W(v))), TW)
    # between
    for x, a, b in itertools.product(ZS[:5], repeat=3):
        add("ter:between:%d:%d:%d" % (x, a, b), ter("between", zl(x), zl(a), zl(b)), TW)
    # falls (only the chosen branch is evaluated: the other one would fail)
    for c in (True, False):
        add("ter:falls:%s" % c, ter("falls", zl(1), lit(W(c)), zl(2)), TZ)
        add("ter:falls:lazy:%s" % c, ter("falls", zl(1) if c else bin_("idx", lit(L(TZ, [Z(1)])), zl(5)), lit(W(c)), bin_("idx", lit(L(TZ, [Z(1)])), zl(5)) if c else zl(2)), TZ)
    # short circuit: the right operand would fail
    boom = bin_("eq", bin_("idx", lit(L(TZ, [Z(1)])), zl(9)), zl(1))
    add("bin:and:short", bin_("and", lit(W(False)), boom), TW)
    add("bin:or:short", bin_("or", lit(W(True)), boom), TW)
    # ... also when the operands are plain variables and arithmetic (nothing that looks like a side effect): the guard idiom
    su = [var("sn", TZ, zl(12), False), var("sk", TZ, zl(0), False), var("sm", TZ, zl(MINI), False), var("se", TZ, zl(-1), False), var("sl", TL(TZ), lit(L(TZ, [Z(1)])), False)]
    booms = [("mod0", bin_("eq", bin_("mod", ident("sn"), ident("sk")), zl(0))), ("mod0lit", bin_("eq", bin_("mod", zl(12), zl(0)), zl(0))),
             ("minmod", bin_("eq", bin_("mod", ident("sm"), ident("se")), zl(0))), ("idxvar", bin_("eq", bin_("idx", ident("sl"), ident("sn")), zl(1))),
             ("modsum", bin_("gt", bin_("plus", bin_("mod", ident("sn"), ident("sk")), zl(1)), zl(0)))]
    for bn, b in booms:
        add("bin:and:guard:%s" % bn, bin_("and", bin_("ne", ident("sk"), zl(0)), b), TW, su)
        add("bin:or:guard:%s" % bn, bin_("or", bin_("eq", ident("sk"), zl(0)), b), TW, su)
        add("bin:and:guard-lit:%s" % bn, bin_("and", lit(W(False)), b), TW, su)
        add("bin:or:guard-nested:%s" % bn, bin_("or", bin_("and", lit(W(False)), b), bin_("or", lit(W(True)), b)), TW, su)
        add("stmt:if:guard:%s" % bn, ident("sn"), TZ, su + [if_(bin_("and", bin_("ne", ident("sk"), zl(0)), b), [setv(lvid("sn"), zl(1))])])
    # hoch: integral exponents (exact inside the fragment), negative exponents, zero base
    for a, b in itertools.product((0, 1, 2, -2, 3, 10, -1), (0, 1, 2, 3, 10, -1, -2)):
        add("bin:pow:%d:%d" % (a, b), bin_("pow", zl(a), zl(b)), TK)
    for (m, e), b in itertools.product(((1, 1), (3, 1), (-3, 2), (5, 0)), (0, 2, 3, -1)):
        add("bin:pow:k%d_%d:%d" % (m, e, b), bin_("pow", lit(K(m, e)), zl(b)), TK)
    add("bin:pow:byte", bin_("pow", lit(B(2)), lit(B(7))), TK)
    add("bin:pow:k-exponent", bin_("pow", zl(4), lit(K(2, 0))), TK)
    add("bin:pow:half-exponent", bin_("pow", zl(4), lit(K(1, 1))), TK)
    # operator chains WITHOUT parentheses: the value is the one of the precedence tree (spec/syntax/Precedence.tla)
    csu = [var("pa", TZ, zl(7), False), var("pb", TZ, zl(3), False), var("pc", TZ, zl(2), False), var("pd", TZ, zl(5), False),
           var("qa", TW, lit(W(True)), False), var("qb", TW, lit(W(False)), False)]

    def chain(*items):
        return {"k": "chain", "items": [ident(x) if isinstance(x, str) and x[0] in "pq" and len(x) == 2 else ({"o": x} if isinstance(x, str) else x) for x in items]}
    arith = ("plus", "minus", "mal", "mod")
    for o1, o2 in itertools.product(arith, arith):
        add("chain:arith:%s:%s" % (o1, o2), chain("pa", o1, "pb", o2, "pc"), TZ, csu)
    for o1, o2, o3 in (("plus", "mal", "minus"), ("minus", "minus", "minus"), ("mal", "plus", "mal"), ("minus", "mal", "mod"), ("mod", "plus", "mod"), ("minus", "plus", "minus")):
        add("chain:arith4:%s:%s:%s" % (o1, o2, o3), chain("pa", o1, "pb", o2, "pc", o3, "pd"), TZ, csu)
    bitw = ("band", "bor", "bxor")
    for o1, o2 in itertools.product(bitw, bitw):
        add("chain:bit:%s:%s" % (o1, o2), chain("pa", o1, "pb", o2, "pd"), TZ, csu)
    for o1, o2 in itertools.product(bitw, ("plus", "mal")):
        add("chain:bit-arith:%s:%s" % (o1, o2), chain("pa", o1, "pb", o2, "pd"), TZ, csu)
        add("chain:arith-bit:%s:%s" % (o2, o1), chain("pa", o2, "pb", o1, "pd"), TZ, csu)
    for va, vb, vc in itertools.product((True, False), repeat=3):
        su3 = [var("qa", TW, lit(W(va)), False), var("qb", TW, lit(W(vb)), False), var("qc", TW, lit(W(vc)), False)]
        add("chain:bool:or-and:%d%d%d" % (va, vb, vc), chain(ident("qa"), "or", ident("qb"), "and", ident("qc")), TW, su3)
        add("chain:bool:and-or:%d%d%d" % (va, vb, vc), chain(ident("qa"), "and", ident("qb"), "or", ident("qc")), TW, su3)
        add("chain:bool:not-and:%d%d%d" % (va, vb, vc), chain("not", ident("qa"), "and", ident("qb")), TW, su3)
        add("chain:bool:not-or:%d%d%d" % (va, vb, vc), chain("not", ident("qa"), "or", ident("qb"), "and", "not", ident("qc")), TW, su3)
    for cmp_ in ("lt", "le", "gt", "ge", "eq", "ne"):
        add("chain:cmp:arith:%s" % cmp_, chain("pa", "plus", "pb", cmp_, "pc", "mal", "pd"), TW, csu)
        add("chain:cmp:and:%s" % cmp_, chain("pa", cmp_, "pb", "and", "pc", "lt", "pd"), TW, csu)
        add("chain:cmp:or-and:%s" % cmp_, chain("qb", "or", "pa", cmp_, "pa", "and", "pb", "minus", "pc", cmp_, "pd", "mod", "pc"), TW, csu)
    add("chain:neg:mal", chain("neg", "pa", "mal", "pb"), TZ, csu)
    add("chain:neg:plus", chain("neg", "pa", "plus", "pb"), TZ, csu)
    add("chain:neg:minus-neg", chain("pa", "minus", "neg", "pb", "mal", "pc"), TZ, csu)
    add("chain:durch:mal", chain(zl(8), "durch", zl(2), "mal", zl(4)), TK)
    add("chain:durch:durch", chain(zl(64), "durch", zl(4), "durch", zl(2)), TK)
    add("chain:plus:durch", chain(zl(1), "plus", zl(6), "durch", zl(4)), TK)
    add("chain:cat", chain(lit(T("a")), "cat", lit(T("ö")), "cat", lit(C("c")), "cat", lit(T(""))), TT)
    # texts and characters
    for i, s in enumerate(TBV):
        add("un:len:t%d" % i, un("len", lit(T(s))), TZ)
        su, x = via_var(lit(T(s)), TT, "lt%d" % i)
        add("un:len:t%d:v" % i, un("len", x), TZ, su)
        for j, s2 in enumerate(TBV):
            add("bin:cat:t%d:t%d" % (i, j), bin_("cat", lit(T(s)), lit(T(s2))), TT)
        for c in CB:
            add("bin:cat:t%d:c%x" % (i, c), bin_("cat", lit(T(s)), lit(C(c))), TT)
            add("bin:cat:c%x:t%d" % (c, i), bin_("cat", lit(C(c)), lit(T(s))), TT)
        for p in range(1, len(s) + 1):
            add("bin:idx:t%d:%d" % (i, p), bin_("idx", lit(T(s)), zl(p)), TC)
            add("bin:idx:t%d:b%d" % (i, p), bin_("idx", lit(T(s)), lit(B(p))), TC)
        for a, b in itertools.product(range(-1, len(s) + 3), repeat=2):
            if len(s) == 0 or max(1, min(a, len(s))) <= max(1, min(b, len(s))):
                add("ter:slice:t%d:%d:%d" % (i, a, b), ter("slice", lit(T(s)), zl(a), zl(b)), TT)
        for a in range(-1, len(s) + 3):
            add("bin:sfrom:t%d:%d" % (i, a), bin_("sfrom", lit(T(s)), zl(a)), TT)
            add("bin:sto:t%d:%d" % (i, a), bin_("sto", lit(T(s)), zl(a)), TT)
    for c1, c2 in itertools.product(CB[:3], repeat=2):
        add("bin:cat:c%x:c%x" % (c1, c2), bin_("cat", lit(C(c1)), lit(C(c2))), TL(TC))
    # lists
    lists = {"Z": [[], [1], [1, 2, 3], [MINI, 0, MAXI]], "T": [[], ["a"], ["ö", "", "x€"]], "W": [[], [True, False]], "B": [[], [0, 255]], "C": [[], [0x61, 0x1F600]]}
    mk = {"Z": Z, "T": T, "W": W, "B": B, "C": C}
    for b, ls in lists.items():
        et = TB(b)
        for i, l in enumerate(ls):
            lv = lit(L(et, [mk[b](x) for x in l]))
            add("un:len:l%s%d" % (b, i), un("len", lv), TZ)
            for p in range(1, len(l) + 1):
                add("bin:idx:l%s%d:%d" % (b, i, p), bin_("idx", lv, zl(p)), et)
            for j, l2 in enumerate(ls):
                lv2 = lit(L(et, [mk[b](x) for x in l2]))
                add("bin:cat:l%s%d:l%s%d" % (b, i, b, j), bin_("cat", lv, lv2), TL(et))
                add("bin:eq:l%s%d:l%s%d" % (b, i, b, j), bin_("eq", lv, lv2), TW)
                su1, x = via_var(lv, TL(et), "la%s%d_%d" % (b, i, j))
                su2, y = via_var(lv2, TL(et), "lb%s%d_%d" % (b, i, j))
                add("bin:ne:l%s%d:l%s%d:v" % (b, i, b, j), bin_("ne", x, y), TW, su1 + su2)
            if l:
                el = lit(mk[b](l[0]))
                add("bin:cat:l%s%d:el" % (b, i), bin_("cat", lv, el), TL(et))
                add("bin:cat:el:l%s%d" % (b, i), bin_("cat", el, lv), TL(et))
                if b not in ("C", "T"):
                    add("bin:cat:el:el:%s%d" % (b, i), bin_("cat", el, el), TL(et))
            for a, bb in itertools.product(range(0, len(l) + 2), repeat=2):
                if len(l) == 0 or max(1, min(a, len(l))) <= max(1, min(bb, len(l))):
                    add("ter:slice:l%s%d:%d:%d" % (b, i, a, bb), ter("slice", lv, zl(a), zl(bb)), TL(et))
    # casts
    for v in ZB:
        for to in (TK, TBY, TW, TC, TT):
            if to == TC and not (0 <= v < 0xD800 or 0xE000 <= v <= 0x10FFFF):
                continue
            add("cast:Z:%s:%d" % (to["b"], v), cast(to, zl(v)), to)
    for v in BB:
        for to in (TZ, TK, TW, TC, TT):
            add("cast:B:%s:%d" % (to["b"], v), cast(to, lit(B(v))), to)
    for m, e in KB:
        for to in (TZ, TBY, TT):
            add("cast:K:%s:%d_%d" % (to["b"], m, e), cast(to, lit(K(m, e))), to)
    for v in (True, False):
        for to in (TZ, TT):
            add("cast:W:%s:%s" % (to["b"], v), cast(to, lit(W(v))), to)
    for c in CB:
        for to in (TZ, TT):
            add("cast:C:%s:%x" % (to["b"], c), cast(to, lit(C(c))), to)
    for i, s in enumerate(["0", "42", "-17", "  12abc", "", "abc", "9223372036854775807", "-9223372036854775808", "+5", "007"]):
        add("cast:T:Z:%d" % i, cast(TZ, lit(T(s))), TZ)
    for v in (5, -1):
        add("cast:Z:L:%d" % v, cast(TL(TZ), zl(v)), TL(TZ))
    add("cast:T:L", cast(TL(TT), lit(T("x"))), TL(TT))
    # Variable: boxing, type test, unboxing of the held type
    for name, t, e in (("Z", TZ, zl(5)), ("T", TT, lit(T("v"))), ("W", TW, lit(W(True))), ("LZ", TL(TZ), lit(L(TZ, [Z(1), Z(2)])))):
        su = [var("vv" + name, TV, cast(TV, e), False)]
        add("var:unbox:" + name, cast(t, ident("vv" + name)), t, su)
        for name2, t2 in (("Z", TZ), ("T", TT), ("LZ", TL(TZ))):
            add("var:tchk:%s:%s" % (name, name2), {"k": "tchk", "t": t2, "l": ident("vv" + name)}, TW, su)
        su2 = [var("vw" + name, TV, cast(TV, e), False)]
        add("var:eq:" + name, bin_("eq", ident("vv" + name), ident("vw" + name)), TW, su + su2)
    add("var:eq:diff", bin_("eq", ident("vd1"), ident("vd2")), TW, [var("vd1", TV, cast(TV, zl(1)), False), var("vd2", TV, cast(TV, lit(T("1"))), False)])
    # Kombinationen
    p1 = new("Paar", zahl=zl(3), wort=lit(T("drei")))
    p2 = new("Paar", zahl=zl(3), wort=lit(T("drei")))
    p3 = new("Paar", zahl=zl(4), wort=lit(T("drei")))
    add("struct:new", p1, TS("Paar"))
    add("struct:default", {"k": "std", "t": TS("Paar")}, TS("Paar"))
    add("struct:default:nested", {"k": "std", "t": TS("Kiste")}, TS("Kiste"))
    add("struct:eq:same", bin_("eq", p1, p2), TW)
    add("struct:eq:diff", bin_("ne", p1, p3), TW)
    add("struct:field", {"k": "fld", "f": "wort", "e": p1}, TT)
    add("struct:nested", new("Kiste", inhalt=lit(L(TZ, [Z(1), Z(2)])), paar=p3, flag=lit(W(False))), TS("Kiste"))
    for t in (TZ, TK, TBY, TW, TT, TL(TZ), TL(TT)):
        add("std:%s" % tname(t), {"k": "std", "t": t}, t)
    if tier == "quick":
        # all structural cases, a seeded half of the big numeric tables
        keep = [c for c in cases if not c.key.startswith("bin:") or c.key.split(":")[1] in ("cat", "idx", "sfrom", "sto", "eq", "ne", "and", "or", "xor", "shl", "shr")]
        rest = [c for c in cases if c not in keep]
        rng.shuffle(rest)
        cases = keep + rest[:len(rest) // 2]
    return cases


# ------------------------------------------------------------------------------------------ statements, functions, copies
def acc_init():
    return [var("acc", TT, lit(T("")), False)]


def acc_add(e_text):
    return setv(lvid("acc"), bin_("cat", bin_("cat", ident("acc"), e_text), lit(T(","))))


def as_text(e):
    return cast(TT, e)


def if_(c, then, els=()):
    return {"k": "if", "c": c, "then": list(then), "else": list(els)}


def idx_lv(l, i):
    return {"k": "idx", "l": l, "i": i}


def fld_lv(f, l):
    return {"k": "fld", "f": f, "l": l}


def fn(n, params, ret, body):
    return dict(n=n, params=[dict(n=p[0], t=p[1], ref=p[2]) for p in params], ret=ret, body=body)


RET = lambda e: {"k": "ret", "e": e}
RETV = {"k": "ret", "e": NONE}
BRK, CONT = {"k": "break"}, {"k": "continue"}

FUNCS = [
    fn("setze_erstes", [("l", TL(TZ), True), ("v", TZ, False)], TNONE, [setv(idx_lv(lvid("l"), zl(1)), ident("v"))]),
    fn("aendere_kopie", [("l", TL(TZ), False), ("v", TZ, False)], TZ, [setv(idx_lv(lvid("l"), zl(1)), ident("v")), RET(bin_("idx", ident("l"), zl(1)))]),
    fn("ersetze_zeichen", [("t", TT, True), ("c", TC, False), ("i", TZ, False)], TNONE, [setv(idx_lv(lvid("t"), ident("i")), ident("c"))]),
    fn("ersetze_in_kopie", [("t", TT, False), ("c", TC, False), ("i", TZ, False)], TT, [setv(idx_lv(lvid("t"), ident("i")), ident("c")), RET(ident("t"))]),
    fn("haenge_an", [("t", TT, True), ("s", TT, False)], TNONE, [setv(lvid("t"), bin_("cat", ident("t"), ident("s")))]),
    fn("kiste_kopie_aendern", [("k", TS("Kiste"), False)], TZ, [setv(idx_lv(fld_lv("inhalt", lvid("k")), zl(1)), zl(99)), RET(bin_("idx", {"k": "fld", "f": "inhalt", "e": ident("k")}, zl(1)))]),
    fn("paar_kopie_aendern", [("p", TS("Paar"), False)], TT, [setv(idx_lv(fld_lv("wort", lvid("p")), zl(1)), lit(C("X"))), RET({"k": "fld", "f": "wort", "e": ident("p")})]),
    fn("paar_feld_ersetzen", [("p", TS("Paar"), False)], TT, [setv(fld_lv("wort", lvid("p")), lit(T("im Aufgerufenen dem Feld neu zugewiesen"))), RET({"k": "fld", "f": "wort", "e": ident("p")})]),
    fn("kiste_feld_ersetzen", [("k", TS("Kiste"), False)], TZ, [setv(fld_lv("inhalt", lvid("k")), lit(L(TZ, [Z(7), Z(8), Z(9), Z(10)]))), setv(fld_lv("wort", fld_lv("paar", lvid("k"))), lit(T("auch das innere Feld neu"))),
                                                                RET(un("len", {"k": "fld", "f": "inhalt", "e": ident("k")}))]),
    fn("paar_ref_aendern", [("p", TS("Paar"), True)], TNONE, [setv(fld_lv("zahl", lvid("p")), bin_("plus", {"k": "fld", "f": "zahl", "e": ident("p")}, zl(1)))]),
    fn("ist_gross", [("n", TZ, False)], TW, [RET({"k": "wenn", "val": True, "c": bin_("gt", ident("n"), zl(2))})]),
    fn("fib", [("n", TZ, False)], TZ, [if_(bin_("lt", ident("n"), zl(2)), [RET(ident("n"))]), RET(bin_("plus", call("fib", [("n", bin_("minus", ident("n"), zl(1)))]), call("fib", [("n", bin_("minus", ident("n"), zl(2)))])))]),
    fn("finde", [("l", TL(TT), False), ("x", TT, False)], TZ, [
        {"k": "foreach", "v": "e", "t": TT, "idx": "i", "in": ident("l"), "body": [if_(bin_("eq", ident("e"), ident("x")), [RET(ident("i"))])]}, RET(zl(0))]),
    fn("erstes_gerades", [("l", TL(TZ), False)], TZ, [
        {"k": "for", "v": "i", "t": TZ, "from": zl(1), "to": un("len", ident("l")), "step": NONE, "body": [
            {"k": "while", "c": lit(W(True)), "body": [if_(bin_("eq", bin_("mod", bin_("idx", ident("l"), ident("i")), zl(2)), zl(0)), [RET(bin_("idx", ident("l"), ident("i")))]), BRK]}]},
        RET(zl(-1))]),
    fn("setze_global", [("v", TZ, False)], TNONE, [setv(lvid("glob_z"), ident("v"))]),
    fn("global_und_wert", [("w", TL(TZ), False)], TZ, [setv(idx_lv(lvid("glob_l"), zl(1)), zl(77)), RET(bin_("idx", ident("w"), zl(1)))]),
    fn("global_und_ref", [("r", TL(TZ), True)], TZ, [setv(idx_lv(lvid("glob_l"), zl(1)), zl(55)), RET(bin_("idx", ident("r"), zl(1)))]),
    fn("wert_und_ref", [("w", TL(TZ), False), ("r", TL(TZ), True)], TZ, [setv(idx_lv(lvid("r"), zl(1)), zl(42)), RET(bin_("idx", ident("w"), zl(1)))]),
    fn("zwei_refs", [("a", TT, True), ("b", TT, True)], TT, [setv(lvid("a"), bin_("cat", ident("a"), lit(T("!")))), RET(ident("b"))]),
    fn("setze_stelle", [("l", TL(TZ), True), ("i", TZ, False), ("v", TZ, False)], TNONE, [setv(idx_lv(lvid("l"), ident("i")), ident("v"))]),
    fn("setze_global_stelle", [("i", TZ, False), ("v", TZ, False)], TNONE, [setv(idx_lv(lvid("glob_l"), ident("i")), ident("v"))]),
    fn("text_zurueck", [("t", TT, False)], TT, [RET(bin_("cat", ident("t"), lit(T("+"))))]),
    fn("liste_zurueck", [("n", TZ, False)], TL(TT), [var("r", TL(TT), lit(L(TT, [])), False),
        {"k": "for", "v": "i", "t": TZ, "from": zl(1), "to": ident("n"), "step": NONE, "body": [setv(lvid("r"), bin_("cat", ident("r"), as_text(ident("i"))))]}, RET(ident("r"))]),
]
# identity functions: the result of returning an unmodified by-value parameter is a value of its own
FUNCS += [fn("gib_text", [("t", TT, False)], TT, [RET(ident("t"))]), fn("gib_liste", [("l", TL(TZ), False)], TL(TZ), [RET(ident("l"))]),
          fn("gib_textliste", [("l", TL(TT), False)], TL(TT), [RET(ident("l"))]), fn("gib_paar", [("p", TS("Paar"), False)], TS("Paar"), [RET(ident("p"))]),
          fn("gib_kiste", [("k", TS("Kiste"), False)], TS("Kiste"), [RET(ident("k"))]),
          fn("gib_text_bedingt", [("t", TT, False), ("w", TW, False)], TT, [if_(ident("w"), [RET(ident("t"))]), RET(lit(T("anders")))])]
# the same by-value writers, declared first and defined later ("wird später definiert")
FUNCS += [dict(fn("kopie_spaeter_liste", [("l", TL(TZ), False), ("v", TZ, False)], TZ, [setv(idx_lv(lvid("l"), zl(1)), ident("v")), RET(bin_("idx", ident("l"), zl(1)))]), forward=True),
          dict(fn("kopie_spaeter_text", [("t", TT, False)], TT, [setv(lvid("t"), lit(T("im Aufgerufenen neu zugewiesen"))), RET(ident("t"))]), forward=True),
          dict(fn("kopie_spaeter_paar", [("p", TS("Paar"), False)], TT, [setv(idx_lv(fld_lv("wort", lvid("p")), zl(1)), lit(C("X"))), RET({"k": "fld", "f": "wort", "e": ident("p")})]), forward=True)]
GLOBALS = [var("glob_z", TZ, zl(5)), var("glob_l", TL(TZ), lit(L(TZ, [Z(1), Z(2), Z(3)])))]


# ------------------------------------------------------------------------------------------ ownership roles x consuming contexts
LONG = "ein Text, der laenger als sechzehn Bytes ist"


def _own_shapes():
    """expressions that produce a Text in every ownership role: (name, expr); all are closed (no local variables)"""
    P = lambda w: new("Paar", zahl=zl(3), wort=w)
    return [
        ("literal", lit(T(LONG))),
        ("concat", bin_("cat", lit(T(LONG)), lit(T(" + angehaengt")))),
        ("call", call("text_zurueck", [("t", lit(T(LONG)))])),
        ("field-of-literal", {"k": "fld", "f": "wort", "e": P(lit(T(LONG)))}),
        ("field-of-call", {"k": "fld", "f": "wort", "e": call("paar_zurueck", [("w", lit(T(LONG)))])}),
        ("field-of-field", {"k": "fld", "f": "wort", "e": {"k": "fld", "f": "paar", "e": new("Kiste", inhalt=lit(L(TZ, [Z(1)])), paar=P(lit(T(LONG))), flag=lit(W(True)))}}),
        ("element-of-literal", bin_("idx", {"k": "list", "et": TT, "vals": [lit(T("erstes Element der Liste")), lit(T(LONG))]}, zl(2))),
        ("element-of-call", bin_("idx", call("liste_zurueck", [("n", zl(3))]), zl(2))),
        ("slice-of-temp", ter("slice", bin_("cat", lit(T(LONG)), lit(T("!"))), zl(3), zl(30))),
        ("cast", cast(TT, zl(1234567890123))),
        ("falls", ter("falls", bin_("cat", lit(T(LONG)), lit(T("?"))), ident("glob_w"), call("text_zurueck", [("t", lit(T("nein")))]))),
        ("global", ident("glob_t")),
        ("field-of-global", {"k": "fld", "f": "wort", "e": ident("glob_p")}),
        ("element-of-global", bin_("idx", ident("glob_lt"), zl(2))),
    ]


OWN_GLOBALS = GLOBALS + [var("glob_w", TW, lit(W(True))), var("glob_f", TW, lit(W(False))), var("glob_t", TT, lit(T("globaler Text, ebenfalls lang genug"))),
                         var("glob_p", TS("Paar"), new("Paar", zahl=zl(9), wort=lit(T("Wort im globalen Paar, lang genug")))),
                         var("glob_lt", TL(TT), lit(L(TT, [T("eins"), T("zweites Element, lang genug"), T("drei")])))]
OWN_FUNCS = FUNCS + [fn("paar_zurueck", [("w", TT, False)], TS("Paar"), [RET(new("Paar", zahl=zl(1), wort=bin_("cat", ident("w"), lit(T("~")))))])] + \
    [fn("form_%d" % i, [], TT, [RET(e)]) for i, (_, e) in enumerate(_own_shapes())] + \
    [fn("form_frueh_%d" % i, [("n", TZ, False)], TT, [{"k": "for", "v": "i", "t": TZ, "from": zl(1), "to": zl(3), "step": NONE, "body": [if_(bin_("eq", ident("i"), ident("n")), [RET(e)])]}, RET(lit(T("nicht gefunden")))])
     for i, (_, e) in enumerate(_own_shapes())]


def ownership_cases(tier, rng):
    """every producing shape x every consuming context (C05: every ownership role on every path; also run by C01 / C11)"""
    cs = []
    for i, (sn, e) in enumerate(_own_shapes()):
        k = "own:%s:" % sn
        cs.append(Case(k + "init", ident("ov"), TT, [var("ov", TT, e, False)]))
        cs.append(Case(k + "assign", ident("ov"), TT, [var("ov", TT, lit(T("vorher, auch ein laengerer Text")), False), setv(lvid("ov"), e)]))
        cs.append(Case(k + "argument", call("text_zurueck", [("t", e)]), TT))
        cs.append(Case(k + "return", call("form_%d" % i, []), TT))
        for n in (1, 3, 5):
            cs.append(Case(k + "return-from-loop:%d" % n, call("form_frueh_%d" % i, [("n", zl(n))]), TT))
        cs.append(Case(k + "print", e, TT))
        cs.append(Case(k + "concat-left", bin_("cat", e, lit(T("|"))), TT))
        cs.append(Case(k + "concat-right", bin_("cat", lit(T("|")), e), TT))
        cs.append(Case(k + "equal", bin_("eq", e, e), TW))
        cs.append(Case(k + "falls-taken", ter("falls", e, ident("glob_w"), lit(T("anderer Zweig"))), TT))
        cs.append(Case(k + "falls-not-taken", ter("falls", lit(T("anderer Zweig")), ident("glob_w"), e), TT))
        cs.append(Case(k + "falls-else-taken", ter("falls", lit(T("anderer Zweig")), ident("glob_f"), e), TT))
        cs.append(Case(k + "falls-variable-other", ter("falls", e, ident("glob_w"), ident("glob_t")), TT))
        cs.append(Case(k + "and-skipped", bin_("and", ident("glob_f"), bin_("eq", e, lit(T("x")))), TW))
        cs.append(Case(k + "and-evaluated", bin_("and", ident("glob_w"), bin_("eq", e, lit(T("x")))), TW))
        cs.append(Case(k + "or-skipped", bin_("or", ident("glob_w"), bin_("eq", e, lit(T("x")))), TW))
        cs.append(Case(k + "length", un("len", e), TZ))
        cs.append(Case(k + "index", bin_("idx", e, zl(2)), TC))
        cs.append(Case(k + "for-each", ident("acc"), TT, acc_init() + [{"k": "foreach", "v": "c", "t": TC, "idx": "ix", "in": e, "body": [if_(bin_("gt", ident("ix"), zl(3)), [BRK]), acc_add(as_text(ident("c")))]}]))
        cs.append(Case(k + "list-element", bin_("idx", {"k": "list", "et": TT, "vals": [e, lit(T("zweites"))]}, zl(1)), TT))
        cs.append(Case(k + "struct-field", {"k": "fld", "f": "wort", "e": new("Paar", zahl=zl(1), wort=e)}, TT))
        cs.append(Case(k + "discarded", zl(1), TZ, [{"k": "expr", "e": call("text_zurueck", [("t", e)])}]))
        cs.append(Case(k + "variable-box", cast(TT, ident("ob")), TT, [var("ob", TV, cast(TV, e), False)]))
        cs.append(Case(k + "in-loop-with-continue", ident("acc"), TT, acc_init() + [{"k": "for", "v": "j", "t": TZ, "from": zl(1), "to": zl(3), "step": NONE, "body": [
            var("tmp", TT, e, False), if_(bin_("eq", ident("j"), zl(2)), [CONT]), acc_add(bin_("idx", ident("tmp"), ident("j")))]}]))
    return cs


def stmt_cases(tier, rng):
    cases = []

    def add(key, setup, e, t):
        cases.append(Case(key, e, t, setup))
    # die Größe von <Typ>: the published representation (C18) seen from DDP
    for tn, t in (("Z", TZ), ("K", TK), ("B", TBY), ("W", TW), ("C", TC), ("T", TT), ("V", TV), ("LZ", TL(TZ)), ("LT", TL(TT)), ("LB", TL(TBY)), ("Paar", TS("Paar")), ("Kiste", TS("Kiste")),
                  ("Misch", TS("Misch")), ("Winzig", TS("Winzig")), ("LMisch", TL(TS("Misch")))):
        add("size:%s" % tn, [], {"k": "size", "t": t}, TZ)
    # Kombinationen whose layout has no pointer-sized field, as list elements: built element by element, filled, indexed, copied
    for sn, mk in (("Misch", lambda i: new("Misch", zeichen=lit(C("abcdefghij"[i % 10])), wert=zl(1000 + i), aktiv=lit(W(i % 2 == 0)))),
                   ("Winzig", lambda i: new("Winzig", aktiv=lit(W(i % 3 == 0)), zeichen=lit(C("klmnopqrst"[i % 10]))))):
        ts = TS(sn)
        for n in (1, 3, 40):
            build = [var("ly", TL(ts), {"k": "list", "et": ts, "vals": []}, False),
                     {"k": "for", "v": "i", "t": TZ, "from": zl(1), "to": zl(n), "step": NONE, "body": [setv(lvid("ly"), bin_("cat", ident("ly"), (
                         new("Misch", zeichen=lit(C("q")), wert=bin_("plus", zl(1000), ident("i")), aktiv=bin_("eq", bin_("mod", ident("i"), zl(2)), zl(0))) if sn == "Misch" else
                         new("Winzig", aktiv=bin_("eq", bin_("mod", ident("i"), zl(3)), zl(0)), zeichen=lit(C("r"))))))]}]
            summ = acc_init() + [{"k": "foreach", "v": "e", "t": ts, "idx": "", "in": ident("ly"), "body": (
                [acc_add(as_text({"k": "fld", "f": "wert", "e": ident("e")}))] if sn == "Misch" else []) + [acc_add(as_text({"k": "fld", "f": "zeichen", "e": ident("e")})), acc_add(as_text({"k": "fld", "f": "aktiv", "e": ident("e")}))]}]
            add("layout:%s:build:%d" % (sn, n), build + summ, ident("acc"), TT)
        add("layout:%s:literal" % sn, [var("ly", TL(ts), {"k": "list", "et": ts, "vals": [mk(1), mk(2), mk(3)]}, False)], ident("ly"), TL(ts))
        add("layout:%s:fill" % sn, [{"k": "var", "n": "ly", "t": TL(ts), "g": False, "e": {"k": "fill", "n": zl(5), "v": mk(4)}}], ident("ly"), TL(ts))
        add("layout:%s:index-assign" % sn, [var("ly", TL(ts), {"k": "list", "et": ts, "vals": [mk(1), mk(2), mk(3)]}, False), setv(idx_lv(lvid("ly"), zl(2)), mk(7)),
                                             setv(fld_lv("zeichen", idx_lv(lvid("ly"), zl(3))), lit(C("Z")))], ident("ly"), TL(ts))
        add("layout:%s:copy" % sn, [var("ly", TL(ts), {"k": "list", "et": ts, "vals": [mk(1), mk(2)]}, False), var("lz", TL(ts), ident("ly"), False),
                                     setv(fld_lv("zeichen", idx_lv(lvid("lz"), zl(1))), lit(C("Y")))], *pair2(ident("ly"), TL(ts), ident("lz"), TL(ts)))
        add("layout:%s:concat-lists" % sn, [var("ly", TL(ts), {"k": "list", "et": ts, "vals": [mk(1), mk(2)]}, False), var("lz", TL(ts), bin_("cat", ident("ly"), ident("ly")), False)], ident("lz"), TL(ts))
        add("layout:%s:slice" % sn, [var("ly", TL(ts), {"k": "list", "et": ts, "vals": [mk(1), mk(2), mk(3), mk(4)]}, False)], ter("slice", ident("ly"), zl(2), zl(3)), TL(ts))
        add("layout:%s:equal" % sn, [var("ly", TL(ts), {"k": "list", "et": ts, "vals": [mk(1), mk(2)]}, False), var("lz", TL(ts), {"k": "list", "et": ts, "vals": [mk(1), mk(2)]}, False)], bin_("eq", ident("ly"), ident("lz")), TW)
        add("layout:%s:variable" % sn, [var("v", TV, cast(TV, mk(5)), False)], cast(ts, ident("v")), ts)
    R = range(-2, 4)
    # counting loops: bounds and steps (inclusive bounds, direction = sign of the step)
    for a, b in itertools.product(R, R):
        for s in (None, 1, 2, -1, -2, 3):
            loop = {"k": "for", "v": "i", "t": TZ, "from": zl(a), "to": zl(b), "step": NONE if s is None else zl(s), "body": [acc_add(as_text(ident("i")))]}
            add("for:Z:%d:%d:%s" % (a, b, s), acc_init() + [loop], ident("acc"), TT)
    for a, b, s in ((1, 3, None), (1, 3, 2), (3, 1, -1), (0, 0, 1), (2, 1, 1)):
        loop = {"k": "for", "v": "i", "t": TK, "from": lit(K(a)), "to": lit(K(b)), "step": NONE if s is None else lit(K(s)), "body": [acc_add(as_text(ident("i")))]}
        add("for:K:%d:%d:%s" % (a, b, s), acc_init() + [loop], ident("acc"), TT)
    loop = {"k": "for", "v": "i", "t": TK, "from": lit(K(0)), "to": lit(K(1)), "step": lit(K(1, 2)), "body": [acc_add(as_text(ident("i")))]}
    add("for:K:quarter", acc_init() + [loop], ident("acc"), TT)
    # Byte counters and Byte bounds; a Byte as the number of repetitions
    for a, b, st in ((1, 4, None), (250, 255, 2), (5, 1, None), (3, 3, 1), (0, 6, 3)):
        loop = {"k": "for", "v": "i", "t": TBY, "from": lit(B(a)), "to": lit(B(b)), "step": NONE if st is None else lit(B(st)), "body": [acc_add(as_text(ident("i")))]}
        add("for:B:%d:%d:%s" % (a, b, st), acc_init() + [loop], ident("acc"), TT)
    add("for:Z-counter:B-bounds", acc_init() + [{"k": "for", "v": "i", "t": TZ, "from": lit(B(2)), "to": lit(B(5)), "step": lit(B(2)), "body": [acc_add(as_text(ident("i")))]}], ident("acc"), TT)
    add("for:K-counter:Z-bounds", acc_init() + [{"k": "for", "v": "i", "t": TK, "from": zl(1), "to": zl(2), "step": lit(K(1, 1)), "body": [acc_add(as_text(ident("i")))]}], ident("acc"), TT)
    add("for:Z-counter:K-end", acc_init() + [{"k": "for", "v": "i", "t": TZ, "from": zl(1), "to": lit(K(7, 1)), "step": NONE, "body": [acc_add(as_text(ident("i")))]}], ident("acc"), TT)
    for n in (0, 1, 3):
        add("repeat:byte:%d" % n, acc_init() + [var("j", TZ, zl(0), False), {"k": "repeat", "n": lit(B(n)), "body": [setv(lvid("j"), bin_("plus", ident("j"), zl(1))), acc_add(as_text(ident("j")))]}], ident("acc"), TT)
    # the bound is re-evaluated, the counter is hidden
    add("for:bound-reeval", acc_init() + [var("n", TZ, zl(5), False), {"k": "for", "v": "i", "t": TZ, "from": zl(1), "to": ident("n"), "step": NONE, "body": [
        acc_add(as_text(ident("i"))), setv(lvid("n"), bin_("minus", ident("n"), zl(1)))]}], ident("acc"), TT)
    add("for:assign-counter", acc_init() + [{"k": "for", "v": "i", "t": TZ, "from": zl(1), "to": zl(4), "step": NONE, "body": [
        acc_add(as_text(ident("i"))), setv(lvid("i"), zl(10))]}], ident("acc"), TT)
    # while / do-while / repeat with break and continue at every position
    for n in range(0, 4):
        for brk in (None, 0, 1, 2):
            for cont in (None, 1, 2):
                body = [setv(lvid("j"), bin_("plus", ident("j"), zl(1)))]
                if cont is not None:
                    body.append(if_(bin_("eq", ident("j"), zl(cont)), [CONT]))
                if brk is not None:
                    body.append(if_(bin_("eq", ident("j"), zl(brk)), [BRK]))
                body.append(acc_add(as_text(ident("j"))))
                pre = acc_init() + [var("j", TZ, zl(0), False)]
                add("while:%d:%s:%s" % (n, brk, cont), pre + [{"k": "while", "c": bin_("lt", ident("j"), zl(n)), "body": body}], ident("acc"), TT)
                add("dowhile:%d:%s:%s" % (n, brk, cont), pre + [{"k": "dowhile", "c": bin_("lt", ident("j"), zl(n)), "body": body}], ident("acc"), TT)
                add("repeat:%d:%s:%s" % (n, brk, cont), pre + [{"k": "repeat", "n": zl(n), "body": body}], ident("acc"), TT)
    # nested loops: break/continue act on the innermost
    inner = {"k": "for", "v": "b", "t": TZ, "from": zl(1), "to": zl(3), "step": NONE, "body": [if_(bin_("eq", ident("b"), zl(2)), [CONT]), if_(bin_("gt", bin_("plus", ident("a"), ident("b")), zl(4)), [BRK]),
             acc_add(bin_("cat", as_text(ident("a")), as_text(ident("b"))))]}
    add("nested:brk-cont", acc_init() + [{"k": "for", "v": "a", "t": TZ, "from": zl(1), "to": zl(3), "step": NONE, "body": [inner, acc_add(lit(T("|")))]}], ident("acc"), TT)
    # if / else chains
    for v in range(0, 4):
        st = if_(bin_("eq", zl(v), zl(0)), [acc_add(lit(T("null")))], [if_(bin_("eq", zl(v), zl(1)), [acc_add(lit(T("eins")))], [if_(bin_("gt", zl(v), zl(2)), [acc_add(lit(T("gross")))])])])
        add("if:%d" % v, acc_init() + [st], ident("acc"), TT)
    # for-each over lists and texts, with index; the iterated value is a private copy
    for i, s in enumerate(TBV):
        add("each:T:%d" % i, acc_init() + [{"k": "foreach", "v": "c", "t": TC, "idx": "ix", "in": lit(T(s)), "body": [acc_add(bin_("cat", as_text(ident("ix")), ident("c")))]}], ident("acc"), TT)
        su = [var("src", TT, lit(T(s)), False)]
        add("each:T:%d:var" % i, acc_init() + su + [{"k": "foreach", "v": "c", "t": TC, "idx": "", "in": ident("src"), "body": [acc_add(as_text(ident("c")))]}], ident("acc"), TT)
    for l in ([], [5], [1, 2, 3], [MINI, MAXI]):
        add("each:LZ:%d" % len(l), acc_init() + [{"k": "foreach", "v": "z", "t": TZ, "idx": "ix", "in": lit(L(TZ, [Z(x) for x in l])), "body": [acc_add(bin_("cat", bin_("cat", as_text(ident("ix")), lit(T("="))), as_text(ident("z"))))]}], ident("acc"), TT)
    add("each:mutate-source:list", acc_init() + [var("src", TL(TZ), lit(L(TZ, [Z(1), Z(2), Z(3), Z(4)])), False), {"k": "foreach", "v": "z", "t": TZ, "idx": "", "in": ident("src"), "body": [
        acc_add(as_text(ident("z"))), setv(idx_lv(lvid("src"), zl(4)), zl(0))]}], ident("acc"), TT)
    add("each:mutate-source:text", acc_init() + [var("src", TT, lit(T("abcd")), False), {"k": "foreach", "v": "c", "t": TC, "idx": "", "in": ident("src"), "body": [
        acc_add(as_text(ident("c"))), setv(idx_lv(lvid("src"), zl(4)), lit(C("x")))]}], ident("acc"), TT)
    add("each:mutate-source:ref-callee", acc_init() + [var("src", TL(TZ), lit(L(TZ, [Z(1), Z(2), Z(3)])), False), {"k": "foreach", "v": "z", "t": TZ, "idx": "", "in": ident("src"), "body": [
        acc_add(as_text(ident("z"))), {"k": "expr", "e": call("setze_erstes", [("l", lvid("src")), ("v", zl(9))])}, setv(idx_lv(lvid("src"), zl(3)), zl(0))]}, acc_add(as_text(bin_("idx", ident("src"), zl(1))))], ident("acc"), TT)
    # the iterated value is changed ONLY indirectly (no assignment to it is written in the loop body): through a Referenz callee, through a callee that writes the global
    add("each:mutate-source:only-ref-callee:list", acc_init() + [var("src", TL(TZ), lit(L(TZ, [Z(1), Z(2), Z(3), Z(4)])), False), {"k": "foreach", "v": "z", "t": TZ, "idx": "", "in": ident("src"), "body": [
        acc_add(as_text(ident("z"))), {"k": "expr", "e": call("setze_stelle", [("l", lvid("src")), ("i", zl(4)), ("v", zl(0))])}]}, acc_add(as_text(bin_("idx", ident("src"), zl(4))))], ident("acc"), TT)
    add("each:mutate-source:only-ref-callee:text", acc_init() + [var("src", TT, lit(T("abcd")), False), {"k": "foreach", "v": "c", "t": TC, "idx": "", "in": ident("src"), "body": [
        acc_add(as_text(ident("c"))), {"k": "expr", "e": call("ersetze_zeichen", [("t", lvid("src")), ("c", lit(C("X"))), ("i", zl(4))])}]}, acc_add(ident("src"))], ident("acc"), TT)
    add("each:mutate-source:only-ref-callee:append", acc_init() + [var("src", TT, lit(T("ab")), False), {"k": "foreach", "v": "c", "t": TC, "idx": "", "in": ident("src"), "body": [
        acc_add(as_text(ident("c"))), {"k": "expr", "e": call("haenge_an", [("t", lvid("src")), ("s", lit(T("-angehaengt-und-damit-neu-alloziert")))])}]}, acc_add(ident("src"))], ident("acc"), TT)
    add("each:mutate-source:global-written-by-callee", acc_init() + [{"k": "foreach", "v": "z", "t": TZ, "idx": "", "in": ident("glob_l"), "body": [
        acc_add(as_text(ident("z"))), {"k": "expr", "e": call("setze_global_stelle", [("i", zl(3)), ("v", zl(0))])}]}, acc_add(as_text(bin_("idx", ident("glob_l"), zl(3)))),
        {"k": "expr", "e": call("setze_global_stelle", [("i", zl(3)), ("v", zl(3))])}], ident("acc"), TT)
    add("each:element-is-copy", acc_init() + [var("src", TL(TT), lit(L(TT, [T("ab"), T("cd")])), False), {"k": "foreach", "v": "e", "t": TT, "idx": "", "in": ident("src"), "body": [
        setv(idx_lv(lvid("e"), zl(1)), lit(C("X"))), acc_add(ident("e"))]}, acc_add(bin_("idx", ident("src"), zl(1)))], ident("acc"), TT)
    # compound assignments (defined by their expansion): every operator on Zahl / Kommazahl / Byte variables, list elements and fields
    def cset(op, lv, e=None):
        return {"k": "cset", "op": op, "lv": lv, "e": e if e is not None else NONE}
    for op in ("plus", "minus", "mal", "durch", "shl", "shr", "neg"):
        for tn, t, v0, opnds in (("Z", TZ, zl(7), [zl(2), zl(-3), lit(B(2)), lit(K(1, 1))]), ("Zmax", TZ, zl(MAXI), [zl(1), zl(2)]), ("K", TK, lit(K(5, 1)), [zl(2), lit(K(1, 2))]),
                                 ("B", TBY, lit(B(200)), [lit(B(100)), zl(3)]), ("W", TW, lit(W(True)), [])):
            if op == "neg":
                add("cset:neg:%s" % tn, [var("cv", t, v0, False), cset("neg", lvid("cv"))], ident("cv"), t)
                continue
            if tn == "W" or (op in ("shl", "shr") and tn == "K"):
                continue
            for j, o in enumerate(opnds):
                if op in ("shl", "shr") and o["v"]["k"] == "K":
                    continue
                add("cset:%s:%s:%d" % (op, tn, j), [var("cv", t, v0, False), cset(op, lvid("cv"), o)], ident("cv"), t)
    add("cset:element", [var("cl", TL(TZ), lit(L(TZ, [Z(1), Z(2), Z(3)])), False), cset("plus", idx_lv(lvid("cl"), zl(2)), zl(40)), cset("mal", idx_lv(lvid("cl"), zl(3)), zl(2)), cset("neg", idx_lv(lvid("cl"), zl(1)))], ident("cl"), TL(TZ))
    add("cset:element-out-of-range", [var("cl", TL(TZ), lit(L(TZ, [Z(1)])), False), cset("plus", idx_lv(lvid("cl"), zl(2)), zl(1))], ident("cl"), TL(TZ))
    add("cset:field", [var("cp", TS("Paar"), new("Paar", zahl=zl(5), wort=lit(T("w"))), False), cset("minus", fld_lv("zahl", lvid("cp")), zl(6)), cset("durch", fld_lv("zahl", lvid("cp")), zl(2))], {"k": "fld", "f": "zahl", "e": ident("cp")}, TZ)
    add("cset:in-loop", [var("cv", TZ, zl(1), False), {"k": "repeat", "n": zl(5), "body": [cset("mal", lvid("cv"), zl(3)), cset("minus", lvid("cv"), zl(1))]}], ident("cv"), TZ)
    # other spellings of the same statements: Wenn aber, one-line bodies, "x ist <Literal>", "wahr / falsch, wenn"
    for v in range(0, 5):
        chain3 = dict(if_(bin_("eq", ident("sv"), zl(0)), [acc_add(lit(T("null")))], [dict(if_(bin_("eq", ident("sv"), zl(1)), [acc_add(lit(T("eins")))],
                      [dict(if_(bin_("gt", ident("sv"), zl(3)), [acc_add(lit(T("gross")))], [acc_add(lit(T("sonst")))]), elif_=True)]), elif_=True)]), elif_=True)
        for node in (chain3, chain3["else"][0], chain3["else"][0]["else"][0]):
            node["elif"] = node.pop("elif_")
        add("syntax:wenn-aber:%d" % v, acc_init() + [var("sv", TZ, zl(v), False), chain3], ident("acc"), TT)
        one = dict(if_(bin_("lt", ident("sv"), zl(2)), [acc_add(lit(T("klein")))], [acc_add(lit(T("nicht klein")))]), oneline=True)
        add("syntax:einzeiler:wenn:%d" % v, acc_init() + [var("sv", TZ, zl(v), False), one], ident("acc"), TT)
        add("syntax:einzeiler:solange:%d" % v, [var("sv", TZ, zl(v), False), dict({"k": "while", "c": bin_("lt", ident("sv"), zl(3)), "body": [cset("plus", lvid("sv"), zl(2))]}, oneline=True)], ident("sv"), TZ)
        add("syntax:einzeiler:fuer:%d" % v, [var("sv", TZ, zl(0), False), dict({"k": "for", "v": "i", "t": TZ, "from": zl(1), "to": zl(v), "step": NONE, "body": [cset("plus", lvid("sv"), ident("i"))]}, oneline=True)], ident("sv"), TZ)
        add("syntax:einzeiler:fuer-jede:%d" % v, [var("sv", TZ, zl(0), False), dict({"k": "foreach", "v": "z", "t": TZ, "idx": "", "in": lit(L(TZ, [Z(x) for x in range(v)])), "body": [cset("plus", lvid("sv"), ident("z"))]}, oneline=True)], ident("sv"), TZ)
        add("syntax:wahr-wenn:%d" % v, [var("sv", TZ, zl(v), False), var("sw", TW, {"k": "wenn", "val": True, "c": bin_("gt", ident("sv"), zl(2))}, False)], ident("sw"), TW)
        add("syntax:falsch-wenn:%d" % v, [var("sv", TZ, zl(v), False), var("sw", TW, lit(W(True)), False), {"k": "setis", "lv": lvid("sw"), "e": {"k": "wenn", "val": False, "c": bin_("gt", ident("sv"), zl(2))}}], ident("sw"), TW)
        add("syntax:gib-wahr-wenn:%d" % v, [], call("ist_gross", [("n", zl(v))]), TW)
    for tn, t, v0, v1 in (("Z", TZ, zl(1), lit(Z(MAXI))), ("K", TK, lit(K(1, 1)), lit(K(5, 2))), ("B", TBY, lit(B(1)), zl(255)), ("KausZ", TK, lit(K(1, 1)), zl(3)), ("W", TW, lit(W(False)), lit(W(True))), ("C", TC, lit(C("a")), lit(C("€"))),
                           ("T", TT, lit(T("alt")), lit(T("neu ö")))):
        add("syntax:ist-literal:%s" % tn, [var("sv", t, v0, False), {"k": "setis", "lv": lvid("sv"), "e": v1}], ident("sv"), t)
    add("syntax:ist-literal:element", [var("sl", TL(TT), lit(L(TT, [T("a"), T("b")])), False), {"k": "setis", "lv": idx_lv(lvid("sl"), zl(2)), "e": lit(T("neu"))}], ident("sl"), TL(TT))
    # functions: recursion, early return from nested constructs, value and Referenz parameters, globals
    for n in (0, 1, 2, 7, 10):
        add("call:fib:%d" % n, [], call("fib", [("n", zl(n))]), TZ)
    for l, x in ((["a", "b", "c"], "b"), (["a", "b"], "z"), ([], "a"), (["ö€", "ö"], "ö")):
        add("call:finde:%d:%s" % (len(l), x), [], call("finde", [("l", lit(L(TT, [T(s) for s in l]))), ("x", lit(T(x)))]), TZ)
    for l in ([1, 3, 4, 6], [1, 3], [], [2]):
        add("call:erstes_gerades:%s" % "_".join(map(str, l)), [], call("erstes_gerades", [("l", lit(L(TZ, [Z(v) for v in l])))]), TZ)
    for n in (0, 1, 3):
        add("call:liste_zurueck:%d" % n, [], call("liste_zurueck", [("n", zl(n))]), TL(TT))
    return cases


def copy_cases(tier, rng):
    """C08: two holders of one non-primitive value through every copy-introducing construct, then one is mutated"""
    cases = []

    def add(key, setup, e, t):
        cases.append(Case(key, e, t, setup))
    LZ = lit(L(TZ, [Z(1), Z(2), Z(3)]))
    LT = lit(L(TT, [T("ab"), T("cd")]))
    TX = lit(T("ölaf"))
    PA = new("Paar", zahl=zl(3), wort=lit(T("drei")))
    KI = new("Kiste", inhalt=LZ, paar=PA, flag=lit(W(True)))
    both = lambda a, b, ta, tb=None: (print_pair(a, b, ta, tb or ta))
    kinds = {
        "LZ": (TL(TZ), LZ, lambda n: setv(idx_lv(lvid(n), zl(1)), zl(9)), lambda n: [setv(lvid(n), bin_("cat", ident(n), zl(4)))]),
        "LT": (TL(TT), LT, lambda n: setv(idx_lv(idx_lv(lvid(n), zl(1)), zl(1)), lit(C("X"))), lambda n: [setv(idx_lv(lvid(n), zl(2)), lit(T("neu")))]),
        "T": (TT, TX, lambda n: setv(idx_lv(lvid(n), zl(1)), lit(C("O"))), lambda n: [setv(idx_lv(lvid(n), zl(2)), lit(C("€")))]),
        "P": (TS("Paar"), PA, lambda n: setv(fld_lv("zahl", lvid(n)), zl(8)), lambda n: [setv(idx_lv(fld_lv("wort", lvid(n)), zl(1)), lit(C("D")))]),
        "K": (TS("Kiste"), KI, lambda n: setv(idx_lv(fld_lv("inhalt", lvid(n)), zl(2)), zl(0)), lambda n: [setv(fld_lv("zahl", fld_lv("paar", lvid(n))), zl(1))]),
    }
    for kn, (t, init, mut1, mut2) in kinds.items():
        for mi, mut in enumerate((lambda n: [mut1(n)], mut2)):
            # initialisation copy
            su = [var("a", t, init, False), var("b", t, ident("a"), False)] + mut("b")
            add("copy:init:%s:%d" % (kn, mi), su, *pair_expr("a", "b", t))
            su = [var("a", t, init, False), var("b", t, ident("a"), False)] + mut("a")
            add("copy:init-mut-orig:%s:%d" % (kn, mi), su, *pair_expr("a", "b", t))
            # assignment copy
            su = [var("a", t, init, False), var("b", t, {"k": "std", "t": t}, False), setv(lvid("b"), ident("a"))] + mut("b")
            add("copy:assign:%s:%d" % (kn, mi), su, *pair_expr("a", "b", t))
            # the callee returns its by-value parameter unchanged: caller's variable and result are two values
            idf = {"LZ": ("gib_liste", "l"), "LT": ("gib_textliste", "l"), "T": ("gib_text", "t"), "P": ("gib_paar", "p"), "K": ("gib_kiste", "k")}[kn]
            for who in ("a", "b"):
                su = [var("a", t, init, False), var("b", t, call(idf[0], [(idf[1], ident("a"))]), False)] + mut(who)
                add("copy:return-param:%s:%d:mut-%s" % (kn, mi, who), su, *pair_expr("a", "b", t))
            su = [var("a", t, init, False), var("b", t, {"k": "std", "t": t}, False), setv(lvid("b"), call(idf[0], [(idf[1], ident("a"))]))] + mut("b")
            add("copy:return-param-assign:%s:%d" % (kn, mi), su, *pair_expr("a", "b", t))
            # list element copy (store into list, mutate the source)
            su = [var("a", t, init, False), var("l", TL(t) if "l" not in t else None, None, False)] if False else None
    # value argument: the callee mutates its copy (all levels; at -O2 the copy may be elided only if never written)
    add("copy:arg:list", [var("a", TL(TZ), LZ, False), var("r", TZ, call("aendere_kopie", [("l", ident("a")), ("v", zl(9))]), False)], *pair2(ident("r"), TZ, ident("a"), TL(TZ)))
    add("copy:arg:text", [var("a", TT, TX, False), var("r", TT, call("ersetze_in_kopie", [("t", ident("a")), ("c", lit(C("O"))), ("i", zl(1))]), False)], *pair2(ident("r"), TT, ident("a"), TT))
    add("copy:arg:kiste-field-element", [var("a", TS("Kiste"), KI, False), var("r", TZ, call("kiste_kopie_aendern", [("k", ident("a"))]), False)], *pair2(ident("r"), TZ, ident("a"), TS("Kiste")))
    add("copy:arg:forward:list", [var("a", TL(TZ), LZ, False), var("r", TZ, call("kopie_spaeter_liste", [("l", ident("a")), ("v", zl(9))]), False)], *pair2(ident("r"), TZ, ident("a"), TL(TZ)))
    add("copy:arg:forward:text", [var("a", TT, TX, False), var("r", TT, call("kopie_spaeter_text", [("t", ident("a"))]), False)], *pair2(ident("r"), TT, ident("a"), TT))
    add("copy:arg:forward:paar", [var("a", TS("Paar"), PA, False), var("r", TT, call("kopie_spaeter_paar", [("p", ident("a"))]), False)], *pair2(ident("r"), TT, ident("a"), TS("Paar")))
    add("copy:arg:paar-field-assign", [var("a", TS("Paar"), PA, False), var("r", TT, call("paar_feld_ersetzen", [("p", ident("a"))]), False)], *pair2(ident("r"), TT, ident("a"), TS("Paar")))
    add("copy:arg:kiste-field-assign", [var("a", TS("Kiste"), KI, False), var("r", TZ, call("kiste_feld_ersetzen", [("k", ident("a"))]), False)], *pair2(ident("r"), TZ, ident("a"), TS("Kiste")))
    add("copy:arg:paar-field-char", [var("a", TS("Paar"), PA, False), var("r", TT, call("paar_kopie_aendern", [("p", ident("a"))]), False)], *pair2(ident("r"), TT, ident("a"), TS("Paar")))
    # Referenz parameters alias exactly the argument: variable, element, field
    add("ref:var", [var("a", TL(TZ), LZ, False), {"k": "expr", "e": call("setze_erstes", [("l", lvid("a")), ("v", zl(9))])}], ident("a"), TL(TZ))
    add("ref:text", [var("a", TT, TX, False), {"k": "expr", "e": call("ersetze_zeichen", [("t", lvid("a")), ("c", lit(C("O"))), ("i", zl(1))])}], ident("a"), TT)
    add("ref:text:shrink-then-compare", [var("a", TT, TX, False), {"k": "expr", "e": call("ersetze_zeichen", [("t", lvid("a")), ("c", lit(C("O"))), ("i", zl(1))])}],
        bin_("eq", ident("a"), lit(T("Olaf"))), TW)
    add("ref:element", [var("a", TL(TT), LT, False), {"k": "expr", "e": call("haenge_an", [("t", idx_lv(lvid("a"), zl(2))), ("s", lit(T("!")))])}], ident("a"), TL(TT))
    add("ref:field", [var("a", TS("Paar"), PA, False), {"k": "expr", "e": call("haenge_an", [("t", fld_lv("wort", lvid("a"))), ("s", lit(T("!")))])}], ident("a"), TS("Paar"))
    add("ref:struct", [var("a", TS("Paar"), PA, False), {"k": "expr", "e": call("paar_ref_aendern", [("p", lvid("a"))])}], ident("a"), TS("Paar"))
    add("ref:field-of-element", [var("a", TL(TS("Paar")), {"k": "list", "et": TS("Paar"), "vals": [PA, PA]}, False), {"k": "expr", "e": call("paar_ref_aendern", [("p", idx_lv(lvid("a"), zl(2)))])}], ident("a"), TL(TS("Paar")))
    # the same variable by value and by Referenz; two Referenz parameters; a global also passed as argument
    add("alias:wert-und-ref", [var("a", TL(TZ), LZ, False), var("r", TZ, call("wert_und_ref", [("w", ident("a")), ("r", lvid("a"))]), False)], *pair2(ident("r"), TZ, ident("a"), TL(TZ)))
    add("alias:zwei-refs", [var("a", TT, lit(T("x")), False), var("r", TT, call("zwei_refs", [("a", lvid("a")), ("b", lvid("a"))]), False)], *pair2(ident("r"), TT, ident("a"), TT))
    add("alias:global-und-wert", [var("r", TZ, call("global_und_wert", [("w", ident("glob_l"))]), False)], *pair2(ident("r"), TZ, ident("glob_l"), TL(TZ)))
    add("alias:global-und-ref", [var("r", TZ, call("global_und_ref", [("r", lvid("glob_l"))]), False)], *pair2(ident("r"), TZ, ident("glob_l"), TL(TZ)))
    add("global:set", [{"k": "expr", "e": call("setze_global", [("v", zl(11))])}], ident("glob_z"), TZ)
    # return value, Variable boxing, slices, concatenation operands are copies
    add("copy:return", [var("a", TT, lit(T("r")), False), var("b", TT, call("text_zurueck", [("t", ident("a"))]), False), setv(idx_lv(lvid("b"), zl(1)), lit(C("R")))], *pair_expr("a", "b", TT))
    add("copy:return-param:conditional", [var("a", TT, TX, False), var("b", TT, call("gib_text_bedingt", [("t", ident("a")), ("w", lit(W(True)))]), False), setv(idx_lv(lvid("b"), zl(1)), lit(C("R")))], *pair_expr("a", "b", TT))
    add("copy:box", [var("a", TL(TZ), LZ, False), var("v", TV, cast(TV, ident("a")), False), setv(idx_lv(lvid("a"), zl(1)), zl(9)), var("b", TL(TZ), cast(TL(TZ), ident("v")), False)], *pair_expr("a", "b", TL(TZ)))
    add("copy:slice", [var("a", TL(TZ), LZ, False), var("b", TL(TZ), ter("slice", ident("a"), zl(1), zl(2)), False), setv(idx_lv(lvid("b"), zl(1)), zl(9))], *pair_expr("a", "b", TL(TZ)))
    add("copy:concat", [var("a", TT, TX, False), var("b", TT, bin_("cat", ident("a"), lit(T(""))), False), setv(idx_lv(lvid("b"), zl(1)), lit(C("O")))], *pair_expr("a", "b", TT))
    add("copy:concat-list", [var("a", TL(TZ), LZ, False), var("b", TL(TZ), bin_("cat", ident("a"), ident("a")), False), setv(idx_lv(lvid("a"), zl(1)), zl(9))], *pair_expr("a", "b", TL(TZ)))
    add("copy:list-element", [var("a", TT, TX, False), var("l", TL(TT), {"k": "list", "et": TT, "vals": [ident("a"), ident("a")]}, False), setv(idx_lv(lvid("a"), zl(1)), lit(C("O"))), setv(idx_lv(idx_lv(lvid("l"), zl(1)), zl(2)), lit(C("L")))], *pair2(ident("a"), TT, ident("l"), TL(TT)))
    add("copy:field-init", [var("a", TT, TX, False), var("p", TS("Paar"), new("Paar", zahl=zl(1), wort=ident("a")), False), setv(idx_lv(lvid("a"), zl(1)), lit(C("O")))], *pair2(ident("a"), TT, ident("p"), TS("Paar")))
    # frame: an assignment changes its target and nothing else.  The right-hand side is built from concatenations / slices of the
    # holders (the target itself among them: self-append, nested, target on the right, target twice); afterwards EVERY holder is printed
    cat = lambda x, y: bin_("cat", x, y)
    for tn, t, va, vb, vc, one in (("T", TT, lit(T("ab")), lit(T("cd")), lit(T("ef")), lit(T("x"))),
                                    ("LZ", TL(TZ), lit(L(TZ, [Z(1), Z(2)])), lit(L(TZ, [Z(3), Z(4)])), lit(L(TZ, [Z(5)])), zl(7))):
        A, B, Cc = ident("a"), ident("b"), ident("c")
        shapes = {"a+b": cat(A, B), "a+(b+c)": cat(A, cat(B, Cc)), "(a+b)+c": cat(cat(A, B), Cc), "a+(a+b)": cat(A, cat(A, B)), "(b+a)+a": cat(cat(B, A), A),
                  "b+a": cat(B, A), "a+a": cat(A, A), "(a+a)+a": cat(cat(A, A), A), "a+(b+a)": cat(A, cat(B, A)), "a+(b+lit)": cat(A, cat(B, one)),
                  "a+(lit+b)": cat(A, cat(one, B)) if tn == "T" else cat(A, cat(cat(B, one), Cc)), "(b+c)+a": cat(cat(B, Cc), A), "b+(c+a)": cat(B, cat(Cc, A)),
                  "a+slice(b)": cat(A, ter("slice", B, zl(1), zl(1))), "a+(slice(b)+c)": cat(A, cat(ter("slice", B, zl(2), zl(2)), Cc)),
                  "a+((b+c)+b)": cat(A, cat(cat(B, Cc), B)), "a+lit": cat(A, one)}
        for sn, rhs in shapes.items():
            su = [var("a", t, va, False), var("b", t, vb, False), var("c", t, vc, False), setv(lvid("a"), rhs)]
            add("frame:var:%s:%s" % (tn, sn), su, *pair2(ident("a"), t, pair2(ident("b"), t, ident("c"), t)[0], {"pair": True}))
            # the same statement twice (what the first one left behind is the input of the second)
            add("frame:var-twice:%s:%s" % (tn, sn), su + [setv(lvid("a"), rhs)], *pair2(ident("a"), t, pair2(ident("b"), t, ident("c"), t)[0], {"pair": True}))
    E = lambda i: bin_("idx", ident("l"), zl(i))
    for sn, rhs in {"e1+(e2+lit)": cat(E(1), cat(E(2), lit(T(";")))), "e1+e2": cat(E(1), E(2)), "e1+(e1+e2)": cat(E(1), cat(E(1), E(2))), "(e2+e3)+e1": cat(cat(E(2), E(3)), E(1)),
                    "e1+(slice(e2)+e3)": cat(E(1), cat(ter("slice", E(2), zl(1), zl(1)), E(3)))}.items():
        su = [var("l", TL(TT), lit(L(TT, [T("Ada"), T("Bob"), T("Cy")])), False), setv(idx_lv(lvid("l"), zl(1)), rhs)]
        add("frame:element:%s" % sn, su, ident("l"), TL(TT))
        su2 = [var("l", TL(TT), lit(L(TT, [T("Ada"), T("Bob"), T("Cy")])), False), var("z", TT, lit(T("")), False), setv(lvid("z"), cat(ident("z"), rhs)), setv(lvid("z"), cat(ident("z"), rhs))]
        add("frame:accumulate-elements:%s" % sn, su2, *pair2(ident("z"), TT, ident("l"), TL(TT)))
    F = lambda n: {"k": "fld", "f": "wort", "e": ident(n)}
    for sn, rhs in {"p+(q+lit)": cat(F("p"), cat(F("q"), lit(T("!")))), "p+q": cat(F("p"), F("q")), "(q+p)+p": cat(cat(F("q"), F("p")), F("p"))}.items():
        su = [var("p", TS("Paar"), new("Paar", zahl=zl(1), wort=lit(T("eins"))), False), var("q", TS("Paar"), new("Paar", zahl=zl(2), wort=lit(T("zwei"))), False),
              setv(fld_lv("wort", lvid("p")), rhs)]
        add("frame:field:%s" % sn, su, *pair2(ident("p"), TS("Paar"), ident("q"), TS("Paar")))
    return [c for c in cases if c is not None]


def pair_expr(a, b, t):
    return pair2(ident(a), t, ident(b), t)


def pair2(e1, t1, e2, t2):
    """a Kombination-free way to print two values: wrap in a Text via helper statements is not possible for all types,
    so a pair is printed as a list of Variable?  -> simply use a synthetic 2-field print through print_value"""
    return ({"k": "pair", "a": e1, "ta": t1, "b": e2, "tb": t2}, {"pair": True})


_pv = print_value


def print_value(e, t, tmp):      # noqa: F811  (extends the earlier definition with pairs)
    if isinstance(t, dict) and t.get("pair"):
        return print_value(e["a"], e["ta"], tmp + "p") + [pr(lit(T(" / ")))] + print_value(e["b"], e["tb"], tmp + "q")
    return _pv(e, t, tmp)


# ------------------------------------------------------------------------------------------ C06: index / slice / cast domains
FUNCS_C06 = FUNCS + [
    fn("plus_eins", [("z", TZ, True)], TNONE, [setv(lvid("z"), bin_("plus", ident("z"), zl(1)))]),
    # functions used INSIDE an index expression that change the length of the indexed (global) list: the bound that counts is the one
    # the list has when the element is reached (container, then index expression, then the access)
    fn("kuerze_glob", [("neu", TZ, False)], TZ, [var("alt", TZ, un("len", ident("glob_l")), False), setv(lvid("glob_l"), bin_("sto", ident("glob_l"), ident("neu"))), RET(ident("alt"))]),
    fn("verlaengere_glob", [], TZ, [setv(lvid("glob_l"), bin_("cat", ident("glob_l"), zl(9))), RET(un("len", ident("glob_l")))]),
]


def domain_cases(tier, rng):
    cases = []

    def add(key, setup, e, t):
        cases.append(Case(key, e, t, setup))
    for k in (0, 1, 2, 3):
        shrink = call("kuerze_glob", [("neu", zl(k))])
        add("idx:effect:shrink-in-index:assign:%d" % k, [setv(idx_lv(lvid("glob_l"), shrink), zl(99))], ident("glob_l"), TL(TZ))
        add("idx:effect:shrink-in-index:referenz:%d" % k, [{"k": "expr", "e": call("plus_eins", [("z", idx_lv(lvid("glob_l"), shrink))])}], ident("glob_l"), TL(TZ))
        add("idx:effect:shrink-in-index:compound:%d" % k, [{"k": "cset", "op": "plus", "lv": idx_lv(lvid("glob_l"), shrink), "e": zl(1)}], ident("glob_l"), TL(TZ))
    grow = call("verlaengere_glob", [])
    add("idx:effect:grow-in-index:assign", [setv(idx_lv(lvid("glob_l"), grow), zl(99))], ident("glob_l"), TL(TZ))
    add("idx:effect:grow-in-index:referenz", [{"k": "expr", "e": call("plus_eins", [("z", idx_lv(lvid("glob_l"), grow))])}], ident("glob_l"), TL(TZ))
    maxlen = 3 if tier == "quick" else 4
    extremes = [MAXI, MINI] if tier == "quick" else [1 << 31, -(1 << 31), MAXI, MAXI - 1, MINI, MINI + 1, 1 << 32, (1 << 32) + 1]
    containers = []
    for n in range(0, maxlen + 1):
        containers.append(("LZ%d" % n, TL(TZ), TZ, lit(L(TZ, [Z(10 + i) for i in range(n)])), zl(99)))
        containers.append(("LT%d" % n, TL(TT), TT, lit(L(TT, [T("e%dö" % i) for i in range(n)])), lit(T("neu"))))
        containers.append(("T%d" % n, TT, TC, lit(T("aö€😀"[:n])), lit(C("Z"))))
        if tier != "quick" or n in (0, 2):
            containers.append(("LP%d" % n, TL(TS("Paar")), TS("Paar"), {"k": "list", "et": TS("Paar"), "vals": [new("Paar", zahl=zl(i), wort=lit(T("p"))) for i in range(n)]} if n else lit(L(TS("Paar"), [])),
                               new("Paar", zahl=zl(5), wort=lit(T("q")))))
    for cn, ct, et, clit, newel in containers:
        n = int(cn[-1])
        idxs = list(range(-2, n + 3)) + extremes
        for i in idxs:
            su = [var("c", ct, clit, False)]
            add("idx:rv-var:%s:%d" % (cn, i), su, bin_("idx", ident("c"), zl(i)), et)
            add("idx:rv-tmp:%s:%d" % (cn, i), [], bin_("idx", clit, zl(i)), et)
            add("idx:assign:%s:%d" % (cn, i), su + [setv(idx_lv(lvid("c"), zl(i)), newel)], ident("c"), ct)
            if 0 <= i <= 255:
                add("idx:byte:%s:%d" % (cn, i), su, bin_("idx", ident("c"), lit(B(i))), et)
            if cn.startswith("LZ"):
                add("idx:refarg:%s:%d" % (cn, i), su + [{"k": "expr", "e": call("plus_eins", [("z", idx_lv(lvid("c"), zl(i)))])}], ident("c"), ct)
            if cn.startswith("LT"):
                add("idx:refarg:%s:%d" % (cn, i), su + [{"k": "expr", "e": call("haenge_an", [("t", idx_lv(lvid("c"), zl(i))), ("s", lit(T("!")))])}], ident("c"), ct)
                for j in (0, 1, 3, 4):
                    add("idx:nested:%s:%d:%d" % (cn, i, j), su, bin_("idx", bin_("idx", ident("c"), zl(i)), zl(j)), TC)
                    add("idx:nested-assign:%s:%d:%d" % (cn, i, j), su + [setv(idx_lv(idx_lv(lvid("c"), zl(i)), zl(j)), lit(C("#")))], ident("c"), ct)
            add("slice:from:%s:%d" % (cn, i), su, bin_("sfrom", ident("c"), zl(i)), ct)
            add("slice:to:%s:%d" % (cn, i), su, bin_("sto", ident("c"), zl(i)), ct)
        sl = list(range(-1, n + 3)) + extremes[:2]
        for a, b in itertools.product(sl, sl):
            add("slice:range:%s:%d:%d" % (cn, a, b), [var("c", ct, clit, False)], ter("slice", ident("c"), zl(a), zl(b)), ct)
    # Variable -> type conversions: only the held type succeeds
    held = [("Z", TZ, zl(5)), ("K", TK, lit(K(3, 1))), ("B", TBY, lit(B(7))), ("W", TW, lit(W(True))), ("C", TC, lit(C("c"))), ("T", TT, lit(T("t"))),
            ("LZ", TL(TZ), lit(L(TZ, [Z(1)]))), ("LT", TL(TT), lit(L(TT, [T("x")]))), ("P", TS("Paar"), new("Paar", zahl=zl(1), wort=lit(T("w"))))]
    held += [("DN", NUMMER, cast(NUMMER, zl(5))), ("DK", KENNUNG, cast(KENNUNG, lit(T("k"))))]      # type definitions are types of their own
    for hn, ht, he in held:
        for tn, tt, _ in held:
            add("varcast:%s:%s" % (hn, tn), [var("v", TV, cast(TV, he), False)], cast(tt, ident("v")), tt)
            add("vartest:%s:%s" % (hn, tn), [var("v", TV, cast(TV, he), False)], {"k": "tchk", "l": ident("v"), "t": tt}, TW)
    add("typedef:roundtrip", [var("n", NUMMER, cast(NUMMER, zl(41)), False), var("z", TZ, bin_("plus", cast(TZ, ident("n")), zl(1)), False), setv(lvid("n"), cast(NUMMER, ident("z")))], ident("n"), NUMMER)
    add("typedef:default", [var("n", NUMMER, {"k": "std", "t": NUMMER}, False)], ident("n"), NUMMER)
    add("typedef:equal", [var("n", NUMMER, cast(NUMMER, zl(3)), False)], bin_("eq", ident("n"), cast(NUMMER, zl(3))), TW)
    add("typedef:list", [var("ln", TL(NUMMER), {"k": "list", "et": NUMMER, "vals": [cast(NUMMER, zl(1)), cast(NUMMER, zl(2))]}, False)], cast(TZ, bin_("idx", ident("ln"), zl(2))), TZ)
    cases.append(Case("todo", lit(Z(1)), TZ, [{"k": "todo"}]))
    cases.append(Case("todo:in-function-not-called", lit(Z(1)), TZ, []))
    return cases


# ------------------------------------------------------------------------------------------ C12: production histories of texts
ALPHA = ["a", "ö", "€", "😀"]


def text_history_cases(tier, rng):
    """a Text variable t built by a literal and up to n production steps, then every observer"""
    inits = ["", "a", "ö€", "a😀b", "€b", "😀"]
    steps = {
        "cat_t": lambda: [setv(lvid("t"), bin_("cat", ident("t"), lit(T("ö"))))],
        "cat_c": lambda: [setv(lvid("t"), bin_("cat", ident("t"), lit(C("€"))))],
        "c_cat": lambda: [setv(lvid("t"), bin_("cat", lit(C("a")), ident("t")))],
        "t_cat": lambda: [setv(lvid("t"), bin_("cat", lit(T("😀x")), ident("t")))],
        "slice2": lambda: [setv(lvid("t"), bin_("sfrom", ident("t"), zl(2)))],
        "slice_to2": lambda: [setv(lvid("t"), bin_("sto", ident("t"), zl(2)))],
        "rep1_a": lambda: [setv(idx_lv(lvid("t"), zl(1)), lit(C("a")))],
        "rep1_4": lambda: [setv(idx_lv(lvid("t"), zl(1)), lit(C("😀")))],
        "rep2_o": lambda: [setv(idx_lv(lvid("t"), zl(2)), lit(C("ö")))],
        "replast_a": lambda: [setv(idx_lv(lvid("t"), un("len", ident("t"))), lit(C("a")))],
        "ref_rep1": lambda: [{"k": "expr", "e": call("ersetze_zeichen", [("t", lvid("t")), ("c", lit(C("b"))), ("i", zl(1))])}],
        "copy": lambda: [var("u%d" % rng.randrange(10 ** 6), TT, ident("t"), False)],
    }
    nsteps = 2 if tier == "quick" else 3
    cases = []
    # observers applied directly to literals and constants-like expressions (no variable in between)
    for li, s_ in enumerate(inits + ["häßlich", "€€€", "x😀y😀"]):
        L_ = lit(T(s_))
        cases.append(Case("lit:len:%d" % li, un("len", L_), TZ))
        cases.append(Case("lit:len-paren:%d" % li, un("len", bin_("cat", L_, lit(T("")))), TZ))
        cases.append(Case("lit:eq:%d" % li, bin_("eq", L_, lit(T(s_))), TW))
        for i in range(1, len(s_) + 1):
            cases.append(Case("lit:idx:%d:%d" % (li, i), cast(TZ, bin_("idx", L_, zl(i))), TZ))
            cases.append(Case("lit:sfrom:%d:%d" % (li, i), bin_("sfrom", L_, zl(i)), TT))
            cases.append(Case("lit:slice:%d:%d" % (li, i), ter("slice", L_, zl(i), un("len", L_)), TT))
        cases.append(Case("lit:each:%d" % li, ident("acc"), TT, acc_init() + [{"k": "foreach", "v": "c", "t": TC, "idx": "ix", "in": L_, "body": [acc_add(bin_("cat", as_text(ident("ix")), ident("c")))]}]))
        # the loop variable is an ordinary variable: writing it (a character of another encoded length) changes neither the characters
        # visited later nor their number
        for ri, (old_c, new_c) in enumerate([(c0, r_) for c0 in dict.fromkeys(s_) for r_ in ("x", "ä", "€", "😀") if r_ != c0]):
            cases.append(Case("lit:each-write:%d:%d" % (li, ri), ident("acc"), TT, acc_init() + [{"k": "foreach", "v": "c", "t": TC, "idx": "", "in": L_, "body": [
                acc_add(as_text(ident("c"))), if_(bin_("eq", ident("c"), lit(C(old_c))), [setv(lvid("c"), lit(C(new_c)))]), acc_add(as_text(ident("c"))), acc_add(lit(T("|")))]}]))
    for init in inits:
        for n in range(0, nsteps + 1):
            for hist in itertools.product(sorted(steps), repeat=n):
                if tier == "quick" and n == 2 and rng.random() < 0.5:
                    continue
                if tier == "thorough" and n == 3 and rng.random() < 0.8:
                    continue
                su = [var("t", TT, lit(T(init)), False)]
                for h in hist:
                    su += steps[h]()
                key = "hist:%s:%s" % ("".join("%x." % ord(c) for c in init), "+".join(hist))
                # observers: everything printed into one accumulated text
                obs = acc_init() + [acc_add(as_text(un("len", ident("t")))), acc_add(ident("t")),
                                    {"k": "foreach", "v": "c", "t": TC, "idx": "ix", "in": ident("t"), "body": [acc_add(bin_("cat", as_text(ident("ix")), ident("c")))]},
                                    {"k": "for", "v": "i", "t": TZ, "from": zl(1), "to": un("len", ident("t")), "step": NONE, "body": [
                                        acc_add(as_text(cast(TZ, bin_("idx", ident("t"), ident("i"))))), acc_add(bin_("sfrom", ident("t"), ident("i"))), acc_add(bin_("sto", ident("t"), ident("i")))]},
                                    # equality with a text of the same code points produced another way (character by character)
                                    var("fresh", TT, lit(T("")), False),
                                    {"k": "foreach", "v": "c2", "t": TC, "idx": "", "in": ident("t"), "body": [setv(lvid("fresh"), bin_("cat", ident("fresh"), ident("c2")))]},
                                    acc_add(as_text(bin_("eq", ident("t"), ident("fresh")))), acc_add(as_text(bin_("eq", ident("fresh"), ident("t")))),
                                    acc_add(as_text(bin_("ne", ident("t"), bin_("cat", ident("fresh"), lit(T("a")))))),
                                    acc_add(as_text(bin_("eq", bin_("cat", ident("t"), lit(T("z"))), bin_("cat", ident("fresh"), lit(T("z"))))))]
                cases.append(Case(key, ident("acc"), TT, su + obs))
    return cases
