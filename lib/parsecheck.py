"""Operator chains without parentheses: the tree of the REAL parser (exported by astx) against Precedence!Tree, decided by TLC (ParseTrace)."""
import itertools, json, os, subprocess
import vlib, ddp
from vlib import Infra

T_CFG = """SPECIFICATION Spec
CONSTANTS
  TraceFile = "trace.ndjson"
INVARIANTS Report
POSTCONDITION Accepted
CHECK_DEADLOCK FALSE
"""
BINOPS = ["or", "and", "bor", "bxor", "band", "eq", "ne", "lt", "le", "gt", "ge", "plus", "minus", "cat", "mal", "durch", "mod"]
NAMES = ["pa", "pb", "pc", "pd", "pe"]


def chains(tier, rng):
    """every pair and triple of binary operators (quick: a seeded third of the triples), a prefix operator before each operand position,
    and a seeded sample of four-operator chains"""
    out = []

    def mk(ops, prefix=None):
        items = []
        for i, n in enumerate(NAMES[:len(ops) + 1]):
            if prefix and prefix[0] == i:
                items.append({"o": prefix[1]})
            items.append(ddp.ident(n))
            if i < len(ops):
                items.append({"o": ops[i]})
        return items
    for o in BINOPS:
        out.append(mk([o]))
    for a, b in itertools.product(BINOPS, repeat=2):
        out.append(mk([a, b]))
        for pos in (0, 1, 2):
            for pre in ("not", "neg"):
                if rng.random() < (0.15 if tier == "quick" else 1.0):
                    out.append(mk([a, b], (pos, pre)))
    for t in itertools.product(BINOPS, repeat=3):
        if rng.random() < (0.25 if tier == "quick" else 1.0):
            out.append(mk(list(t)))
    for _ in range(600 if tier == "quick" else 6000):
        out.append(mk([rng.choice(BINOPS) for _ in range(4)], (rng.randrange(5), rng.choice(["not", "neg"])) if rng.random() < 0.3 else None))
    return out


def check(ck, tier, rng):
    cs = chains(tier, rng)
    per = 150
    wd = vlib.subdir("parse")
    reqs, progs = [], []
    decl = "".join("Die Variable %s ist %d.\n" % (n, i + 1) for i, n in enumerate(NAMES))
    for b in range(0, len(cs), per):
        lines = [decl]
        for j, items in enumerate(cs[b:b + per]):
            lines.append("Die Variable r%d ist %s." % (j, ddp.rchain(items)[1:-1]))
        d = os.path.join(wd, "b%d" % b)
        os.makedirs(d)
        with open(os.path.join(d, "m.ddp"), "w") as f:
            f.write("\n".join(lines) + "\n")
        reqs.append(dict(id=str(b), dir=d, main="m.ddp", tree_only=True))
    p = subprocess.run([vlib.harness_bin("astx")], input="".join(json.dumps(r) + "\n" for r in reqs).encode(), stdout=subprocess.PIPE, stderr=subprocess.PIPE,
                       env=dict(os.environ, DDPPATH=vlib.sut()), timeout=600)
    ans = {}
    for ln in p.stdout.decode().splitlines():
        a = json.loads(ln)
        ans[a["id"]] = a
    recs, keys = [], []
    refused = 0
    for b in range(0, len(cs), per):
        a = ans.get(str(b))
        if a is None:
            raise Infra("astx did not answer: " + p.stderr.decode()[-1000:])
        if not a["ok"]:
            # a chain the real parser does not accept as an expression (syntax error): every chain of the batch is then parsed alone
            refused += 1
            continue
        decls = {s["n"]: s["e"] for s in a["p"]["main"] if s.get("k") == "var"}
        for j, items in enumerate(cs[b:b + per]):
            e = decls.get("r%d" % j)
            if e is None:
                raise Infra("exported program lacks r%d" % j)
            recs.append(dict(e="chain", id="%d/%d" % (b, j), items=items, tree=e))
            keys.append(items)
    if refused:
        raise Infra("the real parser rejected %d batch(es) of operator chains with a syntax error; the renderer of chains is wrong for some operator" % refused)
    res, st = vlib.validate_monitor("ParseTrace", "t.cfg", ["syntax"], recs, procs=8, sets=("bad",), extra_files={"t.cfg": T_CFG}, is_start=lambda r: True)
    ck.cov["states"] += st["distinct"]; ck.cov["transitions"] += st["generated"]
    ck.cov["tlc_runs"].append(dict(name="ParseTrace", lines=st["lines"], wall_s=round(st["wall"], 1)))
    for i in res["bad"]:
        items = keys[i]
        words = [x["o"] if "o" in x else x["n"] for x in items]
        ck.fail("%s:parse:chain:%s" % (ck.pid, "-".join(w for w in words if w not in NAMES)),
                "the real parser's tree for the chain '%s' is not its precedence tree: parser %s" % (ddp.rchain(items), json.dumps(recs[i]["tree"])[:400]),
                dict(items=items, source="Die Variable r ist %s." % ddp.rchain(items)[1:-1], tree=recs[i]["tree"]))
    return dict(chains=len(recs), operators=BINOPS, prefix_operators=["not", "neg"])
