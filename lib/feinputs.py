"""Inputs for the frontend checks (C03, C07, C16): seed programs, token-level and byte-level mutants, import arrangements."""
import glob, json, os, subprocess, itertools
import vlib


def seed_programs():
    """list of (name, files dict, main) from the repository's corpus (read from the SUT's copy of the tree)"""
    root = os.path.join(vlib.sut(), "src")
    seeds = []
    td = os.path.join(root, "tests", "testdata", "kddp")
    for d, _, fs in sorted(os.walk(td)):
        mains = [f for f in fs if f.endswith(".ddp")]
        for m in mains:
            files = {}
            for dd, _, ff in os.walk(d):
                for f in ff:
                    if f.endswith(".ddp"):
                        p = os.path.join(dd, f)
                        files[os.path.relpath(p, d)] = open(p, "rb").read()
            # modules that import from a parent directory need it too
            par = os.path.dirname(d)
            if par != td and par.startswith(td):
                for f in os.listdir(par):
                    if f.endswith(".ddp"):
                        files.setdefault(os.path.join("..", f), open(os.path.join(par, f), "rb").read())
            if any(k.startswith("..") for k in files):
                files = {os.path.join("sub", k) if not k.startswith("..") else k[3:]: v for k, v in files.items()}
                seeds.append((os.path.relpath(os.path.join(d, m), td), files, os.path.join("sub", m)))
            else:
                seeds.append((os.path.relpath(os.path.join(d, m), td), files, m))
    for p in sorted(glob.glob(os.path.join(root, "examples", "*.ddp"))):
        seeds.append(("examples/" + os.path.basename(p), {os.path.basename(p): open(p, "rb").read()}, os.path.basename(p)))
    for name, text in REGRESSION_SEEDS.items():
        seeds.append(("regression/" + name, {"main.ddp": text.encode()}, "main.ddp"))
    for name, text in FEATURE_SEEDS.items():
        seeds.append(("feature/" + name, {"main.ddp": text.encode()}, "main.ddp"))
    for name, text in operator_arity_seeds(root):
        seeds.append(("feature/" + name, {"main.ddp": text.encode()}, "main.ddp"))
    return seeds


def operator_names(root):
    """the names accepted after 'überlädt den', read from the tree (src/ast/operators.go)"""
    import re
    txt = open(os.path.join(root, "src", "ast", "operators.go"), encoding="utf-8").read()
    return sorted(set(re.findall(r'return "([^"]+)"', txt)))


OPERATOR_USES = '''
Die Zahl a ist 6.
Die Zahl b ist 3.
Die Zahl c ist 2.
Die Zahlen Liste li ist eine Liste, die aus 1, 2, 3 besteht.
Die Zahl r1 ist a plus b.
Die Zahl r2 ist a minus b.
Die Zahl r3 ist a mal b.
Die Kommazahl r4 ist a durch b.
Die Zahl r5 ist a modulo b.
Die Kommazahl r6 ist a hoch b.
Die Zahl r7 ist -a.
Die Zahl r8 ist der Betrag von a.
Die Zahl r9 ist die Länge von li.
Die Zahl r10 ist a logisch und b.
Die Zahl r11 ist a logisch oder b.
Die Zahl r12 ist a logisch kontra b.
Die Zahl r13 ist logisch nicht a.
Die Zahl r14 ist a um b Bit nach links verschoben.
Die Zahl r15 ist a um b Bit nach rechts verschoben.
Der Wahrheitswert w1 ist a gleich b ist.
Der Wahrheitswert w2 ist a ungleich b ist.
Der Wahrheitswert w3 ist a kleiner als b ist.
Der Wahrheitswert w4 ist a größer als b ist.
Der Wahrheitswert w5 ist a kleiner als, oder b ist.
Der Wahrheitswert w6 ist a größer als, oder b ist.
Der Wahrheitswert w7 ist a zwischen b und c ist.
Der Wahrheitswert w8 ist nicht w1.
Der Wahrheitswert w9 ist w1 und w2.
Der Wahrheitswert w10 ist w1 oder w2.
Der Wahrheitswert w11 ist entweder w1, oder w2.
Die Zahl r16 ist li an der Stelle a.
Die Zahlen Liste l2 ist li bis zum a. Element.
Die Zahlen Liste l3 ist li ab dem a. Element.
Die Zahlen Liste l4 ist li im Bereich von a bis b.
Die Zahlen Liste l5 ist li verkettet mit a.
Die Zahl r17 ist a, falls w1, ansonsten b.
Der Text t1 ist a als Text.
Die Kommazahl r18 ist der Logarithmus von a zur Basis b.
'''


def operator_arity_seeds(root):
    """every operator name x declared arity 1..3 (Zahl parameters), followed by a use of every operator on Zahl operands:
    a declaration with the wrong arity is an error, and what follows must still be answered with diagnostics"""
    out = []
    for op in operator_names(root):
        for n in (1, 2, 3):
            ps = ["p%d" % i for i in range(1, n + 1)]
            if n == 1:
                head = "Die Funktion ueberladen mit dem Parameter p1 vom Typ Zahl, gibt eine Zahl zurück, macht:"
            else:
                head = "Die Funktion ueberladen mit den Parametern %s vom Typ %s, gibt eine Zahl zurück, macht:" % (
                    ", ".join(ps[:-1]) + " und " + ps[-1], ", ".join(["Zahl"] * (n - 1)) + " und Zahl")
            text = head + "\n\tGib 1 zurück.\nUnd überlädt den \"%s\" Operator.\n" % op + OPERATOR_USES
            out.append(("operator-arity/%s/%d" % (op.replace(" ", "_").replace(".", "").replace(",", ""), n), text))
    return out


# small programs for grammar features the repository's corpus does not use (or uses in one arrangement only)
FEATURE_SEEDS = {
    "alias-declarations": '''Binde "Duden/Ausgabe" ein.
Wir nennen die Kombination aus
	der Zahl x mit Standardwert 0,
	der Zahl y mit Standardwert 0,
einen Punkt, und erstellen sie so:
	"ein Punkt bei <x> und <y>" oder
	"der Ursprung"
Die Funktion summe mit den Parametern a und b vom Typ Zahl und Zahl, gibt eine Zahl zurück, macht:
	Gib a plus b zurück.
Und kann so benutzt werden:
	"die Summe von <a> und <b>"
Die Zahl kein_name ist 4.
Der Alias "<a> zusammen mit <b>" steht für die Funktion summe.
Der Alias "addiere <a> auf <b>" steht für die Funktion summe.
Der Punkt p ist ein Punkt bei 1 und 2.
Wenn (x von p) gleich 1 ist, Schreibe (1 zusammen mit 2) auf eine Zeile.
Sonst Schreibe (addiere 1 auf 2) auf eine Zeile.
Solange (x von p) kleiner als 3 ist, Speichere (x von p) plus 1 in x von p.
Für jede Zahl i von 1 bis 3, Schreibe (die Summe von i und kein_name) auf eine Zeile.
Für jede Zahl e in (eine Liste, die aus 1, 2 besteht), Schreibe e auf eine Zeile.
''',
    "list-type-aliases": '''Binde "Duden/Ausgabe" ein.
Wir nennen eine Zahlen Liste auch eine Zahlenreihe.
Wir nennen eine Zahlenreihe auch eine Reihe.
Wir definieren eine Folge als eine Zahlen Liste.
Wir nennen eine Zahl auch eine Nummer.
Die Zahlenreihe l ist 3 Mal 7.
Die Reihe r ist 2 Mal 1.
Die Nummer Liste nl ist 2 Mal 5.
Die Zahlenreihe leer ist eine leere Zahlen Liste.
Die Folge f ist (eine Liste, die aus 1, 2 besteht) als Folge.
Die Zahlen Liste z ist (die Länge von l) Mal (l an der Stelle 1).
Schreibe l auf eine Zeile.
Schreibe (r an der Stelle 2) auf eine Zeile.
Für jede Zahl e in l, Schreibe e auf eine Zeile.
''',
    "generic-kombinationen": '''Binde "Duden/Ausgabe" ein.
Wir nennen die generische Kombination aus
	dem T a,
	dem R b,
einen Paar, und erstellen sie so:
	"Paar(<a>, <b>)"
Wir nennen die generische Kombination aus
	dem T inhalt,
eine Kiste, und erstellen sie so:
	"Kiste(<inhalt>)"
Wir nennen die generische Kombination aus
	dem T x mit Standardwert 1,
	dem T y mit Standardwert 2,
einen Vektor, und erstellen sie so:
	"der Nullvektor" oder
	"Vektor(<x>, <y>)"
Wir nennen die generische Kombination aus
	dem T l,
	dem T r,
einen Zwilling, und erstellen sie so:
	"Zwilling(<l>, <r>)"
Die generische Funktion erstes mit dem Parameter p vom Typ T-R-Paar, gibt ein T zurück, macht:
	Gib a von p zurück.
Und kann so benutzt werden:
	"das Erste von <p>"
Die generische Funktion auspacken mit dem Parameter k vom Typ T-Kiste, gibt ein T zurück, macht:
	Gib inhalt von k zurück.
Und kann so benutzt werden:
	"der Inhalt von <k>"
Die Zahl-Kiste k ist Kiste(1).
Der Zahl-Text-Paar p ist Paar(1, "zwei").
Der Zahl-Vektor v ist der Nullvektor.
Die (Zahl-Kiste)-Kiste kk ist Kiste(k).
Der Zahl-Zwilling zw ist Zwilling(1, 2).
Der Text-Zwilling tz ist Zwilling("a", "b").
Schreibe (l von zw) auf eine Zeile.
Schreibe (das Erste von p) auf eine Zeile.
Schreibe (der Inhalt von k) auf eine Zeile.
Schreibe (der Inhalt von (der Inhalt von kk)) auf eine Zeile.
Schreibe (x von v) auf eine Zeile.
''',
    "declaration-kinds": '''Binde "Duden/Ausgabe" ein.
Die Konstante grenze ist 10.
Die öffentliche Zahl zaehler ist 0.
Die Funktion spaeter_da mit dem Parameter z vom Typ Zahl, gibt eine Zahl zurück,
wird später definiert
und kann so benutzt werden:
	"später <z>"
Die Funktion aussen mit dem Parameter t vom Typ Text, gibt nichts zurück,
ist in "fremd.c" definiert
und kann so benutzt werden:
	"zeige <t> fremd"
Die Funktion veraendere mit dem Parameter r vom Typ Zahlen Referenz, gibt nichts zurück, macht:
	Erhöhe r um grenze.
Und kann so benutzt werden:
	"verändere <r>"
Die Funktion pruefe mit dem Parameter z vom Typ Zahl, gibt einen Wahrheitswert zurück, macht:
	Gib wahr, wenn z größer als grenze ist, zurück.
Und kann so benutzt werden:
	"<z> <!nicht> groß ist"
Die Funktion spaeter_da macht:
	Gib z plus 1 zurück.
verändere zaehler.
Wenn zaehler groß ist, Schreibe (später zaehler) auf eine Zeile.
Wenn zaehler nicht groß ist, dann:
	Schreibe "klein" auf eine Zeile.
Wenn aber zaehler gleich 3 ist, dann:
	...
Sonst:
	Wiederhole:
		Verringere zaehler um 1.
	2 Mal.
Mache:
	Erhöhe zaehler um 1.
Solange zaehler kleiner als 3 ist.
''',
}


# inputs on which the frontend crashed once (found by the thorough tier, repaired in /repo); kept as seeds of every tier
REGRESSION_SEEDS = {
    "alias-only-parameters": '''Binde "Duden/Ausgabe" ein.
Die Funktion f mit dem Parameter a vom Typ Zahl, gibt eine Zahl zurück, macht:
	Gib a plus 1 zurück.
Und kann so benutzt werden:
	"<a>"
Schreibe (1 plus 1) auf eine Zeile.
''',
    "alias-of-missing-type": '''Binde "Duden/Ausgabe" ein.
Wir nennen eine  auch eine Hausnummer.
Die Hausnummer h ist 22.
Die Funktion foo mit dem Parameter h vom Typ Hausnummer, gibt eine Hausnummer zurück, macht:
	Gib h plus 2 zurück.
Und kann so benutzt werden:
	"foo <h>"
Die Funktion bar mit dem Parameter z vom Typ Zahl, gibt eine Hausnummer zurück, macht:
	Gib z als Hausnummer zurück.
Und kann so benutzt werden:
	"bar <z>"
Schreibe (foo h) auf eine Zeile.
''',
    "variable-named-like-kombination": '''Binde "Duden/Ausgabe" ein.
Wir nennen die Kombination aus
	der Zahl zahl mit Standardwert 1,
einen Paar, und erstellen sie so:
	"ein leerer Paar"
Die Funktion f mit dem Parameter p vom Typ Paar, gibt eine Zahl zurück, macht:
	Die Zahl Paar ist 5.
	Gib (zahl von p) plus Paar zurück.
Und kann so benutzt werden:
	"f <p>"
Schreibe (f (ein leerer Paar)) auf eine Zeile.
''',
    "alias-declaration-as-single-statement": '''Die Funktion foo gibt nichts zurück, macht:
	Verlasse die Funktion.
Und kann so benutzt werden:
	"foo"

Wenn wahr, Der Alias "bar" steht für die Funktion foo.
''',
    "alias-for-a-kombination": '''Wir nennen die Kombination aus
	der Zahl x mit Standardwert 0,
einen Punkt, und erstellen sie so:
	"ein Punkt"

Der Alias "bar" steht für die Funktion Punkt.
''',
    "generic-parameter-of-another-generic-kombination": '''Wir nennen die generische Kombination aus
	dem T a,
	dem R b,
einen Paar, und erstellen sie so:
	"Paar(<a>, <b>)"

Wir nennen die generische Kombination aus
	dem T inhalt,
eine Kiste, und erstellen sie so:
	"Kiste(<inhalt>)"

Die generische Funktion erstes mit dem Parameter p vom Typ T-R-Paar, gibt ein T zurück, macht:
	Gib a von p zurück.
Und kann so benutzt werden:
	"das Erste von <p>"

Die Zahl-Kiste k ist Kiste(1).
Die Zahl z ist das Erste von k.
''',
    "operator-overload-wrong-arity": '''Die Funktion addiere mit dem Parameter a vom Typ Zahl, gibt eine Zahl zurück, macht:
	Gib a zurück.
Und überlädt den "plus" Operator.

Die Zahl z ist 1 plus 2.
''',
    "import-inside-generic-body": '''Die generische Funktion g mit dem Parameter x vom Typ T, gibt nichts zurück, macht:
	Binde "Duden/Ausgabe" ein.
	Verlasse die Funktion.
Und kann so benutzt werden:
	"g <x>"
g 1.
''',
    "import-inside-generic-body-instantiated-from-an-argument": '''Die generische Funktion g mit dem Parameter x vom Typ T, gibt ein T zurück, macht:
	Binde "Duden/Ausgabe" ein.
	Gib x zurück.
Und kann so benutzt werden:
	"g <x>"
Die Funktion h mit dem Parameter z vom Typ Zahl, gibt eine Zahl zurück, macht:
	Gib z zurück.
Und kann so benutzt werden:
	"h <z>"
Die Zahl e ist h (g 1).
''',
    "list-alias-n-mal": '''Wir nennen eine Zahlen Liste auch eine Zahlenreihe.
Die Zahlenreihe l ist 3 Mal 0.
''',
}


def tokenize(sources):
    """sources: list of bytes -> list of token lists [(start offset, end offset, type)] via the real scanner (byte offsets)"""
    b = vlib.harness_bin("scan")
    inp = "".join(json.dumps(dict(mode="n", b=list(s))) + "\n" for s in sources)
    p = subprocess.run([b], input=inp, stdout=subprocess.PIPE, stderr=subprocess.PIPE, text=True)
    if p.returncode != 0:
        raise vlib.Infra("scan harness failed: " + p.stderr[-500:])
    out, cur, k = [], None, -1
    for line in p.stdout.splitlines():
        ev = json.loads(line)
        if ev["e"] == "src":
            k += 1
            cur = []
            out.append(cur)
            text = sources[k].decode("utf-8", "replace")
            lines = text.split("\n")
            starts = [0]
            for ln in lines:
                starts.append(starts[-1] + len(ln) + 1)
        elif ev["e"] == "tok" and ev["ty"] != 1:
            r = ev["r"]
            a = starts[r[0] - 1] + r[1] - 1
            e = starts[r[2] - 1] + r[3] - 1
            cur.append((a, e, ev["ty"]))
    return out


SNIPPETS = [
    ("alias", 'Der Alias "neu <a> und <b>" steht für die Funktion summe.'),
    ("alias-unknown", 'Der Alias "neu" steht für die Funktion gibts_nicht.'),
    ("alias-var", 'Der Alias "neu" steht für die Funktion a.'),
    ("vardecl", 'Die Zahl frisch ist 1.'),
    ("listdecl", 'Die Zahlen Liste frische_liste ist 2 Mal 0.'),
    ("const", 'Die Konstante fest ist 3.'),
    ("typealias", 'Wir nennen eine Zahl auch eine Nummer.'),
    ("typedef", 'Wir definieren eine Laenge als eine Zahl.'),
    ("import", 'Binde "Duden/Ausgabe" ein.'),
    ("return", 'Gib 1 zurück.'),
    ("break", 'Verlasse die Schleife.'),
    ("continue", 'Fahre mit der Schleife fort.'),
    ("leave", 'Verlasse die Funktion.'),
    ("todo", '...'),
    ("block", ':\n\tDie Zahl innen ist 1.\n'),
    ("funcdef", 'Die Funktion spaeter_da macht:\n\tGib 1 zurück.\n'),
    ("struct", 'Wir nennen die Kombination aus\n\tder Zahl q mit Standardwert 0,\neinen Neuling, und erstellen sie so:\n\t"ein Neuling"\n'),
    ("func", 'Die Funktion mittendrin gibt nichts zurück, macht:\n\tVerlasse die Funktion.\nUnd kann so benutzt werden:\n\t"mittendrin"\n'),
]


def token_mutants(text, toks, rng, limit=None, pairs=0):
    """text: str, toks: [(a, e, ty)] in code point offsets. Yields (kind, mutated text)"""
    n = len(toks)
    muts = []
    for i in range(n):
        a, e, _ = toks[i]
        muts.append(("del:%d" % i, text[:a] + text[e:]))
        muts.append(("dup:%d" % i, text[:e] + " " + text[a:e] + text[e:]))
        if i + 1 < n:
            a2, e2, _ = toks[i + 1]
            muts.append(("swap:%d" % i, text[:a] + text[a2:e2] + text[e:a2] + text[a:e] + text[e2:]))
        j = i + rng.randint(2, 6)
        if j < n:
            aj, ej, _ = toks[j]
            muts.append(("splice:%d>%d" % (i, j), text[:a] + text[e:ej] + " " + text[a:e] + text[ej:]))
    # substitution: a token replaced by the text of another token of the same type (a name of another kind, another literal)
    bytype = {}
    for i, (a, e, ty) in enumerate(toks):
        bytype.setdefault(ty, []).append(i)
    for i in range(n):
        a, e, ty = toks[i]
        others = [j for j in bytype[ty] if text[toks[j][0]:toks[j][1]] != text[a:e]]
        if not others:
            continue
        for j in rng.sample(others, min(2, len(others))):
            muts.append(("subst:%d<%d" % (i, j), text[:a] + text[toks[j][0]:toks[j][1]] + text[e:]))
    # a literal or a name replaced by a literal of another type / an undeclared name: the ill-typed or unresolved argument
    import re as _re
    for i in range(n):
        a, e, _ = toks[i]
        w = text[a:e]
        if _re.fullmatch(r'\d+|\d+,\d+|"[^"]*"|\'[^\']*\'|wahr|falsch', w):
            for kind, rep in (("text", '"zwei"'), ("zahl", "7"), ("komma", "2,5"), ("buchstabe", "'c'"), ("wahr", "wahr"), ("name", "gibts_nicht")):
                if rep != w and rng.random() < 0.5:
                    muts.append(("lit:%d:%s" % (i, kind), text[:a] + rep + text[e:]))
    # transplant: a whole statement of another kind placed where a statement (or the single statement of a Wenn / loop) may start
    for i in range(n):
        a, e, _ = toks[i]
        if text[a:e] in (",", ":", "."):
            sn = rng.choice(SNIPPETS)
            muts.append(("transplant:%d:%s" % (i, sn[0]), text[:e] + " " + sn[1] + " " + text[e:]))
    for _ in range(pairs):
        if n < 8:
            break
        i = rng.randrange(n - 7)
        j = i + rng.randint(1, 6)
        (a, e, _), (a2, e2, _) = toks[i], toks[j]
        k = rng.choice(["dd", "du", "ud"])
        if k == "dd":
            muts.append(("del2:%d,%d" % (i, j), text[:a] + text[e:a2] + text[e2:]))
        elif k == "du":
            muts.append(("deldup:%d,%d" % (i, j), text[:a] + text[e:e2] + " " + text[a2:e2] + text[e2:]))
        else:
            muts.append(("dupdel:%d,%d" % (i, j), text[:e] + " " + text[a:e] + text[e:a2] + text[e2:]))
    if limit and len(muts) > limit:
        # a quota per kind of mutant, so that the rarer kinds are always present
        kinds = {}
        for m in muts:
            kinds.setdefault(m[0].split(":")[0], []).append(m)
        share = max(1, limit // len(kinds))
        out = []
        for k in sorted(kinds):
            out += kinds[k] if len(kinds[k]) <= share else rng.sample(kinds[k], share)
        muts = out
    return muts


def byte_mutants(data, rng, count):
    out = []
    for _ in range(count):
        b = bytearray(data)
        if not b:
            break
        k = rng.choice(["flip", "trunc", "rand", "ins"])
        i = rng.randrange(len(b))
        if k == "flip":
            b[i] ^= 1 << rng.randrange(8)
        elif k == "trunc":
            b = b[:i]
        elif k == "rand":
            b[i] = rng.randrange(256)
        else:
            b[i:i] = bytes([rng.choice([0x80, 0xC3, 0xE2, 0xF0, 0xFF, 0x22, 0x5B, 0x3C])])
        out.append(("byte:%s:%d" % (k, i), bytes(b)))
    return out


def import_arrangements():
    """small multi-file arrangements: missing files, directory imports, self and mutual imports, diamonds"""
    A = 'Die öffentliche Zahl a_wert ist 1.\n'
    arr = []

    def add(name, files, main="main.ddp"):
        arr.append(("imports/" + name, {k: v.encode() for k, v in files.items()}, main))
    add("missing", {"main.ddp": 'Binde "fehlt" ein.\nDie Zahl x ist 1.\n'})
    add("missing-named", {"main.ddp": 'Binde foo aus "fehlt" ein.\n'})
    add("self", {"main.ddp": 'Binde "main" ein.\nDie Zahl x ist 1.\n'})
    add("mutual", {"main.ddp": 'Binde "b" ein.\nDie Zahl x ist 1.\n', "b.ddp": 'Binde "main" ein.\nDie öffentliche Zahl y ist 2.\n'})
    add("cycle3", {"main.ddp": 'Binde "b" ein.\n', "b.ddp": 'Binde "c" ein.\n', "c.ddp": 'Binde "b" ein.\nDie öffentliche Zahl z ist 1.\n'})
    add("diamond", {"main.ddp": 'Binde "b" ein.\nBinde "c" ein.\nDie Zahl x ist a_wert.\n', "b.ddp": 'Binde "a" ein.\nDie öffentliche Zahl bw ist a_wert.\n', "c.ddp": 'Binde "a" ein.\nDie öffentliche Zahl cw ist a_wert.\n', "a.ddp": A})
    add("dir", {"main.ddp": 'Binde alle Module aus "m" ein.\nDie Zahl x ist a_wert.\n', "m/a.ddp": A, "m/n/tief.ddp": 'Die öffentliche Zahl tief ist 1.\n'})
    add("dir-rec", {"main.ddp": 'Binde rekursiv alle Module aus "m" ein.\nDie Zahl x ist tief.\n', "m/a.ddp": A, "m/n/tief.ddp": 'Die öffentliche Zahl tief ist 1.\n'})
    add("dir-missing", {"main.ddp": 'Binde alle Module aus "nix" ein.\n'})
    add("dir-as-file", {"main.ddp": 'Binde "m" ein.\n', "m/a.ddp": A})
    add("empty-path", {"main.ddp": 'Binde "" ein.\n'})
    add("named-missing-symbol", {"main.ddp": 'Binde gibtsnicht aus "a" ein.\n', "a.ddp": A})
    add("named-private", {"main.ddp": 'Binde geheim aus "a" ein.\n', "a.ddp": A + 'Die Zahl geheim ist 2.\n'})
    add("twice", {"main.ddp": 'Binde "a" ein.\nBinde "a" ein.\nDie Zahl x ist a_wert.\n', "a.ddp": A})
    add("error-in-import", {"main.ddp": 'Binde "a" ein.\nDie Zahl x ist 1.\n', "a.ddp": 'Die öffentliche Zahl q ist "text".\n'})
    add("invalid-utf8-import", {"main.ddp": 'Binde "a" ein.\n', "a.ddp": "x"}, "main.ddp")
    arr[-1][1]["a.ddp"] = b"Die Zahl x ist \xff1.\n"
    fn = lambda n: ('[Kommentar]\n' * 12) + 'Die öffentliche Funktion zeige_%s mit dem Parameter z vom Typ Zahl, gibt nichts zurück, macht:\n\tVerlasse die Funktion.\nUnd kann so benutzt werden:\n\t"zeige <z>"\n' % n
    add("alias-clash-between-imports", {"main.ddp": 'Binde "a" ein.\nBinde "b" ein.\nzeige 1.\n', "a.ddp": fn("a"), "b.ddp": fn("b")})
    add("alias-clash-import-vs-local", {"main.ddp": 'Die Funktion lokal mit dem Parameter z vom Typ Zahl, gibt nichts zurück, macht:\n\tVerlasse die Funktion.\nUnd kann so benutzt werden:\n\t"zeige <z>"\nBinde "b" ein.\n', "b.ddp": fn("b")})
    add("name-clash-between-imports", {"main.ddp": 'Binde "a" ein.\nBinde "b" ein.\n', "a.ddp": 'Die öffentliche Zahl gleich_benannt ist 1.\n', "b.ddp": '\n\n\n\nDie öffentliche Zahl gleich_benannt ist 2.\n'})
    add("error-deep-in-import", {"main.ddp": 'Binde "a" ein.\n', "a.ddp": ('[x]\n' * 30) + 'Die öffentliche Zahl q ist wahr.\n'})
    fwd = 'Die Funktion nachher mit dem Parameter a vom Typ Zahl, gibt eine Zahl zurück,\nwird später definiert\nund kann so benutzt werden:\n\t"nachher <a>"\n'
    add("forward-decl-never-defined", {"main.ddp": fwd + 'Die Zahl x ist 1.\n'})
    add("forward-decl-never-defined-used", {"main.ddp": fwd + 'Die Zahl x ist nachher 1.\n'})
    add("forward-decl-never-defined-in-import", {"main.ddp": 'Binde "a" ein.\nDie Zahl x ist 1.\n', "a.ddp": fwd.replace("Die Funktion", "Die öffentliche Funktion")})
    add("forward-decl-defined", {"main.ddp": fwd + 'Die Funktion nachher macht:\n\tGib a zurück.\nDie Zahl x ist nachher 1.\n'})
    add("warning-only", {"main.ddp": 'Die Funktion f gibt nichts zurück, macht:\n\t...\nUnd kann so benutzt werden:\n\t"f"\n'})
    add("named-several-missing", {"main.ddp": 'Binde fehlt_a, fehlt_b, fehlt_c und fehlt_d aus "a" ein.\n', "a.ddp": A})
    add("named-several-private-and-missing", {"main.ddp": 'Binde geheim, fehlt_b, a_wert, fehlt_c und noch_eins aus "a" ein.\nDie Zahl x ist a_wert.\n', "a.ddp": A + 'Die Zahl geheim ist 2.\nDie Zahl noch_eins ist 3.\n'})
    add("named-several-clashing", {"main.ddp": 'Die Zahl p ist 0.\nDie Zahl q ist 0.\nDie Zahl r ist 0.\nBinde p, q und r aus "a" ein.\n', "a.ddp": 'Die öffentliche Zahl p ist 1.\nDie öffentliche Zahl q ist 2.\nDie öffentliche Zahl r ist 3.\n'})
    add("not-ddp-ext", {"main.ddp": 'Binde "a.txt" ein.\n', "a.txt.ddp": A})
    add("empty-main", {"main.ddp": ''})
    add("only-comment", {"main.ddp": '[nur ein Kommentar'})
    return arr


def line_lengths(data):
    text = data.decode("utf-8", "replace") if isinstance(data, bytes) else data
    return [len(l.rstrip("\r")) if False else len(l) for l in text.split("\n")]
