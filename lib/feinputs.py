"""Inputs for the frontend checks (C03, C07, C16): seed programs, token-level and byte-level mutants, import arrangements."""
import glob, json, os, subprocess, itertools
import vlib


def seed_programs():
    """list of (name, files dict, main) from the repository's corpus (read from the SUT's copy of the tree)"""
    root = os.path.join(vlib.sut(), "src")
    seeds = []
    td = os.path.join(root, "tests", "testdata", "kddp")
    for d, _, fs in sorted(os.walk(td)):
        mains = [f for f in fs if f.endswith(".ddp")]
        for m in mains:
            files = {}
            for dd, _, ff in os.walk(d):
                for f in ff:
                    if f.endswith(".ddp"):
                        p = os.path.join(dd, f)
                        files[os.path.relpath(p, d)] = open(p, "rb").read()
            # modules that import from a parent directory need it too
            par = os.path.dirname(d)
            if par != td and par.startswith(td):
                for f in os.listdir(par):
                    if f.endswith(".ddp"):
                        files.setdefault(os.path.join("..", f), open(os.path.join(par, f), "rb").read())
            if any(k.startswith("..") for k in files):
                files = {os.path.join("sub", k) if not k.startswith("..") else k[3:]: v for k, v in files.items()}
                seeds.append((os.path.relpath(os.path.join(d, m), td), files, os.path.join("sub", m)))
            else:
                seeds.append((os.path.relpath(os.path.join(d, m), td), files, m))
    for p in sorted(glob.glob(os.path.join(root, "examples", "*.ddp"))):
        seeds.append(("examples/" + os.path.basename(p), {os.path.basename(p): open(p, "rb").read()}, os.path.basename(p)))
    for name, text in REGRESSION_SEEDS.items():
        seeds.append(("regression/" + name, {"main.ddp": text.encode()}, "main.ddp"))
    return seeds


# inputs on which the frontend crashed once (found by the thorough tier, repaired in /repo); kept as seeds of every tier
REGRESSION_SEEDS = {
    "alias-only-parameters": '''Binde "Duden/Ausgabe" ein.
Die Funktion f mit dem Parameter a vom Typ Zahl, gibt eine Zahl zurück, macht:
	Gib a plus 1 zurück.
Und kann so benutzt werden:
	"<a>"
Schreibe (1 plus 1) auf eine Zeile.
''',
    "alias-of-missing-type": '''Binde "Duden/Ausgabe" ein.
Wir nennen eine  auch eine Hausnummer.
Die Hausnummer h ist 22.
Die Funktion foo mit dem Parameter h vom Typ Hausnummer, gibt eine Hausnummer zurück, macht:
	Gib h plus 2 zurück.
Und kann so benutzt werden:
	"foo <h>"
Die Funktion bar mit dem Parameter z vom Typ Zahl, gibt eine Hausnummer zurück, macht:
	Gib z als Hausnummer zurück.
Und kann so benutzt werden:
	"bar <z>"
Schreibe (foo h) auf eine Zeile.
''',
    "variable-named-like-kombination": '''Binde "Duden/Ausgabe" ein.
Wir nennen die Kombination aus
	der Zahl zahl mit Standardwert 1,
einen Paar, und erstellen sie so:
	"ein leerer Paar"
Die Funktion f mit dem Parameter p vom Typ Paar, gibt eine Zahl zurück, macht:
	Die Zahl Paar ist 5.
	Gib (zahl von p) plus Paar zurück.
Und kann so benutzt werden:
	"f <p>"
Schreibe (f (ein leerer Paar)) auf eine Zeile.
''',
}


def tokenize(sources):
    """sources: list of bytes -> list of token lists [(start offset, end offset, type)] via the real scanner (byte offsets)"""
    b = vlib.harness_bin("scan")
    inp = "".join(json.dumps(dict(mode="n", b=list(s))) + "\n" for s in sources)
    p = subprocess.run([b], input=inp, stdout=subprocess.PIPE, stderr=subprocess.PIPE, text=True)
    if p.returncode != 0:
        raise vlib.Infra("scan harness failed: " + p.stderr[-500:])
    out, cur, k = [], None, -1
    for line in p.stdout.splitlines():
        ev = json.loads(line)
        if ev["e"] == "src":
            k += 1
            cur = []
            out.append(cur)
            text = sources[k].decode("utf-8", "replace")
            lines = text.split("\n")
            starts = [0]
            for ln in lines:
                starts.append(starts[-1] + len(ln) + 1)
        elif ev["e"] == "tok" and ev["ty"] != 1:
            r = ev["r"]
            a = starts[r[0] - 1] + r[1] - 1
            e = starts[r[2] - 1] + r[3] - 1
            cur.append((a, e, ev["ty"]))
    return out


def token_mutants(text, toks, rng, limit=None, pairs=0):
    """text: str, toks: [(a, e, ty)] in code point offsets. Yields (kind, mutated text)"""
    n = len(toks)
    muts = []
    for i in range(n):
        a, e, _ = toks[i]
        muts.append(("del:%d" % i, text[:a] + text[e:]))
        muts.append(("dup:%d" % i, text[:e] + " " + text[a:e] + text[e:]))
        if i + 1 < n:
            a2, e2, _ = toks[i + 1]
            muts.append(("swap:%d" % i, text[:a] + text[a2:e2] + text[e:a2] + text[a:e] + text[e2:]))
        j = i + rng.randint(2, 6)
        if j < n:
            aj, ej, _ = toks[j]
            muts.append(("splice:%d>%d" % (i, j), text[:a] + text[e:ej] + " " + text[a:e] + text[ej:]))
    for _ in range(pairs):
        if n < 8:
            break
        i = rng.randrange(n - 7)
        j = i + rng.randint(1, 6)
        (a, e, _), (a2, e2, _) = toks[i], toks[j]
        k = rng.choice(["dd", "du", "ud"])
        if k == "dd":
            muts.append(("del2:%d,%d" % (i, j), text[:a] + text[e:a2] + text[e2:]))
        elif k == "du":
            muts.append(("deldup:%d,%d" % (i, j), text[:a] + text[e:e2] + " " + text[a2:e2] + text[e2:]))
        else:
            muts.append(("dupdel:%d,%d" % (i, j), text[:e] + " " + text[a:e] + text[e:a2] + text[e2:]))
    if limit and len(muts) > limit:
        muts = rng.sample(muts, limit)
    return muts


def byte_mutants(data, rng, count):
    out = []
    for _ in range(count):
        b = bytearray(data)
        if not b:
            break
        k = rng.choice(["flip", "trunc", "rand", "ins"])
        i = rng.randrange(len(b))
        if k == "flip":
            b[i] ^= 1 << rng.randrange(8)
        elif k == "trunc":
            b = b[:i]
        elif k == "rand":
            b[i] = rng.randrange(256)
        else:
            b[i:i] = bytes([rng.choice([0x80, 0xC3, 0xE2, 0xF0, 0xFF, 0x22, 0x5B, 0x3C])])
        out.append(("byte:%s:%d" % (k, i), bytes(b)))
    return out


def import_arrangements():
    """small multi-file arrangements: missing files, directory imports, self and mutual imports, diamonds"""
    A = 'Die öffentliche Zahl a_wert ist 1.\n'
    arr = []

    def add(name, files, main="main.ddp"):
        arr.append(("imports/" + name, {k: v.encode() for k, v in files.items()}, main))
    add("missing", {"main.ddp": 'Binde "fehlt" ein.\nDie Zahl x ist 1.\n'})
    add("missing-named", {"main.ddp": 'Binde foo aus "fehlt" ein.\n'})
    add("self", {"main.ddp": 'Binde "main" ein.\nDie Zahl x ist 1.\n'})
    add("mutual", {"main.ddp": 'Binde "b" ein.\nDie Zahl x ist 1.\n', "b.ddp": 'Binde "main" ein.\nDie öffentliche Zahl y ist 2.\n'})
    add("cycle3", {"main.ddp": 'Binde "b" ein.\n', "b.ddp": 'Binde "c" ein.\n', "c.ddp": 'Binde "b" ein.\nDie öffentliche Zahl z ist 1.\n'})
    add("diamond", {"main.ddp": 'Binde "b" ein.\nBinde "c" ein.\nDie Zahl x ist a_wert.\n', "b.ddp": 'Binde "a" ein.\nDie öffentliche Zahl bw ist a_wert.\n', "c.ddp": 'Binde "a" ein.\nDie öffentliche Zahl cw ist a_wert.\n', "a.ddp": A})
    add("dir", {"main.ddp": 'Binde alle Module aus "m" ein.\nDie Zahl x ist a_wert.\n', "m/a.ddp": A, "m/n/tief.ddp": 'Die öffentliche Zahl tief ist 1.\n'})
    add("dir-rec", {"main.ddp": 'Binde rekursiv alle Module aus "m" ein.\nDie Zahl x ist tief.\n', "m/a.ddp": A, "m/n/tief.ddp": 'Die öffentliche Zahl tief ist 1.\n'})
    add("dir-missing", {"main.ddp": 'Binde alle Module aus "nix" ein.\n'})
    add("dir-as-file", {"main.ddp": 'Binde "m" ein.\n', "m/a.ddp": A})
    add("empty-path", {"main.ddp": 'Binde "" ein.\n'})
    add("named-missing-symbol", {"main.ddp": 'Binde gibtsnicht aus "a" ein.\n', "a.ddp": A})
    add("named-private", {"main.ddp": 'Binde geheim aus "a" ein.\n', "a.ddp": A + 'Die Zahl geheim ist 2.\n'})
    add("twice", {"main.ddp": 'Binde "a" ein.\nBinde "a" ein.\nDie Zahl x ist a_wert.\n', "a.ddp": A})
    add("error-in-import", {"main.ddp": 'Binde "a" ein.\nDie Zahl x ist 1.\n', "a.ddp": 'Die öffentliche Zahl q ist "text".\n'})
    add("invalid-utf8-import", {"main.ddp": 'Binde "a" ein.\n', "a.ddp": "x"}, "main.ddp")
    arr[-1][1]["a.ddp"] = b"Die Zahl x ist \xff1.\n"
    fn = lambda n: ('[Kommentar]\n' * 12) + 'Die öffentliche Funktion zeige_%s mit dem Parameter z vom Typ Zahl, gibt nichts zurück, macht:\n\tVerlasse die Funktion.\nUnd kann so benutzt werden:\n\t"zeige <z>"\n' % n
    add("alias-clash-between-imports", {"main.ddp": 'Binde "a" ein.\nBinde "b" ein.\nzeige 1.\n', "a.ddp": fn("a"), "b.ddp": fn("b")})
    add("alias-clash-import-vs-local", {"main.ddp": 'Die Funktion lokal mit dem Parameter z vom Typ Zahl, gibt nichts zurück, macht:\n\tVerlasse die Funktion.\nUnd kann so benutzt werden:\n\t"zeige <z>"\nBinde "b" ein.\n', "b.ddp": fn("b")})
    add("name-clash-between-imports", {"main.ddp": 'Binde "a" ein.\nBinde "b" ein.\n', "a.ddp": 'Die öffentliche Zahl gleich_benannt ist 1.\n', "b.ddp": '\n\n\n\nDie öffentliche Zahl gleich_benannt ist 2.\n'})
    add("error-deep-in-import", {"main.ddp": 'Binde "a" ein.\n', "a.ddp": ('[x]\n' * 30) + 'Die öffentliche Zahl q ist wahr.\n'})
    fwd = 'Die Funktion nachher mit dem Parameter a vom Typ Zahl, gibt eine Zahl zurück,\nwird später definiert\nund kann so benutzt werden:\n\t"nachher <a>"\n'
    add("forward-decl-never-defined", {"main.ddp": fwd + 'Die Zahl x ist 1.\n'})
    add("forward-decl-never-defined-used", {"main.ddp": fwd + 'Die Zahl x ist nachher 1.\n'})
    add("forward-decl-never-defined-in-import", {"main.ddp": 'Binde "a" ein.\nDie Zahl x ist 1.\n', "a.ddp": fwd.replace("Die Funktion", "Die öffentliche Funktion")})
    add("forward-decl-defined", {"main.ddp": fwd + 'Die Funktion nachher macht:\n\tGib a zurück.\nDie Zahl x ist nachher 1.\n'})
    add("warning-only", {"main.ddp": 'Die Funktion f gibt nichts zurück, macht:\n\t...\nUnd kann so benutzt werden:\n\t"f"\n'})
    add("named-several-missing", {"main.ddp": 'Binde fehlt_a, fehlt_b, fehlt_c und fehlt_d aus "a" ein.\n', "a.ddp": A})
    add("named-several-private-and-missing", {"main.ddp": 'Binde geheim, fehlt_b, a_wert, fehlt_c und noch_eins aus "a" ein.\nDie Zahl x ist a_wert.\n', "a.ddp": A + 'Die Zahl geheim ist 2.\nDie Zahl noch_eins ist 3.\n'})
    add("named-several-clashing", {"main.ddp": 'Die Zahl p ist 0.\nDie Zahl q ist 0.\nDie Zahl r ist 0.\nBinde p, q und r aus "a" ein.\n', "a.ddp": 'Die öffentliche Zahl p ist 1.\nDie öffentliche Zahl q ist 2.\nDie öffentliche Zahl r ist 3.\n'})
    add("not-ddp-ext", {"main.ddp": 'Binde "a.txt" ein.\n', "a.txt.ddp": A})
    add("empty-main", {"main.ddp": ''})
    add("only-comment", {"main.ddp": '[nur ein Kommentar'})
    return arr


def line_lengths(data):
    text = data.decode("utf-8", "replace") if isinstance(data, bytes) else data
    return [len(l.rstrip("\r")) if False else len(l) for l in text.split("\n")]
