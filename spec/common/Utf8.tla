-------------------------------- MODULE Utf8 --------------------------------
(* UTF-8 as in RFC 3629 / Go's unicode/utf8: well-formed sequences only (no overlong forms, no
   surrogates, nothing above U+10FFFF).  Bytes are 0..255, code points 0..1114111.               *)
EXTENDS Naturals, Sequences

InR(x, lo, hi) == lo <= x /\ x <= hi
Cont(b) == InR(b, 128, 191)

(* length of the well-formed sequence starting at bytes[i], or 0 if there is none *)
SeqLenAt(bs, i) ==
    LET n  == Len(bs)
        b0 == bs[i]
        b(k) == IF i + k <= n THEN bs[i + k] ELSE 0
    IN  IF b0 <= 127 THEN 1
        ELSE IF InR(b0, 194, 223) /\ Cont(b(1)) THEN 2
        ELSE IF b0 = 224 /\ InR(b(1), 160, 191) /\ Cont(b(2)) THEN 3
        ELSE IF (InR(b0, 225, 236) \/ InR(b0, 238, 239)) /\ Cont(b(1)) /\ Cont(b(2)) THEN 3
        ELSE IF b0 = 237 /\ InR(b(1), 128, 159) /\ Cont(b(2)) THEN 3
        ELSE IF b0 = 240 /\ InR(b(1), 144, 191) /\ Cont(b(2)) /\ Cont(b(3)) THEN 4
        ELSE IF InR(b0, 241, 243) /\ Cont(b(1)) /\ Cont(b(2)) /\ Cont(b(3)) THEN 4
        ELSE IF b0 = 244 /\ InR(b(1), 128, 143) /\ Cont(b(2)) /\ Cont(b(3)) THEN 4
        ELSE 0

CpAt(bs, i, w) ==
    CASE w = 1 -> bs[i]
      [] w = 2 -> (bs[i] - 192) * 64 + (bs[i + 1] - 128)
      [] w = 3 -> (bs[i] - 224) * 4096 + (bs[i + 1] - 128) * 64 + (bs[i + 2] - 128)
      [] w = 4 -> (bs[i] - 240) * 262144 + (bs[i + 1] - 128) * 4096 + (bs[i + 2] - 128) * 64 + (bs[i + 3] - 128)

RECURSIVE DecodeFrom(_, _, _)
DecodeFrom(bs, i, acc) ==
    IF i > Len(bs) THEN [ok |-> TRUE, cps |-> acc]
    ELSE LET w == SeqLenAt(bs, i)
         IN  IF w = 0 THEN [ok |-> FALSE, cps |-> acc]
             ELSE DecodeFrom(bs, i + w, Append(acc, CpAt(bs, i, w)))
Decode(bs) == DecodeFrom(bs, 1, <<>>)
Valid(bs) == Decode(bs).ok

IsScalar(cp) == InR(cp, 0, 55295) \/ InR(cp, 57344, 1114111)
NumBytes(cp) == IF cp <= 127 THEN 1 ELSE IF cp <= 2047 THEN 2 ELSE IF cp <= 65535 THEN 3 ELSE 4
Encode(cp) ==
    CASE cp <= 127   -> <<cp>>
      [] cp <= 2047  -> <<192 + (cp \div 64), 128 + (cp % 64)>>
      [] cp <= 65535 -> <<224 + (cp \div 4096), 128 + ((cp \div 64) % 64), 128 + (cp % 64)>>
      [] OTHER       -> <<240 + (cp \div 262144), 128 + ((cp \div 4096) % 64), 128 + ((cp \div 64) % 64), 128 + (cp % 64)>>
RECURSIVE EncodeAll(_)
EncodeAll(cps) == IF cps = <<>> THEN <<>> ELSE Encode(Head(cps)) \o EncodeAll(Tail(cps))
=============================================================================
