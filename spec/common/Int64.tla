-------------------------------- MODULE Int64 --------------------------------
(* 64-bit two's-complement integers for TLC, whose own integers are 32-bit.
   A value is a sequence of 8 bytes (0..255), least significant first.
   All arithmetic wraps modulo 2^64 like the generated code (LLVM add/sub/mul on i64).           *)
EXTENDS Integers, Sequences, Bitwise

Limbs == 1..8
\* NB: always build limb sequences as explicit tuples.  TLC keeps [i \in S |-> e] as an unevaluated lambda, so chains of
\* such values (shift of shift of ...) are re-evaluated on every application and blow up exponentially.
Tup8(F(_)) == <<F(1), F(2), F(3), F(4), F(5), F(6), F(7), F(8)>>
Zero == <<0, 0, 0, 0, 0, 0, 0, 0>>
IsNeg(x) == x[8] >= 128

(* from a TLC integer (|i| < 2^31) *)
RECURSIVE NatLimbs(_, _)
NatLimbs(n, k) == IF k = 0 THEN <<>> ELSE <<n % 256>> \o NatLimbs(n \div 256, k - 1)
RECURSIVE AddC(_, _, _, _)
AddC(x, y, i, c) == IF i > 8 THEN <<>> ELSE LET s == x[i] + y[i] + c IN <<s % 256>> \o AddC(x, y, i + 1, s \div 256)
Add(x, y) == AddC(x, y, 1, 0)
BNot(x) == Tup8(LAMBDA i : 255 - x[i])
One == <<1, 0, 0, 0, 0, 0, 0, 0>>
Neg(x) == Add(BNot(x), One)
Sub(x, y) == Add(x, Neg(y))
FromInt(i) == IF i >= 0 THEN NatLimbs(i, 8) ELSE Neg(NatLimbs(0 - i, 8))

(* multiplication: schoolbook on bytes, truncated to 8 limbs *)
RECURSIVE MulRow(_, _, _, _, _)
MulRow(acc, x, b, j, c) ==      \* acc + x * b, limb by limb with carry (x already shifted by the caller)
    IF j > 8 THEN <<>> ELSE LET s == acc[j] + x[j] * b + c IN <<s % 256>> \o MulRow(acc, x, b, j + 1, s \div 256)
ShiftLimbs(x, sh) == Tup8(LAMBDA i : IF i - sh >= 1 THEN x[i - sh] ELSE 0)      \* multiply by 256^sh
RECURSIVE MulAcc(_, _, _, _)
MulAcc(acc, x, y, k) == IF k > 8 THEN acc ELSE MulAcc(MulRow(acc, ShiftLimbs(x, k - 1), y[k], 1, 0), x, y, k + 1)
Mul(x, y) == MulAcc(Zero, x, y, 1)

(* comparisons *)
RECURSIVE ULessFrom(_, _, _)
ULessFrom(x, y, i) == IF i = 0 THEN FALSE ELSE IF x[i] # y[i] THEN x[i] < y[i] ELSE ULessFrom(x, y, i - 1)
ULess(x, y) == ULessFrom(x, y, 8)
SLess(x, y) == IF IsNeg(x) # IsNeg(y) THEN IsNeg(x) ELSE ULess(x, y)
SLeq(x, y) == x = y \/ SLess(x, y)

MinInt == <<0, 0, 0, 0, 0, 0, 0, 128>>
MaxInt == <<255, 255, 255, 255, 255, 255, 255, 127>>

(* unsigned short division by a small divisor d (1..2^20): quotient limbs and remainder *)
RECURSIVE UDivFrom(_, _, _, _)
UDivFrom(x, d, i, r) ==      \* from the most significant limb down; <<quotient limbs (msb first), remainder>>
    IF i = 0 THEN <<<<>>, r>>
    ELSE LET cur == r * 256 + x[i]
             rest == UDivFrom(x, d, i - 1, cur % d)
         IN  <<<<cur \div d>> \o rest[1], rest[2]>>
Rev8(s) == Tup8(LAMBDA i : s[9 - i])
UDivSmall(x, d) == LET q == UDivFrom(x, d, 8, 0) IN [q |-> Rev8(q[1]), r |-> q[2]]

(* decimal rendering as code points *)
RECURSIVE UDec(_)
UDec(x) == IF x = Zero THEN <<>> ELSE LET qr == UDivSmall(x, 10) IN UDec(qr.q) \o <<48 + qr.r>>
Mag(x) == IF IsNeg(x) THEN Neg(x) ELSE x                       \* as unsigned; 2^63 for MinInt
ToDec(x) == IF x = Zero THEN <<48>> ELSE IF IsNeg(x) THEN <<45>> \o UDec(Neg(x)) ELSE UDec(x)

(* small values as TLC integers: defined when -2^30 < x < 2^30 *)
FitsSmall(x) == \/ (x[5] = 0 /\ x[6] = 0 /\ x[7] = 0 /\ x[8] = 0 /\ x[4] < 64)
                \/ (x[5] = 255 /\ x[6] = 255 /\ x[7] = 255 /\ x[8] = 255 /\ x[4] >= 192)
ToSmallNat(x) == x[1] + 256 * x[2] + 65536 * x[3] + 16777216 * x[4]
ToSmall(x) == IF IsNeg(x) THEN 0 - ToSmallNat(Neg(x)) ELSE ToSmallNat(x)

(* bitwise *)
BAnd(x, y) == Tup8(LAMBDA i : x[i] & y[i])
BOr(x, y)  == Tup8(LAMBDA i : x[i] | y[i])
BXor(x, y) == Tup8(LAMBDA i : x[i] ^^ y[i])
Shl1(x) == Tup8(LAMBDA i : ((x[i] * 2) % 256) + (IF i > 1 THEN x[i - 1] \div 128 ELSE 0))
Shr1(x) == Tup8(LAMBDA i : (x[i] \div 2) + (IF i < 8 THEN (x[i + 1] % 2) * 128 ELSE 0))       \* logical
RECURSIVE Shl(_, _)
Shl(x, n) == IF n = 0 THEN x ELSE Shl(Shl1(x), n - 1)
RECURSIVE Shr(_, _)
Shr(x, n) == IF n = 0 THEN x ELSE Shr(Shr1(x), n - 1)

(* signed remainder (sign of the dividend) and quotient (toward zero); divisor must not be zero *)
BitOf(n, i) == (n[(i \div 8) + 1] \div (2 ^ (i % 8))) % 2
RECURSIVE UDivBits(_, _, _, _, _)
UDivBits(n, d, i, r, q) ==
    IF i < 0 THEN [q |-> q, r |-> r]
    ELSE LET r1 == Add(Shl1(r), FromInt(BitOf(n, i)))
             ge == ~ULess(r1, d)
         IN  UDivBits(n, d, i - 1, IF ge THEN Sub(r1, d) ELSE r1, Add(Shl1(q), IF ge THEN One ELSE Zero))
UDivRem(n, d) == UDivBits(n, d, 63, Zero, Zero)
SRem(x, y) == LET r == UDivRem(Mag(x), Mag(y)).r IN IF IsNeg(x) THEN Neg(r) ELSE r
SDiv(x, y) == LET q == UDivRem(Mag(x), Mag(y)).q IN IF IsNeg(x) # IsNeg(y) THEN Neg(q) ELSE q
Abs(x) == Mag(x)

(* parse decimal digits (code points 48..57) into an unsigned value with overflow flag *)
RECURSIVE ParseDigits(_, _, _)
ParseDigits(ds, i, acc) ==     \* acc = [v, ovf]
    IF i > Len(ds) THEN acc
    ELSE LET m  == Mul(acc.v, FromInt(10))
             mo == acc.ovf \/ ULess(<<153, 153, 153, 153, 153, 153, 153, 25>>, acc.v)    \* acc.v > (2^64-1) div 10
             s  == Add(m, FromInt(ds[i] - 48))
             so == mo \/ ULess(s, m)
         IN  ParseDigits(ds, i + 1, [v |-> s, ovf |-> so])
=============================================================================
