----------------------------- MODULE AliasTrie -----------------------------
(* src/parser/alias_trie/trie.go on top of OrderedMap, implementation-shaped, together with the
   abstract contract the parser relies on (parser.go aliasExists/addAliases, alias.go alias()):

     the trie is a finite map from key sequences (compared element-wise with Eq) to values;
     Contains(ks) finds exactly what was inserted; Search(q) returns the value of every stored key
     sequence that matches a prefix of the query q, and never fails.

   A node is [children : sequence of <<key, node>>, hasValue, value].                           *)
EXTENDS Naturals, Sequences, FiniteSets, TokenKeys
CONSTANT Algo

OM == INSTANCE OrderedMap WITH Eq <- TokEq, Less <- TokLess, Algo <- Algo

EmptyNode == [children |-> <<>>, hasValue |-> FALSE, value |-> 0]

RECURSIVE InsertNode(_, _, _)
InsertNode(node, ks, v) ==
    IF ks = <<>> THEN [node EXCEPT !.hasValue = TRUE, !.value = v]
    ELSE LET k == Head(ks)
             g == OM!Get(node.children, k)
         IN  IF g.found
             THEN [node EXCEPT !.children[g.idx + 1] = <<@[1], InsertNode(@[2], Tail(ks), v)>>]
             ELSE [node EXCEPT !.children = OM!Set(@, k, InsertNode(EmptyNode, Tail(ks), v))]

(* Contains: (ok, value) - ok also for a path that only exists as a prefix (value 0 then);
   the parser treats "ok and value non-nil" as "alias exists".                                  *)
RECURSIVE ContainsNode(_, _)
ContainsNode(node, ks) ==
    IF ks = <<>> THEN [ok |-> TRUE, val |-> node.value]
    ELSE LET g == OM!Get(node.children, Head(ks))
         IN  IF g.found THEN ContainsNode(OM!ValueAt(node.children, g), Tail(ks))
             ELSE [ok |-> FALSE, val |-> 0]

(* Query tokens: a vocabulary token, or the pseudo token Arg that stands for one argument at the
   call site.  The parser's key generator (alias.go:29-77) answers a placeholder child with the
   child key itself when an argument follows, and with the next source token otherwise.          *)
Arg == [cls |-> "arg", ty |-> 0]
GenKey(q, childKey) == IF childKey.cls = "param" /\ q.cls = "arg" THEN childKey ELSE q
GenMatches(q, childKey) == LET k == GenKey(q, childKey) IN k.cls # "arg" /\ TokEq(k, childKey)

(* Search: values met along every matching path in depth-first order, or "crash" when the
   child lookup `node.children.Get(child_key)` (trie.go:115) misses a stored child and the nil
   node is dereferenced.                                                                         *)
RECURSIVE SearchNode(_, _, _)
RECURSIVE SearchKids(_, _, _, _)
SearchKids(node, q, pos, i) ==
    IF i > Len(node.children) THEN [crash |-> FALSE, vals |-> <<>>]
    ELSE LET ck   == node.children[i][1]
             rest == SearchKids(node, q, pos, i + 1)
         IN  IF pos < Len(q) /\ GenMatches(q[pos + 1], ck)
             THEN LET g == OM!Get(node.children, ck)
                  IN  IF ~g.found THEN [crash |-> TRUE, vals |-> <<>>]
                      ELSE LET cn  == OM!ValueAt(node.children, g)
                               sub == SearchNode(cn, q, pos + 1)
                               own == IF cn.hasValue THEN <<cn.value>> ELSE <<>>
                           IN  [crash |-> sub.crash \/ rest.crash, vals |-> own \o sub.vals \o rest.vals]
             ELSE rest
SearchNode(node, q, pos) == SearchKids(node, q, pos, 1)

(* ------------------------------ abstract contract ------------------------------ *)
KeySeqEq(a, b) == Len(a) = Len(b) /\ \A i \in 1..Len(a) : TokEq(a[i], b[i])
\* abs is a set of [key, val]
AbsInsert(abs, ks, v) == {e \in abs : ~KeySeqEq(e.key, ks)} \cup {[key |-> ks, val |-> v]}
AbsHas(abs, ks) == \E e \in abs : KeySeqEq(e.key, ks)
AbsVal(abs, ks) == (CHOOSE e \in abs : KeySeqEq(e.key, ks)).val
QMatches(q, ks) == Len(ks) <= Len(q) /\ \A i \in 1..Len(ks) : GenMatches(q[i], ks[i])
AbsSearch(abs, q) == {e.val : e \in {x \in abs : QMatches(q, x.key)}}

SeqToSet(s) == {s[i] : i \in 1..Len(s)}
ContainsAgrees(trie, abs, ks) ==
    LET r == ContainsNode(trie, ks)
        exists == r.ok /\ r.val # 0
    IN  /\ exists <=> AbsHas(abs, ks)
        /\ exists => r.val = AbsVal(abs, ks)
SearchAgrees(trie, abs, q) ==
    LET r == SearchNode(trie, q, 0)
    IN  ~r.crash /\ SeqToSet(r.vals) = AbsSearch(abs, q) /\ Len(r.vals) = Cardinality(AbsSearch(abs, q))
=============================================================================
