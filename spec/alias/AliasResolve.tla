---------------------------- MODULE AliasResolve ----------------------------
(* Call-site resolution (C09; parser/alias.go alias(), checkAlias(), sortAliases()).
   An alias:  [fn, pat : << [k : "w", w : word] | [k : "p", p : parameter name] >>,
               par : parameter name -> [t : "Z" | "T" | "G" (type parameter), ref : BOOLEAN], neg : BOOLEAN]
   A call site: << [k : "w", w] | [k : "a", id, t : "Z" | "T" | "C", form : "lit" | "neg" | "group" | "var" | "groupvar" | "elem" | "field" | "textchar" | "varword" (then also w : the name)] >>
   (an argument is one item: a single token, a negated literal or a parenthesised group).
   The invoked function is the one whose pattern matches the items from the start with the greatest length among those
   whose parameter types equal the argument types; on equal length a non-generic one is preferred, then the one with more
   Referenz parameters; arguments are bound by placeholder name.  Where the rule leaves a tie, any of the tied ones.     *)
EXTENDS Naturals, Sequences, FiniteSets

\* an argument that is a single name spelled like a word of the pattern (form "varword") is both: the word, and an argument
ItemMatches(pi, si) == IF pi.k = "w" THEN (si.k = "w" /\ si.w = pi.w) \/ (si.k = "a" /\ "w" \in DOMAIN si /\ si.w = pi.w) ELSE si.k = "a"
Matches(a, site) == Len(a.pat) <= Len(site) /\ \A i \in 1..Len(a.pat) : ItemMatches(a.pat[i], site[i])
\* argument bound to parameter p
ArgOf(a, site, p) == site[CHOOSE i \in 1..Len(a.pat) : a.pat[i].k = "p" /\ a.pat[i].p = p]
Params(a) == {a.pat[i].p : i \in {j \in 1..Len(a.pat) : a.pat[j].k = "p"}}
\* only an assignable can be passed by Referenz: a name, an element of a list, a field - but not a character of a Text ("textchar")
RefOK(arg) == arg.form \in {"var", "groupvar", "elem", "field", "varword"}
Typed(a, site) ==
    /\ \A p \in Params(a) :
          LET arg == ArgOf(a, site, p)
          IN  /\ (a.par[p].ref => RefOK(arg))
              /\ (a.par[p].t # "G" => a.par[p].t = arg.t)
    /\ \A p, q \in Params(a) : a.par[p].t = "G" /\ a.par[q].t = "G" => ArgOf(a, site, p).t = ArgOf(a, site, q).t     \* one type parameter, one binding
NGen(a) == Cardinality({p \in Params(a) : a.par[p].t = "G"})
NRef(a) == Cardinality({p \in Params(a) : a.par[p].ref})
Cands(A, site) == {a \in A : Matches(a, site) /\ Typed(a, site)}
Better(a, b) == \/ Len(a.pat) > Len(b.pat)
                \/ (Len(a.pat) = Len(b.pat) /\ NGen(a) < NGen(b))
                \/ (Len(a.pat) = Len(b.pat) /\ NGen(a) = NGen(b) /\ NRef(a) > NRef(b))
Best(A, site) == {a \in Cands(A, site) : \A b \in Cands(A, site) : ~Better(b, a)}
\* what the call site must resolve to: "none" (no type-matching alias: diagnosed) or one of Best
Resolves(A, site, got) ==
    IF Cands(A, site) = {} THEN got.fn = "none"
    ELSE \E a \in Best(A, site) :
            /\ got.fn = a.fn /\ got.neg = a.neg
            /\ \A p \in Params(a) : got.args[p] = ArgOf(a, site, p).id
=============================================================================
