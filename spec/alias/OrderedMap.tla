----------------------------- MODULE OrderedMap -----------------------------
(* src/parser/ordered_map/ordered_map.go, implementation-shaped.
   The Go slice `data` holds keys and values alternating; here it is a sequence of <<key, value>>
   pairs (index i here = data[2(i-1)], data[2(i-1)+1] there).  Eq and Less are the map's two
   predicate fields.  Indices returned are 0-based pair indices as in the Go code (idx*2 there). *)
EXTENDS Naturals, Sequences
CONSTANTS Eq(_, _), Less(_, _), Algo   \* Algo \in {"pinned", "run-scan"} selects binarySearch's body

KeyAt(data, i0) == data[i0 + 1][1]     \* i0 is 0-based

(* binarySearch as pinned:  eq-test at mid, else go right iff less(mid,key), else left. *)
RECURSIVE BSearchPinned(_, _, _, _)
BSearchPinned(data, key, low, high) ==
    IF low >= high THEN [idx |-> low, found |-> FALSE]
    ELSE LET mid == (low + high) \div 2
             k   == KeyAt(data, mid)
         IN  IF Eq(k, key) THEN [idx |-> mid, found |-> TRUE]
             ELSE IF Less(k, key) THEN BSearchPinned(data, key, mid + 1, high)
             ELSE BSearchPinned(data, key, low, mid)

(* binarySearch as repaired: lower bound under Less, then scan the run of Less-equivalent keys
   with Eq.  Correct for every Eq that refines the equivalence of a strict weak order Less.      *)
RECURSIVE LowerBound(_, _, _, _)
LowerBound(data, key, low, high) ==
    IF low >= high THEN low
    ELSE LET mid == (low + high) \div 2
         IN  IF Less(KeyAt(data, mid), key) THEN LowerBound(data, key, mid + 1, high)
             ELSE LowerBound(data, key, low, mid)
RECURSIVE ScanRun(_, _, _, _)
ScanRun(data, key, i, lb) ==
    IF i >= Len(data) \/ Less(key, KeyAt(data, i)) THEN [idx |-> lb, found |-> FALSE]
    ELSE IF Eq(KeyAt(data, i), key) THEN [idx |-> i, found |-> TRUE]
    ELSE ScanRun(data, key, i + 1, lb)
BSearchRunScan(data, key) ==
    LET lb == LowerBound(data, key, 0, Len(data)) IN ScanRun(data, key, lb, lb)

BinarySearch(data, key) ==
    IF Algo = "pinned" THEN BSearchPinned(data, key, 0, Len(data)) ELSE BSearchRunScan(data, key)

(* Set: overwrite the value when found; otherwise insert before the first key that key is Less
   than (a linear scan in the Go code), else append.                                            *)
RECURSIVE FirstGreater(_, _, _)
FirstGreater(data, key, i) ==      \* 0-based position to insert at
    IF i >= Len(data) THEN Len(data)
    ELSE IF Less(key, KeyAt(data, i)) THEN i ELSE FirstGreater(data, key, i + 1)

InsertAt(data, i0, pair) == SubSeq(data, 1, i0) \o <<pair>> \o SubSeq(data, i0 + 1, Len(data))

Set(data, key, value) ==
    LET r == BinarySearch(data, key)
    IN  IF r.found THEN [data EXCEPT ![r.idx + 1] = <<@[1], value>>]
        ELSE InsertAt(data, FirstGreater(data, key, 0), <<key, value>>)

Get(data, key) == BinarySearch(data, key)          \* .found, and the value is data[.idx+1][2]
ValueAt(data, r) == data[r.idx + 1][2]

Delete(data, key) ==
    LET r == BinarySearch(data, key)
    IN  IF r.found THEN SubSeq(data, 1, r.idx) \o SubSeq(data, r.idx + 2, Len(data)) ELSE data

Keys(data)   == [i \in 1..Len(data) |-> data[i][1]]
Values(data) == [i \in 1..Len(data) |-> data[i][2]]

(* Representation invariant the algorithms rely on. *)
Sorted(data) == \A i, j \in 1..Len(data) : i < j => ~Less(data[j][1], data[i][1])
NoDupKeys(data) == \A i, j \in 1..Len(data) : i # j => ~Eq(data[i][1], data[j][1])
=============================================================================
