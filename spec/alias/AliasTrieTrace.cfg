SPECIFICATION Spec
CONSTANTS
  Algo = "pinned"
  TraceFile = "trace.ndjson"
INVARIANTS Report
POSTCONDITION Accepted
CHECK_DEADLOCK FALSE
