----------------------------- MODULE AliasTrieMC -----------------------------
(* Pattern M: every history of at most MaxOps insertions over the key sequences KeyIdx, with the
   contract (ContainsAgrees / SearchAgrees) and the representation invariant evaluated in every
   state.  With Algo = "pinned" TLC finds the history  pA? no: <<pZ>>, <<pA>>, <<pB>> ... after
   which Get misses a stored key (two distinct types that print alike); with Algo = "run-scan"
   the contract holds for every history.                                                         *)
EXTENDS AliasTrie, AliasVocab, TLC, Json, SequencesExt
CONSTANTS MaxOps, Domain, QLen, ExportFile
VARIABLES trie, abs, n

\* Domain "small": 24 key sequences; "wide": 41 incl. depth 3, a third print-alike type and an INT literal
KeyIdx == IF Domain = "small"
          THEN {<<i>> : i \in 1..10} \cup {<<15>>, <<1, 15>>, <<16>>, <<1, 16>>} \cup {<<1, j>> : j \in {3, 4, 5, 7, 8, 9}} \cup {<<i, j>> : i \in {7, 8}, j \in {1, 3}}
          ELSE {<<i>> : i \in 1..12} \cup {<<15>>, <<1, 15>>, <<1, 10>>, <<16>>, <<1, 16>>, <<16, 1>>} \cup {<<1, j>> : j \in 1..12} \cup {<<i, j>> : i \in {7, 8, 11}, j \in {1, 2, 3}}
               \cup {<<1, 3, j>> : j \in {4, 7, 8}}
QIdx == {0, 1, 2, 3}
\* query tokens: index into Vocab, or 0 for Arg
QTok(i) == IF i = 0 THEN Arg ELSE Vocab[i]
QSeqs == UNION {[1..k -> QIdx] : k \in 1..QLen}
QToks(q) == [i \in 1..Len(q) |-> QTok(q[i])]

Init == trie = EmptyNode /\ abs = {} /\ n = 0
Insert(ks) == /\ n < MaxOps
              /\ n' = n + 1
              /\ trie' = InsertNode(trie, Toks(ks), n + 1)
              /\ abs' = AbsInsert(abs, Toks(ks), n + 1)
Next == \E ks \in KeyIdx : Insert(ks)
Spec == Init /\ [][Next]_<<trie, abs, n>>

Contract == /\ \A ks \in KeyIdx : ContainsAgrees(trie, abs, Toks(ks))
            /\ \A q \in QSeqs : SearchAgrees(trie, abs, QToks(q))

RECURSIVE NodeOK(_)
NodeOK(node) == /\ OM!Sorted(node.children)
                /\ OM!NoDupKeys(node.children)
                /\ \A i \in 1..Len(node.children) : NodeOK(node.children[i][2])
RepInv == NodeOK(trie)

(* export of the enumeration domain for the replay harness (single source: this module) *)
ASSUME ExportFile = "" \/ JsonSerialize(ExportFile, [names |-> VocabNames, vocab |-> Vocab, keyseqs |-> SetToSeq(KeyIdx), queries |-> SetToSeq(QSeqs), maxops |-> MaxOps])
=============================================================================
