--------------------------- MODULE AliasTrieTrace ---------------------------
(* Pattern T, monitor variant: a log of operations performed on the REAL alias trie (Go harness,
   real tokenEqual/tokenLess through hook H1) is stepped through; every logged answer is compared
     (verdict) with the abstract contract of AliasTrie  -> line numbers collected in `bad`
     (binding) with the implementation-shaped model   -> line numbers collected in `drift`
   Events:  {"e":"reset"} | {"e":"ins","k":[vocab idx..]} |
            {"e":"has","k":[..],"ok":bool,"val":n} | {"e":"srch","q":[idx or 0..],"crash":bool,"vals":[..]} *)
EXTENDS AliasTrie, AliasVocab, TLC, Json, FiniteSets
CONSTANTS TraceFile
VARIABLES l, trie, abs, n, bad, drift

Trace == ndJsonDeserialize(TraceFile)
QTok(i) == IF i = 0 THEN Arg ELSE Vocab[i]
QToks(q) == [i \in 1..Len(q) |-> QTok(q[i])]

Init == l = 1 /\ trie = EmptyNode /\ abs = {} /\ n = 0 /\ bad = {} /\ drift = {}

Reset == /\ Trace[l].e = "reset"
         /\ trie' = EmptyNode /\ abs' = {} /\ n' = 0 /\ UNCHANGED <<bad, drift>>
Ins == /\ Trace[l].e = "ins"
       /\ n' = n + 1
       /\ trie' = InsertNode(trie, Toks(Trace[l].k), n + 1)
       /\ abs' = AbsInsert(abs, Toks(Trace[l].k), n + 1)
       /\ UNCHANGED <<bad, drift>>
Has == /\ Trace[l].e = "has"
       /\ LET ks == Toks(Trace[l].k)
              ev == Trace[l]
              exists == ev.ok /\ ev.val # 0
              good == (exists <=> AbsHas(abs, ks)) /\ (exists => ev.val = AbsVal(abs, ks))
              m == ContainsNode(trie, ks)
          IN  /\ bad' = IF good THEN bad ELSE bad \cup {l}
              /\ drift' = IF m.ok = ev.ok /\ m.val = ev.val THEN drift ELSE drift \cup {l}
       /\ UNCHANGED <<trie, abs, n>>
Srch == /\ Trace[l].e = "srch"
        /\ LET q == QToks(Trace[l].q)
               ev == Trace[l]
               got == {ev.vals[i] : i \in 1..Len(ev.vals)}
               good == ~ev.crash /\ got = AbsSearch(abs, q) /\ Len(ev.vals) = Cardinality(got)
               m == SearchNode(trie, q, 0)
           IN  /\ bad' = IF good THEN bad ELSE bad \cup {l}
               /\ drift' = IF m.crash = ev.crash /\ (m.crash \/ m.vals = ev.vals) THEN drift ELSE drift \cup {l}
        /\ UNCHANGED <<trie, abs, n>>
Next == l <= Len(Trace) /\ l' = l + 1 /\ (Reset \/ Ins \/ Has \/ Srch)
Spec == Init /\ [][Next]_<<l, trie, abs, n, bad, drift>>

Done == l = Len(Trace) + 1
Report == Done => PrintT(<<"@@bad@@", bad>>) /\ PrintT(<<"@@drift@@", drift>>) /\ PrintT(<<"@@lines@@", Len(Trace)>>)
\* every line was consumed (no event the module cannot step through)
Accepted == TLCGet("stats").diameter = Len(Trace) + 1
=============================================================================
