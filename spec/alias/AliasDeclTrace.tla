--------------------------- MODULE AliasDeclTrace ---------------------------
(* Monitor for traces recorded from parser.Parse on rendered alias populations.
   {"e":"reset"} | {"e":"decl","item":m,"dup":bool} | {"e":"crash"} |
   {"e":"call","fn":k,"pat":i,"argref":bool,"got":k'|0,"neg":bool}     (fn = ordinal of the declaration)  *)
EXTENDS AliasDecl, TLC, Json
CONSTANT TraceFile
VARIABLES l, scope, n, items, bad
Trace == ndJsonDeserialize(TraceFile)
Init == l = 1 /\ scope = {} /\ n = 0 /\ items = <<>> /\ bad = {}
Reset == Trace[l].e = "reset" /\ scope' = {} /\ n' = 0 /\ items' = <<>> /\ UNCHANGED bad
Decl == /\ Trace[l].e = "decl"
        /\ LET item == Menu[Trace[l].item]
           IN  /\ bad' = IF Trace[l].dup = Dup(scope, item) THEN bad ELSE bad \cup {l}
               /\ scope' = Add(scope, item, n + 1)
        /\ n' = n + 1 /\ items' = Append(items, Trace[l].item)
Crash == Trace[l].e = "crash" /\ bad' = bad \cup {l} /\ UNCHANGED <<scope, n, items>>
Call == /\ Trace[l].e = "call"
        /\ LET ev == Trace[l]
               item == Menu[items[ev.fn]]
               pat == item.pats[ev.pat]
               best == Best(scope, KeyOf(pat, item.par), item.par, ev.argref)
           IN  bad' = IF \E e \in best : e.fn = ev.got /\ e.neg = ev.neg THEN bad ELSE bad \cup {l}
        /\ UNCHANGED <<scope, n, items>>
Next == l <= Len(Trace) /\ l' = l + 1 /\ (Reset \/ Decl \/ Crash \/ Call)
Spec == Init /\ [][Next]_<<l, scope, n, items, bad>>
Done == l = Len(Trace) + 1
Report == Done => PrintT(<<"@@bad@@", bad>>) /\ PrintT(<<"@@lines@@", Len(Trace)>>)
Accepted == TLCGet("stats").diameter = Len(Trace) + 1
ASSUME JsonSerialize("menu.json", [menu |-> Menu, names |-> VocabNames])
=============================================================================
