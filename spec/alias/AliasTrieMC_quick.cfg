SPECIFICATION Spec
CONSTANTS
  Algo = "pinned"
  MaxOps = 3
  Domain = "small"
  QLen = 2
  ExportFile = "domain.json"
INVARIANTS Contract RepInv
CHECK_DEADLOCK FALSE
