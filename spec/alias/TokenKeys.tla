----------------------------- MODULE TokenKeys -----------------------------
(* The key predicates of the alias trie, transcribed from src/parser/util.go
   (tokenEqual / tokenLess).  A token is a record
     [ty    : Nat,       ordinal of the Go constant token.<X> (only the order matters)
      cls   : "lit" | "param" | "kw",
      lit   : Nat,       rank of Token.Literal in Go's string order   (cls = "lit")
      ref   : BOOLEAN,   AliasInfo.IsReference                        (cls = "param")
      list  : BOOLEAN,   ddptypes.IsList(AliasInfo.Type)              (cls = "param")
      tname : Nat,       rank of GetUnderlying(AliasInfo.Type).String() in Go's string order
      tid   : Nat]       identity of GetUnderlying(AliasInfo.Type): equal iff ddptypes.Equal
   "lit" are IDENTIFIER, SYMBOL, INT, FLOAT, CHAR, STRING; "param" is ALIAS_PARAMETER; every other
   token type is "kw" and is compared by its type alone.                                        *)
EXTENDS Naturals

B2I(b) == IF b THEN 1 ELSE 0

TokEq(a, b) ==
    /\ a.ty = b.ty
    /\ CASE a.cls = "param" -> a.ref = b.ref /\ a.tid = b.tid
         [] a.cls = "lit"   -> a.lit = b.lit
         [] OTHER           -> TRUE

TokLess(a, b) ==
    IF a.ty # b.ty THEN a.ty < b.ty
    ELSE CASE a.cls = "param" ->
                IF a.ref # b.ref THEN B2I(a.ref) < B2I(b.ref)
                ELSE IF a.list # b.list THEN B2I(a.list) < B2I(b.list)
                ELSE a.tname < b.tname
           [] a.cls = "lit" -> a.lit < b.lit
           [] OTHER -> FALSE

(* What a sorted-slice map may assume of its predicates.  Checked for every vocabulary used
   (ASSUME in AliasVocab): Less is a strict weak order and Eq refines its equivalence.
   NOT assumed: that Less-equivalent keys are Eq (two distinct types may print alike).          *)
Equiv(a, b) == ~TokLess(a, b) /\ ~TokLess(b, a)
StrictWeakOrder(S) ==
    /\ \A a \in S : ~TokLess(a, a)
    /\ \A a, b, c \in S : TokLess(a, b) /\ TokLess(b, c) => TokLess(a, c)
    /\ \A a, b, c \in S : Equiv(a, b) /\ Equiv(b, c) => Equiv(a, c)
EqRefinesEquiv(S) ==
    /\ \A a \in S : TokEq(a, a)
    /\ \A a, b \in S : TokEq(a, b) => TokEq(b, a) /\ Equiv(a, b)
    /\ \A a, b, c \in S : TokEq(a, b) /\ TokEq(b, c) => TokEq(a, c)
=============================================================================
