-------------------------- MODULE AliasResolveTrace --------------------------
(* {"e":"pop","aliases":[alias...]}   a population of declared aliases (declaration order)
   {"e":"site","site":[items],"got":{"fn":name|"none","neg":bool,"args":{param:arg id}}}                      *)
EXTENDS AliasResolve, TLC, Json
CONSTANT TraceFile
VARIABLES l, pop, bad
Trace == ndJsonDeserialize(TraceFile)
Init == l = 1 /\ pop = {} /\ bad = {}
Pop == Trace[l].e = "pop" /\ pop' = {Trace[l].aliases[i] : i \in 1..Len(Trace[l].aliases)} /\ UNCHANGED bad
Site == /\ Trace[l].e = "site"
        /\ bad' = IF Resolves(pop, Trace[l].site, Trace[l].got) THEN bad ELSE bad \cup {l}
        /\ UNCHANGED pop
Next == l <= Len(Trace) /\ l' = l + 1 /\ (Pop \/ Site)
Spec == Init /\ [][Next]_<<l, pop, bad>>
Done == l = Len(Trace) + 1
Report == Done => PrintT(<<"@@bad@@", bad>>) /\ PrintT(<<"@@lines@@", Len(Trace)>>)
Accepted == TLCGet("stats").diameter = Len(Trace) + 1
=============================================================================
