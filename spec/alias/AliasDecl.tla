------------------------------ MODULE AliasDecl ------------------------------
(* Parser-level view of C20 (parser.go aliasExists/addAliases, declarations.go parseFunctionAliases):
   a program is a sequence of declarations taken from Menu; each brings alias patterns (a negation
   marker <!w> brings two: the negated spelling first, then the plain one).  A pattern whose key
   sequence is element-wise TokEq to one already in scope is a duplicate and must be diagnosed; the
   others enter the scope and must resolve at a call site written with that pattern.

   Menu item: [src  : "local" | "a" | "b"      where the function is declared (a, b: imported modules)
               par  : vocabulary index of the placeholder token (its type)
               pats : << [key : sequence of vocabulary indices, 0 = the placeholder; neg : BOOLEAN] >> ]  *)
EXTENDS Naturals, Sequences, FiniteSets, AliasVocab

T1 == << [key |-> <<2, 0>>, neg |-> FALSE] >>                                         \* "zeige <p>"
T2 == << [key |-> <<2, 0, 3>>, neg |-> FALSE] >>                                      \* "zeige <p> mit"
T3 == << [key |-> <<2, 0, 13>>, neg |-> TRUE], [key |-> <<2, 0>>, neg |-> FALSE] >>   \* "zeige <p> <!nicht>"
T4 == << [key |-> <<2, 0, 13>>, neg |-> FALSE] >>                                     \* "zeige <p> nicht"
Templates == <<T1, T2, T3, T4>>
LocalPars == <<4, 9, 5, 6, 14>>       \* Zahl, Nummer (alias of Zahl), Text, Zahlen Referenz, Byte
Menu == [i \in 1..20 |-> [src |-> "local", par |-> LocalPars[((i - 1) \div 4) + 1], pats |-> Templates[((i - 1) % 4) + 1]]]
        \o << [src |-> "a", par |-> 7, pats |-> T1], [src |-> "b", par |-> 8, pats |-> T1] >>

KeyOf(pat, par) == [i \in 1..Len(pat.key) |-> IF pat.key[i] = 0 THEN Vocab[par] ELSE Vocab[pat.key[i]]]
KeySeqEq(a, b) == Len(a) = Len(b) /\ \A i \in 1..Len(a) : TokEq(a[i], b[i])

\* scope: set of [fn : ordinal of the declaration, key, neg, par]
InScope(scope, key) == \E e \in scope : KeySeqEq(e.key, key)

(* local function: every pattern is tested against the scope as it was before the declaration;
   imported function: patterns are tested and added one by one (addAliases)                      *)
DupLocal(scope, item) == \E i \in 1..Len(item.pats) : InScope(scope, KeyOf(item.pats[i], item.par))
AddLocal(scope, item, fn) ==
    scope \cup {[fn |-> fn, key |-> KeyOf(item.pats[i], item.par), neg |-> item.pats[i].neg, par |-> item.par]
                : i \in {j \in 1..Len(item.pats) : ~InScope(scope, KeyOf(item.pats[j], item.par))}}
\* imported items have a single pattern in this menu, so both disciplines coincide for them
Dup(scope, item) == DupLocal(scope, item)
Add(scope, item, fn) == AddLocal(scope, item, fn)

(* call site written with pattern `pat` of declaration fn (argument of exactly the placeholder's type;
   argref: the argument is a variable and can bind a Referenz parameter).  C09 ranking among the
   candidates: more Referenz parameters first.                                                   *)
WordsEq(a, b) == Len(a) = Len(b) /\ \A i \in 1..Len(a) : (a[i].cls = "param") = (b[i].cls = "param")
                                                       /\ (a[i].cls # "param" => TokEq(a[i], b[i]))
Cands(scope, key, par, argref) ==
    {e \in scope : /\ WordsEq(e.key, key)
                   /\ Vocab[e.par].tid = Vocab[par].tid
                   /\ (Vocab[e.par].ref => argref)}
Best(scope, key, par, argref) ==
    LET c == Cands(scope, key, par, argref)
    IN  IF \E e \in c : Vocab[e.par].ref THEN {e \in c : Vocab[e.par].ref} ELSE c
=============================================================================
