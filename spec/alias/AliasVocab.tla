----------------------------- MODULE AliasVocab -----------------------------
(* The token vocabulary the alias checks range over.  The Go harness (harness/go/cmd/trie)
   builds one real *token.Token per entry, by name, and refuses to run (exit 2) when the order of
   the real token-type ordinals / literals / printed type names differs from the ranks below.
   pA, pB, pC are three distinct Kombinationen all named "Punkt" (declared in different modules);
   pAZ is a type alias of Zahl (same key as pZ, by alias transparency), pVL one of Zahlen Liste.   *)
EXTENDS Naturals, Sequences, TokenKeys
Lit(ty, rank)  == [cls |-> "lit", ty |-> ty, lit |-> rank, ref |-> FALSE, list |-> FALSE, tname |-> 0, tid |-> 0]
Kw(ty)         == [cls |-> "kw",  ty |-> ty, lit |-> 0,    ref |-> FALSE, list |-> FALSE, tname |-> 0, tid |-> 0]
Par(ref, list, tname, tid) ==
                  [cls |-> "param", ty |-> 3, lit |-> 0, ref |-> ref, list |-> list, tname |-> tname, tid |-> tid]
\* printed names, ranked in Go string order: "Byte" < "Punkt" < "Text" < "Zahl" < "Zahlen Liste"
NByte == 0  NPunkt == 1  NText == 2  NZahl == 3  NZahlenListe == 4
Vocab == <<
   Lit(2, 1),                      \*  1 foo      IDENTIFIER "foo"
   Lit(2, 2),                      \*  2 zeige    IDENTIFIER "zeige"
   Kw(69),                         \*  3 mit      token.MIT
   Par(FALSE, FALSE, NZahl, 1),    \*  4 pZ       <a> Zahl
   Par(FALSE, FALSE, NText, 2),    \*  5 pT       <a> Text
   Par(TRUE,  FALSE, NZahl, 1),    \*  6 pZr      <a> Zahlen Referenz
   Par(FALSE, FALSE, NPunkt, 3),   \*  7 pA       <a> Punkt (module a)
   Par(FALSE, FALSE, NPunkt, 4),   \*  8 pB       <a> Punkt (module b)
   Par(FALSE, FALSE, NZahl, 1),    \*  9 pAZ      <a> Nummer = alias of Zahl
   Par(FALSE, TRUE,  NZahlenListe, 5), \* 10 pZL  <a> Zahlen Liste
   Par(FALSE, FALSE, NPunkt, 6),   \* 11 pC       <a> Punkt (module c)
   Lit(6, 1),                      \* 12 int1     INT "1"
   Kw(23),                         \* 13 nicht    token.NICHT
   Par(FALSE, FALSE, NByte, 7),    \* 14 pBy      <a> Byte
   Par(FALSE, TRUE,  NZahlenListe, 5), \* 15 pVL  <a> Vektor = alias of Zahlen Liste (same key as pZL, by alias transparency)
   Kw(69)                          \* 16 Mit      token.MIT spelled "Mit": a keyword is compared by its type alone (same key as mit)
>>
VocabNames == <<"foo", "zeige", "mit", "pZ", "pT", "pZr", "pA", "pB", "pAZ", "pZL", "pC", "int1", "nicht", "pBy", "pVL", "Mit">>
VocabSet == {Vocab[i] : i \in 1..Len(Vocab)}

ASSUME StrictWeakOrder(VocabSet)
ASSUME EqRefinesEquiv(VocabSet)

Toks(idxs) == [i \in 1..Len(idxs) |-> Vocab[idxs[i]]]
=============================================================================
