------------------------------ MODULE TextTrace ------------------------------
(* Per-character operations of the runtime (utf8.c, operators.c) for code points, recorded by harness/c/textdrv.c
   from libddpruntime.a, against Utf8.tla:  the encoding is Encode(cp) with NumBytes(cp) bytes, decoding gives cp
   back, the text "x<cp>y" has three code points and its second one is cp, replacing it by 'a' and back restores
   an equal text.  U+0000 cannot live in a NUL-terminated text and is only checked for its encoding.              *)
EXTENDS Utf8, TLC, Json
CONSTANT TraceFile
VARIABLES l, bad
Trace == ndJsonDeserialize(TraceFile)
Init == l = 1 /\ bad = {}
Cp == /\ Trace[l].e = "cp"
      /\ LET ev == Trace[l]
             good == /\ ev.nb = NumBytes(ev.cp) /\ ev.nbc = NumBytes(ev.cp)
                     /\ ev.enc = Encode(ev.cp)
                     /\ Valid(ev.enc) /\ Decode(ev.enc).cps = <<ev.cp>>
                     /\ (ev.cp # 0 => ev.dec = ev.cp /\ ev.decn = ev.nb /\ ev.len = 3 /\ ev.idx = ev.cp /\ ev.rep)
         IN  bad' = IF good THEN bad ELSE bad \cup {l}
Next == l <= Len(Trace) /\ l' = l + 1 /\ Cp
Spec == Init /\ [][Next]_<<l, bad>>
Done == l = Len(Trace) + 1
Report == Done => PrintT(<<"@@bad@@", bad>>) /\ PrintT(<<"@@lines@@", Len(Trace)>>)
Accepted == TLCGet("stats").diameter = Len(Trace) + 1
=============================================================================
