----------------------------- MODULE StaticTrace -----------------------------
(* {"e":"prog","base":bool,"class":name,"p":P,"accepted":bool,"cli":{"ran":bool,"exit0":bool,"artefact":bool}}
   one program (a unit of a base program or a mutant of it with exactly one injected fault) and the verdict of the real frontend / of kddp.
     base programs must be WellFormed and accepted                                  (else: `basebad`  - generator, renderer or specification disagree: no verdict)
     a mutant that is still WellFormed is no fault at all                            (`dropped`, e.g. a redeclaration that is legal shadowing)
     an ill-formed mutant must be rejected, and kddp must fail without an artefact   (else: `bad`)                                           *)
EXTENDS DDPStatic, Json
CONSTANT TraceFile
VARIABLES l, bad, basebad, dropped, rules
Trace == ndJsonDeserialize(TraceFile)
Init == l = 1 /\ bad = {} /\ basebad = {} /\ dropped = {} /\ rules = {}
Step == LET ev == Trace[l]
            v == Violations(ev.p)
            cliok == ~ev.cli.ran \/ (~ev.cli.exit0 /\ ~ev.cli.artefact)
        IN  /\ rules' = rules \cup v
            /\ IF ev.base
               THEN /\ basebad' = IF v = {} /\ ev.accepted THEN basebad ELSE basebad \cup {l}
                    /\ UNCHANGED <<bad, dropped>>
                    /\ (IF v = {} THEN TRUE ELSE PrintT(<<"@@baserules@@", l, v>>))
               ELSE /\ UNCHANGED basebad
                    /\ dropped' = IF v = {} THEN dropped \cup {l} ELSE dropped
                    /\ bad' = IF v # {} /\ (ev.accepted \/ ~cliok) THEN bad \cup {l} ELSE bad
Next == l <= Len(Trace) /\ l' = l + 1 /\ Step
Spec == Init /\ [][Next]_<<l, bad, basebad, dropped, rules>>
Done == l = Len(Trace) + 1
Report == Done => PrintT(<<"@@bad@@", bad>>) /\ PrintT(<<"@@basebad@@", basebad>>) /\ PrintT(<<"@@dropped@@", dropped>>) /\ PrintT(<<"@@rules@@", rules>>) /\ PrintT(<<"@@lines@@", Len(Trace)>>)
Accepted == TLCGet("stats").diameter = Len(Trace) + 1
=============================================================================
