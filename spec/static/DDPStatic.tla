------------------------------ MODULE DDPStatic ------------------------------
(* The static rules of DDP over the JSON AST shared with DDPSem (DESIGN.md Appendix B): scopes, declarations, the type rules of every
   expression and statement position, Konstanten, loops, final returns, visibility across modules and article agreement.

   Violations(P) is the set of rule names the program breaks; WellFormed(P) == Violations(P) = {}.
   A program P (flattened by the harness):
     structs : <<[n, fields : <<[n, t, pub]>>, foreign, pub]>>         Kombinationen (foreign: declared in the imported module)
     funcs   : <<[n, params : <<[n, t, ref]>>, ret, body, foreign, pub, retart]>>
     globals : <<[n, t, c, vis]>>                                       variables / Konstanten of the imported module (vis: public)
     nearly  : number of leading main statements that precede the function declarations (their variables are global)
     main    : <<statement>>
   Rule names: "undeclared" "redeclared" "type:<position>" "const" "loop" "missing-return" "nonpublic" "article".                  *)
EXTENDS Integers, Sequences, FiniteSets, TLC, Precedence

TB(x) == [b |-> x]
ERR == TB("!")               \* the type of an expression that is already counted as ill-formed
NONE == TB("none")
\* type aliases [a |-> name, of |-> T] are transparent, type definitions [d |-> name, of |-> T] are types of their own (ddptypes.Equal):
\* every type is normalised where it enters (declarations, signatures, fields, casts), so the rules below never see an alias
RECURSIVE N(_)
N(t) == IF "a" \in DOMAIN t THEN N(t.of)
        ELSE IF "l" \in DOMAIN t THEN [l |-> N(t.l)]
        ELSE IF "d" \in DOMAIN t THEN [d |-> t.d, of |-> N(t.of)]
        ELSE t
IsDef(t) == "d" \in DOMAIN t
IsB(t, x) == "b" \in DOMAIN t /\ t.b = x
IsErr(t) == IsB(t, "!")
IsList(t) == "l" \in DOMAIN t
IsStruct(t) == "s" \in DOMAIN t
IsNum(t) == IsB(t, "Z") \/ IsB(t, "K") \/ IsB(t, "B")
IsZB(t) == IsB(t, "Z") \/ IsB(t, "B")
IsPrim(t) == "b" \in DOMAIN t /\ t.b \in {"Z", "K", "B", "W", "C", "T"}
IsVar(t) == IsB(t, "V")

R(t, bad) == [t |-> t, bad |-> bad]
Quiet(t) == R(t, {})
\* an error is only reported where the operands themselves are fine (one fault, one report; any report makes the program ill-formed)
Need(cond, operands, rule) == IF cond \/ \E i \in 1..Len(operands) : IsErr(operands[i]) THEN {} ELSE {rule}

(* ---- scopes ---- *)
Hits(sc, n) == {i \in 1..Len(sc) : \E j \in 1..Len(sc[i]) : sc[i][j].n = n}
Declared(sc, n) == Hits(sc, n) # {}
InInnermost(sc, n) == Len(sc) \in Hits(sc, n)
LookupVar(sc, n) == LET i == CHOOSE i \in Hits(sc, n) : \A k \in Hits(sc, n) : k <= i
                        j == CHOOSE j \in 1..Len(sc[i]) : sc[i][j].n = n /\ \A k \in 1..Len(sc[i]) : sc[i][k].n = n => k <= j
                    IN  sc[i][j]
Push(sc) == Append(sc, <<>>)
Declare(sc, v) == [sc EXCEPT ![Len(sc)] = Append(@, v)]
Var(n, t, c) == [n |-> n, t |-> N(t), c |-> c, vis |-> TRUE]

(* ---- program tables ---- *)
HasFunc(P, n) == \E i \in 1..Len(P.funcs) : P.funcs[i].n = n
Func(P, n) == P.funcs[CHOOSE i \in 1..Len(P.funcs) : P.funcs[i].n = n]
HasStruct(P, n) == \E i \in 1..Len(P.structs) : P.structs[i].n = n
Struct(P, n) == P.structs[CHOOSE i \in 1..Len(P.structs) : P.structs[i].n = n]
HasField(sd, f) == \E i \in 1..Len(sd.fields) : sd.fields[i].n = f
Field(sd, f) == sd.fields[CHOOSE i \in 1..Len(sd.fields) : sd.fields[i].n = f]
\* a type is usable in the main module iff every Kombination in it is its own or a public one
RECURSIVE TypeVisible(_, _)
TypeVisible(P, t) == IF IsList(t) THEN TypeVisible(P, t.l)
                     ELSE IF "a" \in DOMAIN t \/ "d" \in DOMAIN t THEN TypeVisible(P, t.of)
                     ELSE IF IsStruct(t) THEN HasStruct(P, t.s) /\ (~Struct(P, t.s).foreign \/ Struct(P, t.s).pub)
                     ELSE TRUE
TypeRule(P, t) == IF TypeVisible(P, t) THEN {} ELSE {"nonpublic"}

(* ---- literals ---- *)
LitType(v) == IF v.k = "L" THEN [l |-> N(v.et)] ELSE TB(v.k)

(* ---- operators: the result type and the admissible operands (src/parser/typechecker: VisitUnaryExpr / VisitBinaryExpr / VisitTernaryExpr) ---- *)
UnType(op, r) ==
    CASE op \in {"neg", "abs"} -> R(IF IsB(r, "B") THEN TB("Z") ELSE IF IsNum(r) THEN r ELSE ERR, Need(IsNum(r), <<r>>, "type:operand"))
      [] op = "not"            -> R(TB("W"), Need(IsB(r, "W"), <<r>>, "type:operand"))
      [] op = "lnot"           -> R(IF IsZB(r) THEN r ELSE ERR, Need(IsZB(r), <<r>>, "type:operand"))
      [] op = "len"            -> R(TB("Z"), Need(IsList(r) \/ IsB(r, "T"), <<r>>, "type:operand"))
      [] OTHER                 -> R(ERR, {"unknown-operator"})
Arith(l, r) == IF IsB(l, "Z") /\ IsB(r, "Z") THEN TB("Z") ELSE IF IsB(l, "B") /\ IsB(r, "B") THEN TB("B") ELSE IF IsB(l, "K") \/ IsB(r, "K") THEN TB("K") ELSE TB("Z")
ElemOf(t) == IF IsList(t) THEN t.l ELSE IF IsB(t, "T") THEN TB("C") ELSE ERR
BinType(op, l, r) ==
    CASE op \in {"plus", "minus", "mal"} -> R(IF IsNum(l) /\ IsNum(r) THEN Arith(l, r) ELSE ERR, Need(IsNum(l) /\ IsNum(r), <<l, r>>, "type:operand"))
      [] op \in {"durch", "pow"} -> R(TB("K"), Need(IsNum(l) /\ IsNum(r), <<l, r>>, "type:operand"))
      [] op \in {"mod", "band", "bor", "bxor"} -> R(IF IsB(l, "Z") \/ IsB(r, "Z") THEN TB("Z") ELSE TB("B"), Need(IsZB(l) /\ IsZB(r), <<l, r>>, "type:operand"))
      [] op \in {"shl", "shr"} -> R(IF IsZB(l) THEN l ELSE ERR, Need(IsZB(l) /\ IsZB(r), <<l, r>>, "type:operand"))
      [] op \in {"and", "or", "xor"} -> R(TB("W"), Need(IsB(l, "W") /\ IsB(r, "W"), <<l, r>>, "type:operand"))
      [] op \in {"eq", "ne"} -> R(TB("W"), Need(l = r, <<l, r>>, "type:operand"))
      [] op \in {"lt", "le", "gt", "ge"} -> R(TB("W"), Need(IsNum(l) /\ IsNum(r), <<l, r>>, "type:operand"))
      [] op = "cat" -> IF ~IsList(l) /\ ~IsList(r) /\ (IsB(l, "T") \/ IsB(r, "T"))
                       THEN R(TB("T"), Need((IsB(l, "T") \/ IsB(l, "C")) /\ (IsB(r, "T") \/ IsB(r, "C")), <<l, r>>, "type:operand"))
                       ELSE LET el == IF IsList(l) THEN l.l ELSE l
                                er == IF IsList(r) THEN r.l ELSE r
                            IN  R(IF el = er THEN [l |-> el] ELSE ERR, Need(el = er, <<l, r>>, "type:operand"))
      [] op = "idx" -> R(ElemOf(l), Need(IsList(l) \/ IsB(l, "T"), <<l>>, "type:operand") \cup Need(IsZB(r), <<r>>, "type:index"))
      [] op \in {"sfrom", "sto"} -> R(IF IsList(l) \/ IsB(l, "T") THEN l ELSE ERR, Need(IsList(l) \/ IsB(l, "T"), <<l>>, "type:operand") \cup Need(IsZB(r), <<r>>, "type:index"))
      [] OTHER -> R(ERR, {"unknown-operator"})
TerType(op, l, m, r) ==
    CASE op = "slice" -> R(IF IsList(l) \/ IsB(l, "T") THEN l ELSE ERR, Need(IsList(l) \/ IsB(l, "T"), <<l>>, "type:operand") \cup Need(IsZB(m), <<m>>, "type:index") \cup Need(IsZB(r), <<r>>, "type:index"))
      [] op = "between" -> R(TB("W"), Need(IsNum(l), <<l>>, "type:operand") \cup Need(IsNum(m), <<m>>, "type:operand") \cup Need(IsNum(r), <<r>>, "type:operand"))
      [] op = "falls" -> R(l, Need(l = r, <<l, r>>, "type:operand") \cup Need(IsB(m, "W"), <<m>>, "type:cond"))
      [] OTHER -> R(ERR, {"unknown-operator"})
CastOK(from, to) ==
    IF IsVar(from) \/ (IsVar(to) /\ ~IsB(from, "none")) THEN TRUE
    ELSE IF IsDef(to) /\ IsDef(from) THEN from.of = to \/ to.of = from          \* a type definition converts only to / from its underlying type
    ELSE IF IsDef(to) THEN from = to.of
    ELSE IF IsDef(from) THEN to = from.of
    ELSE IF IsList(to) THEN from = to.l                           \* a value becomes the one-element list of its own type
    ELSE IF IsB(to, "Z") \/ IsB(to, "T") THEN IsPrim(from)
    ELSE IF IsB(to, "K") THEN IsPrim(from) /\ from.b \in {"T", "Z", "K", "B"}
    ELSE IF IsB(to, "B") THEN IsPrim(from) /\ from.b \in {"Z", "K", "B"}
    ELSE IF IsB(to, "W") THEN IsPrim(from) /\ from.b \in {"Z", "W", "B"}
    ELSE IF IsB(to, "C") THEN IsPrim(from) /\ from.b \in {"Z", "C", "B"}
    ELSE FALSE
\* assignment compatibility (declarations, Speichere): equal types, anything into a Variable, numbers convert
Assignable(target, val) == target = val \/ (IsVar(target) /\ ~IsB(val, "none")) \/ (IsNum(target) /\ IsNum(val))
Returnable(ret, val) == ret = val \/ (IsVar(ret) /\ ~IsB(val, "none"))

(* ---- expressions ---- *)
RECURSIVE TE(_, _, _), TLV(_, _, _), TArgs(_, _, _, _, _), TNew(_, _, _, _, _), TList(_, _, _, _, _)
\* an assignable: [t, bad, c : is (rooted in) a Konstante]
LV(t, bad, c) == [t |-> t, bad |-> bad, c |-> c]
TLV(P, sc, lv) ==
    IF lv.k = "id" THEN
        IF ~Declared(sc, lv.n) THEN LV(ERR, {"undeclared"}, FALSE)
        ELSE LET v == LookupVar(sc, lv.n) IN LV(N(v.t), IF v.vis THEN {} ELSE {"nonpublic"}, v.c)
    ELSE IF lv.k = "idx" THEN
        LET b == TLV(P, sc, lv.l)
            i == TE(P, sc, lv.i)
        IN  LV(ElemOf(b.t), b.bad \cup i.bad \cup Need(IsList(b.t) \/ IsB(b.t, "T"), <<b.t>>, "type:operand") \cup Need(IsZB(i.t), <<i.t>>, "type:index"), b.c)
    ELSE IF lv.k = "fld" THEN
        LET b == TLV(P, sc, lv.l)
        IN  IF IsErr(b.t) THEN LV(ERR, b.bad, b.c)
            ELSE IF ~IsStruct(b.t) \/ ~HasStruct(P, b.t.s) \/ ~HasField(Struct(P, b.t.s), lv.f) THEN LV(ERR, b.bad \cup {"type:operand"}, b.c)
            ELSE LET sd == Struct(P, b.t.s)
                     fd == Field(sd, lv.f)
                 IN  LV(N(fd.t), b.bad \cup (IF sd.foreign /\ ~fd.pub THEN {"nonpublic"} ELSE {}), b.c)
    ELSE LV(ERR, {"not-assignable"}, FALSE)
IsLValueShape(e) == e.k = "id" \/ (e.k = "idx" /\ "l" \in DOMAIN e /\ "i" \in DOMAIN e) \/ (e.k = "fld" /\ "l" \in DOMAIN e)
TArgs(P, sc, fd, args, i) ==       \* the arguments of a call, by parameter
    IF i > Len(fd.params) THEN {}
    ELSE LET p == fd.params[i]
             has == \E j \in 1..Len(args) : args[j].p = p.n
         IN  (IF ~has THEN {"type:argument"}
              ELSE LET a == args[CHOOSE j \in 1..Len(args) : args[j].p = p.n].e
                   IN  IF p.ref
                       THEN IF ~IsLValueShape(a) THEN {"type:argument"}
                            ELSE LET l == TLV(P, sc, a)
                                 IN  l.bad \cup (IF l.c THEN {"const"} ELSE {}) \cup Need(l.t = N(p.t), <<l.t>>, "type:argument")
                                     \cup (IF a.k = "idx" /\ IsB(N(p.t), "C") /\ IsB(TLV(P, sc, a.l).t, "T") THEN {"type:argument"} ELSE {})
                       ELSE LET r == TE(P, sc, a) IN r.bad \cup Need(r.t = N(p.t), <<r.t>>, "type:argument"))
             \cup TArgs(P, sc, fd, args, i + 1)
TNew(P, sc, sd, args, i) ==
    IF i > Len(args) THEN {}
    ELSE LET a == args[i]
             r == TE(P, sc, a.e)
         IN  (IF ~HasField(sd, a.p) THEN r.bad \cup {"type:argument"}
              ELSE r.bad \cup Need(r.t = N(Field(sd, a.p).t), <<r.t>>, "type:argument") \cup (IF sd.foreign /\ ~Field(sd, a.p).pub THEN {"nonpublic"} ELSE {}))
             \cup TNew(P, sc, sd, args, i + 1)
TList(P, sc, vals, first, i) ==
    IF i > Len(vals) THEN {}
    ELSE LET r == TE(P, sc, vals[i]) IN r.bad \cup Need(r.t = first, <<r.t, first>>, "type:operand") \cup TList(P, sc, vals, first, i + 1)
TE(P, sc, e) ==
    IF e.k = "lit" THEN Quiet(LitType(e.v))
    ELSE IF e.k = "id" THEN
        (IF ~Declared(sc, e.n) THEN R(ERR, {"undeclared"})
         ELSE LET v == LookupVar(sc, e.n) IN R(N(v.t), IF v.vis THEN {} ELSE {"nonpublic"}))
    ELSE IF e.k = "un" THEN
        (LET r == TE(P, sc, e.r)
             u == UnType(e.op, r.t)
         IN  R(IF IsErr(r.t) THEN ERR ELSE u.t, r.bad \cup u.bad))
    ELSE IF e.k = "bin" THEN
        (LET l == TE(P, sc, e.l)
             r == TE(P, sc, e.r)
             u == BinType(e.op, l.t, r.t)
         IN  R(IF IsErr(l.t) \/ IsErr(r.t) THEN ERR ELSE u.t, l.bad \cup r.bad \cup u.bad))
    ELSE IF e.k = "ter" THEN
        (LET l == TE(P, sc, e.l)
             m == TE(P, sc, e.m)
             r == TE(P, sc, e.r)
             u == TerType(e.op, l.t, m.t, r.t)
         IN  R(IF IsErr(l.t) \/ IsErr(m.t) \/ IsErr(r.t) THEN ERR ELSE u.t, l.bad \cup m.bad \cup r.bad \cup u.bad))
    ELSE IF e.k = "fld" THEN
        (IF "l" \in DOMAIN e THEN LET l == TLV(P, sc, e) IN R(l.t, l.bad)
         ELSE LET b == TE(P, sc, e.e)
              IN  IF IsErr(b.t) THEN R(ERR, b.bad)
                  ELSE IF ~IsStruct(b.t) \/ ~HasStruct(P, b.t.s) \/ ~HasField(Struct(P, b.t.s), e.f) THEN R(ERR, b.bad \cup {"type:operand"})
                  ELSE LET sd == Struct(P, b.t.s)
                           fd == Field(sd, e.f)
                       IN  R(N(fd.t), b.bad \cup (IF sd.foreign /\ ~fd.pub THEN {"nonpublic"} ELSE {})))
    ELSE IF e.k = "idx" THEN (LET l == TLV(P, sc, e) IN R(l.t, l.bad))
    ELSE IF e.k = "cast" THEN
        (LET l == TE(P, sc, e.l) IN R(N(e.to), l.bad \cup Need(CastOK(l.t, N(e.to)), <<l.t>>, "type:operand") \cup TypeRule(P, e.to)))
    ELSE IF e.k = "tchk" THEN
        (LET l == TE(P, sc, e.l) IN R(TB("W"), l.bad \cup Need(IsVar(l.t), <<l.t>>, "type:operand") \cup (IF IsVar(N(e.t)) THEN {"type:operand"} ELSE {}) \cup TypeRule(P, e.t)))
    ELSE IF e.k = "std" THEN R(N(e.t), TypeRule(P, e.t))
    ELSE IF e.k = "size" THEN R(TB("Z"), TypeRule(P, e.t))      \* die Größe von <Typ> is a Zahl
    ELSE IF e.k = "list" THEN
        (IF e.vals = <<>> THEN R([l |-> N(e.et)], TypeRule(P, e.et))
         ELSE LET f == TE(P, sc, e.vals[1]) IN R(IF IsErr(f.t) THEN ERR ELSE [l |-> f.t], f.bad \cup TList(P, sc, e.vals, f.t, 2)))
    ELSE IF e.k = "fill" THEN
        (LET n == TE(P, sc, e.n)
             v == TE(P, sc, e.v)
         IN  R(IF IsErr(v.t) THEN ERR ELSE [l |-> v.t], n.bad \cup v.bad \cup Need(IsZB(n.t), <<n.t>>, "type:bound")))
    ELSE IF e.k = "call" THEN
        (IF ~HasFunc(P, e.f) THEN R(ERR, {"undeclared"})
         ELSE LET fd == Func(P, e.f)
              IN  R(N(fd.ret), (IF fd.foreign /\ ~fd.pub THEN {"nonpublic"} ELSE {}) \cup TArgs(P, sc, fd, e.args, 1)))
    ELSE IF e.k = "new" THEN
        (IF ~HasStruct(P, e.s) THEN R(ERR, {"undeclared"})
         ELSE LET sd == Struct(P, e.s)
              IN  R([s |-> e.s], (IF sd.foreign /\ ~sd.pub THEN {"nonpublic"} ELSE {}) \cup TNew(P, sc, sd, e.args, 1)))
    ELSE IF e.k = "chain" THEN TE(P, sc, Tree(e.items))
    ELSE IF e.k = "wenn" THEN (LET c == TE(P, sc, e.c) IN R(TB("W"), c.bad \cup Need(IsB(c.t, "W"), <<c.t>>, "type:cond")))
    ELSE IF e.k = "none" THEN Quiet(NONE)
    ELSE R(ERR, {"unknown-expression"})

(* ---- statements ---- *)
Ctx(sc, loop, ret, infunc) == [sc |-> sc, loop |-> loop, ret |-> ret, infunc |-> infunc]
X(ctx, bad) == [ctx |-> ctx, bad |-> bad]
ArticleRule(s) == IF "art" \in DOMAIN s /\ ~s.art THEN {"article"} ELSE {}
Printable(t) == IsPrim(t) \/ (IsList(t) /\ IsPrim(t.l))      \* Duden/Ausgabe: Schreibe <p1> [auf eine Zeile] for the six printable types and their lists
IsConstS(s) == "c" \in DOMAIN s /\ s.c
RECURSIVE CS(_, _, _), CSeq(_, _, _, _), CBody(_, _, _)
\* a body in a scope of its own with the given pre-declared variables; the context after it is the one before it
CBody(P, ctx, pre_body) ==
    LET inner == [ctx EXCEPT !.sc = Append(ctx.sc, pre_body.pre), !.loop = ctx.loop + pre_body.loops]
    IN  CSeq(P, inner, pre_body.body, 1).bad
Body(pre, body, loops) == [pre |-> pre, body |-> body, loops |-> loops]
CSeq(P, ctx, ss, i) ==
    IF i > Len(ss) THEN X(ctx, {})
    ELSE LET a == CS(P, ctx, ss[i])
             b == CSeq(P, a.ctx, ss, i + 1)
         IN  X(b.ctx, a.bad \cup b.bad)
CS(P, ctx, s) ==
    IF s.k = "setis" THEN CS(P, ctx, [k |-> "set", lv |-> s.lv, e |-> s.e])
    ELSE IF s.k = "var" THEN
        (LET init == TE(P, ctx.sc, s.e)
             dup == InInnermost(ctx.sc, s.n)
         IN  X([ctx EXCEPT !.sc = Declare(ctx.sc, Var(s.n, s.t, IsConstS(s)))],
               init.bad \cup Need(Assignable(N(s.t), init.t), <<init.t>>, "type:init") \cup (IF dup THEN {"redeclared"} ELSE {}) \cup ArticleRule(s) \cup TypeRule(P, s.t)
               \cup (IF IsConstS(s) /\ s.e.k # "lit" THEN {"const-not-literal"} ELSE {})))
    ELSE IF s.k = "set" THEN
        (LET l == TLV(P, ctx.sc, s.lv)
             r == TE(P, ctx.sc, s.e)
         IN  X(ctx, l.bad \cup r.bad \cup (IF l.c THEN {"const"} ELSE {}) \cup Need(Assignable(l.t, r.t), <<l.t, r.t>>, "type:assign")))
    ELSE IF s.k = "cset" THEN       \* compound assignment: the rule of its expansion  Speichere (x op e) in x
        (LET l == TLV(P, ctx.sc, s.lv)
             r == TE(P, ctx.sc, s.e)
             u == IF s.op = "neg" THEN (IF IsB(l.t, "W") THEN UnType("not", l.t) ELSE UnType("neg", l.t)) ELSE BinType(s.op, l.t, r.t)
             t == IF IsErr(l.t) \/ IsErr(r.t) THEN ERR ELSE u.t
         IN  X(ctx, l.bad \cup r.bad \cup u.bad \cup (IF l.c THEN {"const"} ELSE {}) \cup Need(Assignable(l.t, t), <<l.t, t>>, "type:assign")))
    ELSE IF s.k = "print" THEN (LET r == TE(P, ctx.sc, s.e) IN X(ctx, r.bad \cup Need(Printable(r.t), <<r.t>>, "type:argument")))
    ELSE IF s.k = "expr" THEN X(ctx, TE(P, ctx.sc, s.e).bad)
    ELSE IF s.k = "if" THEN
        (LET c == TE(P, ctx.sc, s.c)
         IN  X(ctx, c.bad \cup Need(IsB(c.t, "W"), <<c.t>>, "type:cond") \cup CBody(P, ctx, Body(<<>>, s.then, 0)) \cup CBody(P, ctx, Body(<<>>, s.else, 0))))
    ELSE IF s.k \in {"while", "dowhile"} THEN
        (LET c == TE(P, ctx.sc, s.c)
         IN  X(ctx, c.bad \cup Need(IsB(c.t, "W"), <<c.t>>, "type:cond") \cup CBody(P, ctx, Body(<<>>, s.body, 1))))
    ELSE IF s.k = "repeat" THEN
        (LET n == TE(P, ctx.sc, s.n)
         IN  X(ctx, n.bad \cup Need(IsZB(n.t), <<n.t>>, "type:bound") \cup CBody(P, ctx, Body(<<>>, s.body, 1))))
    ELSE IF s.k = "for" THEN
        (LET f == TE(P, ctx.sc, s.from)
             t == TE(P, ctx.sc, s.to)
             st == TE(P, ctx.sc, s.step)
         IN  X(ctx, f.bad \cup t.bad \cup st.bad \cup Need(IsNum(N(s.t)), <<>>, "type:bound") \cup Need(Assignable(N(s.t), f.t), <<f.t>>, "type:bound")
                    \cup Need(IsNum(t.t), <<t.t>>, "type:bound") \cup Need(IsNum(st.t) \/ IsB(st.t, "none"), <<st.t>>, "type:bound") \cup ArticleRule(s)
                    \cup CBody(P, ctx, Body(<<Var(s.v, s.t, FALSE)>>, s.body, 1))))
    ELSE IF s.k = "foreach" THEN
        (LET c == TE(P, ctx.sc, s.in)
             pre == <<Var(s.v, s.t, FALSE)>> \o (IF s.idx = "" THEN <<>> ELSE <<Var(s.idx, TB("Z"), FALSE)>>)
         IN  X(ctx, c.bad \cup Need(IsList(c.t) \/ IsB(c.t, "T"), <<c.t>>, "type:bound") \cup Need(~(IsList(c.t) \/ IsB(c.t, "T")) \/ ElemOf(c.t) = N(s.t), <<c.t>>, "type:bound")
                    \cup ArticleRule(s) \cup TypeRule(P, s.t) \cup CBody(P, ctx, Body(pre, s.body, 1))))
    ELSE IF s.k \in {"break", "continue"} THEN X(ctx, IF ctx.loop = 0 THEN {"loop"} ELSE {})
    ELSE IF s.k = "ret" THEN
        (LET r == TE(P, ctx.sc, s.e)
         IN  X(ctx, r.bad \cup (IF ctx.infunc THEN Need(Returnable(ctx.ret, r.t), <<r.t>>, "type:return") ELSE {})))
    ELSE IF s.k = "todo" THEN X(ctx, {})
    ELSE IF s.k = "block" THEN X(ctx, CBody(P, ctx, Body(<<>>, s.body, 0)))
    ELSE X(ctx, {"unknown-statement"})

(* ---- declarations and the program ---- *)
ParamVars(fd) == [i \in 1..Len(fd.params) |-> Var(fd.params[i].n, fd.params[i].t, FALSE)]
FinalReturn(fd) == IsB(fd.ret, "none") \/ (fd.body # <<>> /\ fd.body[Len(fd.body)].k \in {"ret", "todo"})
DupParams(fd) == \E i, j \in 1..Len(fd.params) : i < j /\ fd.params[i].n = fd.params[j].n
CheckFunc(P, gsc, fd) ==
    IF fd.foreign THEN {}
    ELSE CSeq(P, Ctx(Append(gsc, ParamVars(fd)), 0, N(fd.ret), TRUE), fd.body, 1).bad
         \cup (IF FinalReturn(fd) THEN {} ELSE {"missing-return"})
         \cup (IF DupParams(fd) THEN {"redeclared"} ELSE {})
         \cup (IF "retart" \in DOMAIN fd /\ ~fd.retart THEN {"article"} ELSE {})
         \cup UNION {TypeRule(P, fd.params[i].t) : i \in 1..Len(fd.params)} \cup TypeRule(P, fd.ret)
DupDecls(P) == (\E i, j \in 1..Len(P.funcs) : i < j /\ P.funcs[i].n = P.funcs[j].n /\ ~P.funcs[i].foreign /\ ~P.funcs[j].foreign)
               \/ (\E i, j \in 1..Len(P.structs) : i < j /\ P.structs[i].n = P.structs[j].n /\ ~P.structs[i].foreign /\ ~P.structs[j].foreign)
StructRules(P) == UNION {UNION {TypeRule(P, P.structs[i].fields[j].t) \cup (IF "art" \in DOMAIN P.structs[i].fields[j] /\ ~P.structs[i].fields[j].art THEN {"article"} ELSE {})
                                : j \in 1..Len(P.structs[i].fields)} : i \in {k \in 1..Len(P.structs) : ~P.structs[k].foreign}}
Violations(P) ==
    LET g0 == Ctx(<<P.globals>>, 0, NONE, FALSE)
        early == CSeq(P, g0, SubSeq(P.main, 1, P.nearly), 1)
        rest == CSeq(P, early.ctx, SubSeq(P.main, P.nearly + 1, Len(P.main)), 1)
    IN  early.bad \cup rest.bad \cup UNION {CheckFunc(P, early.ctx.sc, P.funcs[i]) : i \in 1..Len(P.funcs)}
        \cup (IF DupDecls(P) THEN {"redeclared"} ELSE {}) \cup StructRules(P)
WellFormed(P) == Violations(P) = {}
=============================================================================
