----------------------------- MODULE Precedence -----------------------------
(* The precedence ladder of DDP's infix operators (src/parser/expressions.go: boolOR > boolAND > bitwiseOR > bitwiseXOR > bitwiseAND >
   equality > comparison > term > factor > unary, every binary rung left-associative).  A `chain` expression is a flat sequence
   <<operand, [o |-> op], operand, [o |-> op], operand, ...>> written WITHOUT parentheses (prefix operators "not" / "neg" may precede an operand);
   Tree(items) is the expression tree the language assigns to it.  DDPSem evaluates a chain as its tree.                              *)
EXTENDS Integers, Sequences

Prec(op) == CASE op = "or" -> 2 [] op = "and" -> 3 [] op = "bor" -> 4 [] op = "bxor" -> 5 [] op = "band" -> 6
              [] op \in {"eq", "ne"} -> 7 [] op \in {"lt", "le", "gt", "ge"} -> 8
              [] op \in {"plus", "minus", "cat"} -> 10 [] op \in {"mal", "durch", "mod"} -> 11
              [] OTHER -> 0
IsTok(x) == "o" \in DOMAIN x          \* operators are records [o |-> name], operands are expression records (field k)
IsOp(x) == IsTok(x) /\ Prec(x.o) > 0
IsPrefixOp(x) == IsTok(x) /\ x.o \in {"not", "neg"}
Bin(op, l, r) == [k |-> "bin", op |-> op, l |-> l, r |-> r]
Un(op, r) == [k |-> "un", op |-> op, r |-> r]

\* precedence climbing; a parse result is [e : tree, i : index of the next unread item]
RECURSIVE ParseUnary(_, _), ParseLevel(_, _, _), Loop(_, _, _, _)
ParseUnary(items, i) ==
    IF IsPrefixOp(items[i]) THEN LET r == ParseUnary(items, i + 1) IN [e |-> Un(items[i].o, r.e), i |-> r.i]
    ELSE [e |-> items[i], i |-> i + 1]
\* the operands of a rung are expressions of the next higher rung; operators of the same rung associate to the left
Loop(items, lhs, i, min) ==
    IF i > Len(items) \/ ~IsOp(items[i]) \/ Prec(items[i].o) < min THEN [e |-> lhs, i |-> i]
    ELSE LET op == items[i].o
             r == ParseLevel(items, i + 1, Prec(op) + 1)
         IN  Loop(items, Bin(op, lhs, r.e), r.i, min)
ParseLevel(items, i, min) ==
    LET u == ParseUnary(items, i) IN Loop(items, u.e, u.i, min)
Tree(items) == ParseLevel(items, 1, 1).e
=============================================================================
