---------------------------- MODULE LiteralTrace ----------------------------
(* {"e":"lit","kind":k,"src":[cps],"accepted":bool,"out":[cps]}  - accepted: the frontend reported no error for
   `Schreibe <literal>.`; out: what the compiled program printed (empty when not accepted)
   {"e":"ctx","kind":k,"src":[cps],"ctx":position,"accepted":bool}  - the literal in another position                *)
EXTENDS Literals, TLC, Json
CONSTANTS TraceFile, DecSep
VARIABLES l, bad, nunspec
Trace == ndJsonDeserialize(TraceFile)
Init == l = 1 /\ bad = {} /\ nunspec = 0
Lit == /\ Trace[l].e = "lit"
       /\ LET ev == Trace[l]
              d == Denote(ev.kind, ev.src, DecSep)
              good == ~d.spec \/ (ev.accepted = d.ok /\ (d.ok => ev.out = d.out))
          IN  /\ bad' = IF good THEN bad ELSE bad \cup {l}
              /\ nunspec' = nunspec + (IF d.spec THEN 0 ELSE 1)
\* the same literal in another syntactic position (repetition count, loop bound, index, default value, ...): a literal that denotes
\* no value is rejected wherever it stands
Ctx == /\ Trace[l].e = "ctx"
       /\ LET ev == Trace[l]
              d == Denote(ev.kind, ev.src, DecSep)
              good == ~d.spec \/ d.ok \/ ~ev.accepted
          IN  /\ bad' = IF good THEN bad ELSE bad \cup {l}
              /\ nunspec' = nunspec + (IF d.spec THEN 0 ELSE 1)
Next == l <= Len(Trace) /\ l' = l + 1 /\ (Lit \/ Ctx)
Spec == Init /\ [][Next]_<<l, bad, nunspec>>
Done == l = Len(Trace) + 1
Report == Done => PrintT(<<"@@bad@@", bad>>) /\ PrintT(<<"@@unspec@@", nunspec>>) /\ PrintT(<<"@@lines@@", Len(Trace)>>)
Accepted == TLCGet("stats").diameter = Len(Trace) + 1
=============================================================================
