----------------------------- MODULE ParseTrace -----------------------------
(* Pattern T (monitor): the tree the REAL parser builds for an unparenthesised operator chain must be the tree Precedence!Tree
   assigns to the same sequence of operands and operators.
   {"e":"chain","id":..,"items":[operand | {"o":op} ...],"tree": expression exported from the real parser (harness/go/cmd/astx)}
   Operands are identifiers; the comparison looks at the shape only: operator nodes, their order and nesting, the operand names. *)
EXTENDS Precedence, TLC, Json
CONSTANT TraceFile
VARIABLES l, bad
Trace == ndJsonDeserialize(TraceFile)
RECURSIVE Shape(_)
Shape(e) == CASE e.k = "bin" -> <<"bin", e.op, Shape(e.l), Shape(e.r)>>
              [] e.k = "un" -> <<"un", e.op, Shape(e.r)>>
              [] e.k = "id" -> <<"id", e.n>>
              [] OTHER -> <<"other", e.k>>
Init == l = 1 /\ bad = {}
Next == /\ l <= Len(Trace) /\ l' = l + 1
        /\ LET ev == Trace[l]
               good == Shape(Tree(ev.items)) = Shape(ev.tree)
           IN  /\ bad' = IF good THEN bad ELSE bad \cup {l}
               /\ (IF good THEN TRUE ELSE PrintT(<<"@@exp@@", l, Shape(Tree(ev.items))>>))
Spec == Init /\ [][Next]_<<l, bad>>
Done == l = Len(Trace) + 1
Report == Done => PrintT(<<"@@bad@@", bad>>) /\ PrintT(<<"@@lines@@", Len(Trace)>>)
Accepted == TLCGet("stats").diameter = Len(Trace) + 1
=============================================================================
