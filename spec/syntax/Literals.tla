------------------------------ MODULE Literals ------------------------------
(* What a written literal denotes (C19).  A literal is given as the code points of its source text.
     Int   : digits                -> Zahl iff the number is <= 2^63 - 1, else rejected
     Dec   : digits , digits       -> Kommazahl (compared only when exactly representable in the dyadic fragment of DDPValues)
     Char  : ' body '              -> one code point; body = one character other than ' and \, or \ followed by one of a b n r t \ '
     Text  : " body "              -> code points; \ followed by one of a b n r t \ " is the escape, any other escape is rejected
   Denote(kind, src) = [ok : BOOLEAN, spec : BOOLEAN (specified?), out : code points `Schreibe <literal>` prints]         *)
EXTENDS DDPValues

Esc(c, quote) == CASE c = 97 -> 7 [] c = 98 -> 8 [] c = 110 -> 10 [] c = 114 -> 13 [] c = 116 -> 9 [] c = 92 -> 92 [] c = quote -> quote [] OTHER -> 0 - 1
Rej == [ok |-> FALSE, spec |-> TRUE, out |-> <<>>]
Acc(out) == [ok |-> TRUE, spec |-> TRUE, out |-> out]
Unspecified == [ok |-> TRUE, spec |-> FALSE, out |-> <<>>]

IntLit(ds) ==
    LET p == ParseDigits(ds, 1, [v |-> Zero, ovf |-> FALSE])
    IN  IF p.ovf \/ IsNeg(p.v) THEN Rej ELSE Acc(ToDec(p.v))

RECURSIVE Unescape(_, _, _)
Unescape(body, i, quote) ==      \* <<ok, cps>>
    IF i > Len(body) THEN <<TRUE, <<>>>>
    ELSE IF body[i] = 92 THEN
         IF i = Len(body) THEN <<FALSE, <<>>>>
         ELSE LET e == Esc(body[i + 1], quote)
                  r == Unescape(body, i + 2, quote)
              IN  IF e < 0 THEN <<FALSE, <<>>>> ELSE <<r[1], <<e>> \o r[2]>>
    ELSE LET r == Unescape(body, i + 1, quote) IN <<r[1], <<body[i]>> \o r[2]>>
TextLit(src) ==      \* src includes the quotes
    LET u == Unescape(SubSeq(src, 2, Len(src) - 1), 1, 34)
    IN  IF ~u[1] THEN Rej ELSE IF \E i \in 1..Len(u[2]) : u[2][i] = 0 THEN Unspecified ELSE Acc(u[2])
CharLit(src) ==
    LET body == SubSeq(src, 2, Len(src) - 1)
    IN  IF Len(body) = 1 THEN (IF body[1] \in {39, 92} THEN Rej ELSE Acc(body))
        ELSE IF Len(body) = 2 /\ body[1] = 92 THEN (IF Esc(body[2], 39) < 0 THEN Rej ELSE Acc(<<Esc(body[2], 39)>>))
        ELSE Rej

\* decimal literal  ip , fp : exact when  fp / 10^|fp|  is a multiple of 1/16 and the value is small
RECURSIVE DigitsVal(_, _, _)
DigitsVal(ds, i, acc) == IF i > Len(ds) THEN acc ELSE IF acc > 100000 THEN acc ELSE DigitsVal(ds, i + 1, acc * 10 + (ds[i] - 48))
Pow10(n) == 10 ^ n
DecLit(ip, fp, decsep) ==
    IF Len(ip) > 4 \/ Len(fp) > 4 THEN Unspecified
    ELSE LET a == DigitsVal(ip, 1, 0)
             b == DigitsVal(fp, 1, 0)
             d == Pow10(Len(fp))
         IN  IF (b * 16) % d # 0 THEN Unspecified
             ELSE LET v == KMake(a * 16 + (b * 16) \div d, 4) IN IF IsU(v) THEN Unspecified ELSE Acc(KToText(v, decsep))

Denote(kind, src, decsep) ==
    CASE kind = "int" -> IntLit(src)
      [] kind = "text" -> TextLit(src)
      [] kind = "char" -> CharLit(src)
      [] kind = "dec" -> LET c == CHOOSE i \in 1..Len(src) : src[i] = 44 IN DecLit(SubSeq(src, 1, c - 1), SubSeq(src, c + 1, Len(src)), decsep)
=============================================================================
