----------------------------- MODULE DudenTrace -----------------------------
(* {"e":"call","fn":name,"args":[values before],"res":value or "-","after":[values after],"rterr":bool}  - one call of a Duden function
   in a compiled driver program.  Inside the documented domain (Apply(...).def) the call must not fail and result and arguments
   afterwards must be the ones DudenSeq states; outside the domain nothing is compared.                                       *)
EXTENDS DudenSeq, TLC, Json
CONSTANT TraceFile
VARIABLES l, bad, nundef
Trace == ndJsonDeserialize(TraceFile)
Init == l = 1 /\ bad = {} /\ nundef = 0
SeqEq(x, y) == Len(x) = Len(y) /\ \A i \in 1..Len(x) : x[i] = y[i]
Call == /\ Trace[l].e = "call"
        /\ LET ev == Trace[l]
               ex == Apply(ev.fn, ev.args)
               resOK == CASE ev.fn \in Mutating -> TRUE
                          [] ev.fn = "sorted" -> IsSortedPerm(ev.res, ev.args[1])
                          [] ev.fn = "compare" -> Sign(ev.res) = ex.res
                          [] ev.fn = "findall" -> ev.res = ex.res \/ ev.res = NonOverlapIdx(ev.args[2], ev.args[1], 1)   \* "alle Indizes": overlapping or not is not stated
                          [] OTHER -> ev.res = ex.res
               afterOK == IF ev.fn = "sortref" THEN IsSortedPerm(ev.after[1], ev.args[1]) ELSE ev.after = ex.after
               good == ~ex.def \/ (~ev.rterr /\ resOK /\ afterOK)
           IN  /\ bad' = IF good THEN bad ELSE bad \cup {l}
               /\ nundef' = nundef + (IF ex.def THEN 0 ELSE 1)
Next == l <= Len(Trace) /\ l' = l + 1 /\ Call
Spec == Init /\ [][Next]_<<l, bad, nundef>>
Done == l = Len(Trace) + 1
Report == Done => PrintT(<<"@@bad@@", bad>>) /\ PrintT(<<"@@undef@@", nundef>>) /\ PrintT(<<"@@lines@@", Len(Trace)>>)
Accepted == TLCGet("stats").diameter = Len(Trace) + 1
=============================================================================
