------------------------------ MODULE DudenSeq ------------------------------
(* The mathematical meaning of the covered Duden functions (lib/stdlib/Duden/Listen.ddp, Texte.ddp, Sortierung.ddp) on sequences.
   Values: Zahl = integer (small), Wahrheitswert = BOOLEAN, Buchstabe = code point, Text = sequence of code points,
   lists = sequences.  Apply(fn, args) = [def : in the documented domain?, res : result or "-", after : the arguments after the call]
   Functions taking a Referenz change exactly that argument; value arguments are unchanged.                                     *)
EXTENDS Integers, Sequences, FiniteSets, SequencesExt

Def(res, after) == [def |-> TRUE, res |-> res, after |-> after]
Undef == [def |-> FALSE, res |-> "-", after |-> <<>>]
InsertAt1(s, i, x) == SubSeq(s, 1, i - 1) \o x \o SubSeq(s, i, Len(s))         \* x (a sequence) before index i
IndexOf(s, x) == IF \E i \in 1..Len(s) : s[i] = x THEN CHOOSE i \in 1..Len(s) : s[i] = x /\ \A j \in 1..(i - 1) : s[j] # x ELSE 0 - 1
RECURSIVE SumSeq(_)
SumSeq(s) == IF s = <<>> THEN 0 ELSE Head(s) + SumSeq(Tail(s))
RECURSIVE ProdSeq(_)
ProdSeq(s) == IF s = <<>> THEN 1 ELSE Head(s) * ProdSeq(Tail(s))
RECURSIVE Flatten(_)
Flatten(ss) == IF ss = <<>> THEN <<>> ELSE Head(ss) \o Flatten(Tail(ss))
IsSortedPerm(r, s) == /\ Len(r) = Len(s)
                      /\ \A i \in 1..(Len(r) - 1) : r[i] <= r[i + 1]
                      /\ \A x \in {s[i] : i \in 1..Len(s)} : Cardinality({i \in 1..Len(s) : s[i] = x}) = Cardinality({i \in 1..Len(r) : r[i] = x})
OccursAt(t, n, i) == i + Len(n) - 1 <= Len(t) /\ SubSeq(t, i, i + Len(n) - 1) = n
Occurrences(t, n) == {i \in 1..Len(t) : OccursAt(t, n, i)}
RECURSIVE CountNonOverlap(_, _, _)
CountNonOverlap(t, n, i) == IF i + Len(n) - 1 > Len(t) THEN 0 ELSE IF OccursAt(t, n, i) THEN 1 + CountNonOverlap(t, n, i + Len(n)) ELSE CountNonOverlap(t, n, i + 1)
RECURSIVE SplitAt(_, _, _, _)
SplitAt(t, sep, i, cur) ==      \* split text t at every occurrence of the non-empty separator sep (scanning left to right, non-overlapping)
    IF i > Len(t) THEN <<cur>>
    ELSE IF OccursAt(t, sep, i) THEN <<cur>> \o SplitAt(t, sep, i + Len(sep), <<>>)
    ELSE SplitAt(t, sep, i + 1, Append(cur, t[i]))
RECURSIVE DropWhileFront(_, _)
DropWhileFront(t, c) == IF t # <<>> /\ Head(t) = c THEN DropWhileFront(Tail(t), c) ELSE t
RECURSIVE DropWhileBack(_, _)
DropWhileBack(t, c) == IF t # <<>> /\ t[Len(t)] = c THEN DropWhileBack(SubSeq(t, 1, Len(t) - 1), c) ELSE t
Upper(c) == IF (c >= 97 /\ c <= 122) \/ c \in {228, 246, 252} THEN c - 32 ELSE c
Lower(c) == IF (c >= 65 /\ c <= 90) \/ c \in {196, 214, 220} THEN c + 32 ELSE c
RECURSIVE JoinWith(_, _)
JoinWith(ts, c) == IF ts = <<>> THEN <<>> ELSE IF Len(ts) = 1 THEN ts[1] ELSE ts[1] \o <<c>> \o JoinWith(Tail(ts), c)
Min2(a, b) == IF a < b THEN a ELSE b
RECURSIVE Lev(_, _, _, _)
Lev(a, b, i, j) == IF i = 0 THEN j ELSE IF j = 0 THEN i
                   ELSE Min2(Min2(Lev(a, b, i - 1, j) + 1, Lev(a, b, i, j - 1) + 1), Lev(a, b, i - 1, j - 1) + (IF a[i] = b[j] THEN 0 ELSE 1))
Hamming(a, b) == Cardinality({i \in 1..Len(a) : a[i] # b[i]})
Sign(n) == IF n < 0 THEN 0 - 1 ELSE IF n > 0 THEN 1 ELSE 0
CompareText(a, b) ==      \* sign only: first differing code point, else the shorter text is smaller
    LET m == Min2(Len(a), Len(b))
        d == {i \in 1..m : a[i] # b[i]}
    IN  IF d # {} THEN LET i == CHOOSE i \in d : \A j \in d : i <= j IN Sign(a[i] - b[i]) ELSE Sign(Len(a) - Len(b))
RECURSIVE NatText(_)
NatText(n) == IF n < 10 THEN <<48 + n>> ELSE NatText(n \div 10) \o <<48 + (n % 10)>>
IntText(n) == IF n < 0 THEN <<45>> \o NatText(0 - n) ELSE NatText(n)

Mutating == {"append", "appendlist", "prepend", "prependlist", "insert", "insertrange", "delete", "deleterange", "fill", "clear", "sortref", "tappendtext", "tappendchar",
             "tprependtext", "tprependchar", "tinserttext", "tinsertchar", "tdelete", "tdeleterange", "tfill"}
(* ---- numbers (Duden/Mathe, Zahlen, Statistik) and characters (Duden/Zeichen); Zahl = small integer ---- *)
Max2(a, b) == IF a >= b THEN a ELSE b
RECURSIVE Gcd(_, _)
Gcd(a, b) == IF b = 0 THEN a ELSE Gcd(b, a % b)
IsPrime(n) == n >= 2 /\ \A d \in 2..(n - 1) : n % d # 0
RECURSIVE PrimeFactorsFrom(_, _)
PrimeFactorsFrom(n, d) == IF n < 2 THEN <<>> ELSE IF n % d = 0 THEN <<d>> \o PrimeFactorsFrom(n \div d, d) ELSE PrimeFactorsFrom(n, d + 1)
DivisorsDesc(n) == SetToSortSeq({d \in 1..n : n % d = 0}, LAMBDA x, y : x > y)
RECURSIVE Fact(_)
Fact(n) == IF n = 0 THEN 1 ELSE n * Fact(n - 1)
MaxOfSeq(s) == CHOOSE x \in {s[i] : i \in 1..Len(s)} : \A j \in 1..Len(s) : s[j] <= x
MinOfSeq(s) == CHOOSE x \in {s[i] : i \in 1..Len(s)} : \A j \in 1..Len(s) : s[j] >= x
HexVal(c) == IF c >= 48 /\ c <= 57 THEN c - 48 ELSE IF c >= 65 /\ c <= 70 THEN c - 55 ELSE IF c >= 97 /\ c <= 102 THEN c - 87 ELSE 0 - 1
RECURSIVE HexToNat(_, _)
HexToNat(t, acc) == IF t = <<>> THEN acc ELSE HexToNat(Tail(t), acc * 16 + HexVal(Head(t)))
HexDigit(d) == IF d < 10 THEN 48 + d ELSE 55 + d
RECURSIVE NatToHex(_)
NatToHex(n) == IF n < 16 THEN <<HexDigit(n)>> ELSE NatToHex(n \div 16) \o <<HexDigit(n % 16)>>
\* Latin-1 only ("es gibt noch viel mehr": beyond 255 nothing is documented)
IsUpperL1(c) == (c >= 65 /\ c <= 90) \/ (c >= 192 /\ c <= 214) \/ (c >= 216 /\ c <= 222)
IsLowerL1(c) == (c >= 97 /\ c <= 122) \/ (c >= 223 /\ c <= 246) \/ (c >= 248 /\ c <= 255)
IsLatin(c) == (c >= 65 /\ c <= 90) \/ (c >= 97 /\ c <= 122)
IsDigitC(c) == c >= 48 /\ c <= 57
IsGerman(c) == IsLatin(c) \/ c \in {196, 228, 214, 246, 220, 252, 223}

RECURSIVE NonOverlapIdx(_, _, _)
NonOverlapIdx(t, n, i) == IF i + Len(n) - 1 > Len(t) THEN <<>> ELSE IF OccursAt(t, n, i) THEN <<i>> \o NonOverlapIdx(t, n, i + Len(n)) ELSE NonOverlapIdx(t, n, i + 1)
Apply(fn, a) ==
    CASE fn = "append"       -> Def("-", <<Append(a[1], a[2]), a[2]>>)
      [] fn = "appendlist"   -> Def("-", <<a[1] \o a[2], a[2]>>)
      [] fn = "prepend"      -> Def("-", <<<<a[2]>> \o a[1], a[2]>>)
      [] fn = "prependlist"  -> Def("-", <<a[2] \o a[1], a[2]>>)
      [] fn = "insert"       -> IF a[2] >= 1 /\ a[2] <= Len(a[1]) THEN Def("-", <<InsertAt1(a[1], a[2], <<a[3]>>), a[2], a[3]>>) ELSE Undef
      [] fn = "insertrange"  -> IF a[2] >= 1 /\ a[2] <= Len(a[1]) THEN Def("-", <<InsertAt1(a[1], a[2], a[3]), a[2], a[3]>>) ELSE Undef
      [] fn = "delete"       -> IF a[2] >= 1 /\ a[2] <= Len(a[1]) THEN Def("-", <<SubSeq(a[1], 1, a[2] - 1) \o SubSeq(a[1], a[2] + 1, Len(a[1])), a[2]>>) ELSE Undef
      [] fn = "deleterange"  -> IF a[2] >= 1 /\ a[2] <= a[3] /\ a[3] <= Len(a[1]) THEN Def("-", <<SubSeq(a[1], 1, a[2] - 1) \o SubSeq(a[1], a[3] + 1, Len(a[1])), a[2], a[3]>>) ELSE Undef
      [] fn = "fill"         -> Def("-", <<[i \in 1..Len(a[1]) |-> a[2]], a[2]>>)
      [] fn = "clear"        -> Def("-", <<<<>>>>)
      [] fn \in {"indexof", "indexofref"} -> Def(IndexOf(a[1], a[2]), a)
      [] fn \in {"contains", "containsref"} -> Def(\E i \in 1..Len(a[1]) : a[1][i] = a[2], a)
      [] fn = "notcontains"  -> Def(~\E i \in 1..Len(a[1]) : a[1][i] = a[2], a)
      [] fn \in {"isempty", "isemptyref"} -> Def(a[1] = <<>>, a)
      [] fn \in {"firstn", "firstnref"} -> IF a[2] >= 1 /\ a[2] <= Len(a[1]) THEN Def(SubSeq(a[1], 1, a[2]), a) ELSE Undef
      [] fn \in {"lastn", "lastnref"} -> IF a[2] >= 1 /\ a[2] <= Len(a[1]) THEN Def(SubSeq(a[1], Len(a[1]) - a[2] + 1, Len(a[1])), a) ELSE Undef
      [] fn \in {"reversed", "reversedref"} -> Def(Reverse(a[1]), a)
      [] fn = "sum"          -> Def(SumSeq(a[1]), a)
      [] fn = "product"      -> Def(IF a[1] = <<>> THEN 0 ELSE ProdSeq(a[1]), a)
      [] fn \in {"eadd", "esub", "emul"} -> IF Len(a[1]) # Len(a[2]) THEN Undef
                                ELSE Def([i \in 1..Len(a[1]) |-> CASE fn = "eadd" -> a[1][i] + a[2][i] [] fn = "esub" -> a[1][i] - a[2][i] [] OTHER -> a[1][i] * a[2][i]], a)
      [] fn = "ascending"    -> IF a[1] <= a[2] THEN Def([i \in 1..(a[2] - a[1] + 1) |-> a[1] + i - 1], a) ELSE Undef
      [] fn = "descending"   -> IF a[1] >= a[2] THEN Def([i \in 1..(a[1] - a[2] + 1) |-> a[1] - i + 1], a) ELSE Undef
      [] fn \in {"joinchars", "jointexts"} -> Def(IF fn = "joinchars" THEN a[1] ELSE Flatten(a[1]), a)
      [] fn = "sorted"       -> Def("sorted-permutation", a)           \* checked with IsSortedPerm
      [] fn = "sortref"      -> Def("-", <<"sorted-permutation">>)
      \* texts
      [] fn = "firstchar"    -> IF a[1] # <<>> THEN Def(a[1][1], a) ELSE Undef
      [] fn = "lastchar"     -> IF a[1] # <<>> THEN Def(a[1][Len(a[1])], a) ELSE Undef
      [] fn = "nthchar"      -> IF a[1] >= 1 /\ a[1] <= Len(a[2]) THEN Def(a[2][a[1]], a) ELSE Undef
      [] fn = "trimstart"    -> Def(DropWhileFront(a[1], a[2]), a)
      [] fn = "trimend"      -> Def(DropWhileBack(a[1], a[2]), a)
      [] fn = "trim"         -> Def(DropWhileBack(DropWhileFront(a[1], a[2]), a[2]), a)
      [] fn = "containschar" -> Def(\E i \in 1..Len(a[1]) : a[1][i] = a[2], a)
      [] fn = "countchar"    -> Def(Cardinality({i \in 1..Len(a[1]) : a[1][i] = a[2]}), a)
      [] fn = "containstext" -> IF a[1] # <<>> /\ a[2] # <<>> THEN Def(Occurrences(a[1], a[2]) # {}, a) ELSE Undef
      [] fn = "counttext"    -> IF a[2] # <<>> THEN Def(Cardinality(Occurrences(a[1], a[2])), a) ELSE Undef
      [] fn = "counttextno"  -> IF a[2] # <<>> THEN Def(CountNonOverlap(a[1], a[2], 1), a) ELSE Undef
      [] fn = "startschar"   -> Def(a[2] # <<>> /\ a[2][1] = a[1], a)
      [] fn = "endschar"     -> Def(a[2] # <<>> /\ a[2][Len(a[2])] = a[1], a)
      [] fn = "startstext"   -> IF a[1] # <<>> /\ a[2] # <<>> THEN Def(OccursAt(a[2], a[1], 1), a) ELSE Undef
      [] fn = "endstext"     -> IF a[1] # <<>> /\ a[2] # <<>> THEN Def(Len(a[1]) <= Len(a[2]) /\ OccursAt(a[2], a[1], Len(a[2]) - Len(a[1]) + 1), a) ELSE Undef
      [] fn = "tappendtext"  -> Def("-", <<a[1] \o a[2], a[2]>>)
      [] fn = "tappendchar"  -> Def("-", <<Append(a[1], a[2]), a[2]>>)
      [] fn = "tprependtext" -> Def("-", <<a[2] \o a[1], a[2]>>)
      [] fn = "tprependchar" -> Def("-", <<<<a[2]>> \o a[1], a[2]>>)
      [] fn = "tinserttext"  -> IF a[2] >= 1 /\ a[2] <= Len(a[1]) THEN Def("-", <<InsertAt1(a[1], a[2], a[3]), a[2], a[3]>>) ELSE Undef
      [] fn = "tinsertchar"  -> IF a[2] >= 1 /\ a[2] <= Len(a[1]) THEN Def("-", <<InsertAt1(a[1], a[2], <<a[3]>>), a[2], a[3]>>) ELSE Undef
      [] fn = "tdelete"      -> IF a[2] >= 1 /\ a[2] <= Len(a[1]) THEN Def("-", <<SubSeq(a[1], 1, a[2] - 1) \o SubSeq(a[1], a[2] + 1, Len(a[1])), a[2]>>) ELSE Undef
      [] fn = "tdeleterange" -> IF a[2] >= 1 /\ a[2] <= a[3] /\ a[3] <= Len(a[1]) THEN Def("-", <<SubSeq(a[1], 1, a[2] - 1) \o SubSeq(a[1], a[3] + 1, Len(a[1])), a[2], a[3]>>) ELSE Undef
      [] fn = "tfill"        -> Def("-", <<[i \in 1..Len(a[1]) |-> a[2]], a[2]>>)
      [] fn = "chars"        -> Def(a[1], a)
      [] fn = "charsastexts" -> Def([i \in 1..Len(a[1]) |-> <<a[1][i]>>], a)
      [] fn = "tindexofchar" -> Def(IndexOf(a[1], a[2]), a)
      [] fn = "tindexoftext" -> IF a[1] # <<>> /\ a[2] # <<>> THEN Def(IF Occurrences(a[1], a[2]) = {} THEN 0 - 1 ELSE CHOOSE i \in Occurrences(a[1], a[2]) : \A j \in Occurrences(a[1], a[2]) : i <= j, a) ELSE Undef
      [] fn = "tisempty"     -> Def(a[1] = <<>>, a)
      [] fn = "upper"        -> Def([i \in 1..Len(a[1]) |-> Upper(a[1][i])], a)
      [] fn = "lower"        -> Def([i \in 1..Len(a[1]) |-> Lower(a[1][i])], a)
      [] fn = "padleft"      -> Def([i \in 1..(IF a[3] > Len(a[1]) THEN a[3] - Len(a[1]) ELSE 0) |-> a[2]] \o a[1], a)
      [] fn = "padright"     -> Def(a[1] \o [i \in 1..(IF a[3] > Len(a[1]) THEN a[3] - Len(a[1]) ELSE 0) |-> a[2]], a)
      [] fn = "splitchar"    -> IF a[1] # <<>> THEN Def(SplitAt(a[1], <<a[2]>>, 1, <<>>), a) ELSE Undef      \* the empty text: not documented (the code answers the empty list)
      [] fn = "splittext"    -> IF a[2] # <<>> /\ a[1] # <<>> THEN Def(SplitAt(a[1], a[2], 1, <<>>), a) ELSE Undef
      [] fn = "findall"      -> IF a[2] # <<>> /\ a[1] # <<>> THEN Def(SetToSortSeq(Occurrences(a[2], a[1]), LAMBDA x, y : x < y), a) ELSE Undef
      [] fn = "jointl"       -> Def(JoinWith(a[1], a[2]), a)
      [] fn = "joinzl"       -> Def(JoinWith([i \in 1..Len(a[1]) |-> IntText(a[1][i])], a[2]), a)
      [] fn = "hamming"      -> Def(IF Len(a[1]) # Len(a[2]) THEN 0 - 1 ELSE Hamming(a[1], a[2]), a)
      [] fn = "levenshtein"  -> Def(Lev(a[1], a[2], Len(a[1]), Len(a[2])), a)
      [] fn = "compare"      -> Def(CompareText(a[1], a[2]), a)          \* compared by sign
      \* numbers
      [] fn = "max2"         -> Def(Max2(a[1], a[2]), a)
      [] fn = "max3"         -> Def(Max2(a[1], Max2(a[2], a[3])), a)
      [] fn = "min2"         -> Def(Min2(a[1], a[2]), a)
      [] fn = "min3"         -> Def(Min2(a[1], Min2(a[2], a[3])), a)
      [] fn = "clamp"        -> IF a[2] <= a[3] THEN Def(IF a[1] < a[2] THEN a[2] ELSE IF a[1] > a[3] THEN a[3] ELSE a[1], a) ELSE Undef      \* (wert, min, max)
      [] fn = "sign"         -> Def(Sign(a[1]), a)
      [] fn = "gcd"          -> IF a[1] >= 0 /\ a[2] >= 0 THEN Def(Gcd(a[1], a[2]), a) ELSE Undef
      [] fn = "lcm"          -> IF a[1] > 0 /\ a[2] > 0 THEN Def((a[1] * a[2]) \div Gcd(a[1], a[2]), a) ELSE Undef
      [] fn \in {"divisible", "notdivisible"} -> IF a[2] > 0 /\ a[1] >= 0 THEN Def((a[1] % a[2] = 0) = (fn = "divisible"), a) ELSE Undef
      [] fn = "primefactors" -> IF a[1] >= 1 THEN Def(PrimeFactorsFrom(a[1], 2), a) ELSE Undef
      [] fn = "divisors"     -> IF a[1] >= 1 THEN Def(DivisorsDesc(a[1]), a) ELSE Undef
      [] fn \in {"even", "noteven"} -> Def(((IF a[1] < 0 THEN 0 - a[1] ELSE a[1]) % 2 = 0) = (fn = "even"), a)
      [] fn = "factorial"    -> IF a[1] >= 0 /\ a[1] <= 12 THEN Def(Fact(a[1]), a) ELSE Undef
      [] fn = "maxlist"      -> IF a[1] # <<>> THEN Def(MaxOfSeq(a[1]), a) ELSE Undef
      [] fn = "minlist"      -> IF a[1] # <<>> THEN Def(MinOfSeq(a[1]), a) ELSE Undef
      [] fn = "dozen"        -> Def(a[1] * 12, a)
      [] fn = "hex2num"      -> IF Len(a[1]) <= 7 /\ \A i \in 1..Len(a[1]) : HexVal(a[1][i]) >= 0 THEN Def(HexToNat(a[1], 0), a) ELSE Undef
      [] fn = "num2hex"      -> Def(IF a[1] < 0 THEN <<45>> \o NatToHex(0 - a[1]) ELSE NatToHex(a[1]), a)
      \* characters (code points 0..255)
      [] fn = "isspace"      -> Def(a[1] \in {32, 10, 9, 13}, a)
      [] fn = "isblank"      -> Def(a[1] = 32, a)
      [] fn = "isupper"      -> IF a[1] <= 255 THEN Def(IsUpperL1(a[1]), a) ELSE Undef
      [] fn = "islower"      -> IF a[1] <= 255 THEN Def(IsLowerL1(a[1]), a) ELSE Undef
      [] fn = "isdigit"      -> Def(IsDigitC(a[1]), a)
      [] fn = "iscntrl"      -> Def(a[1] >= 0 /\ a[1] <= 31, a)
      [] fn = "islatin"      -> Def(IsLatin(a[1]), a)
      [] fn = "islatinnum"   -> Def(IsLatin(a[1]) \/ IsDigitC(a[1]), a)
      [] fn = "isgerman"     -> Def(IsGerman(a[1]), a)
      [] fn = "isgermannum"  -> Def(IsGerman(a[1]) \/ IsDigitC(a[1]), a)
      [] fn = "toupper"      -> Def(IF IsGerman(a[1]) /\ IsLowerL1(a[1]) /\ a[1] # 223 THEN a[1] - 32 ELSE a[1], a)
      [] fn = "tolower"      -> Def(IF IsGerman(a[1]) /\ IsUpperL1(a[1]) THEN a[1] + 32 ELSE a[1], a)
      [] fn = "asciichar"    -> IF a[1] >= 1 /\ a[1] <= 127 THEN Def(a[1], a) ELSE Undef
      [] fn = "asciigt"      -> Def(a[1] > a[2], a)
      [] fn = "asciilt"      -> Def(a[1] < a[2], a)
      [] OTHER               -> Undef
=============================================================================
