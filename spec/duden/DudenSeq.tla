------------------------------ MODULE DudenSeq ------------------------------
(* The mathematical meaning of the covered Duden functions (lib/stdlib/Duden/Listen.ddp, Texte.ddp, Sortierung.ddp) on sequences.
   Values: Zahl = integer (small), Wahrheitswert = BOOLEAN, Buchstabe = code point, Text = sequence of code points,
   lists = sequences.  Apply(fn, args) = [def : in the documented domain?, res : result or "-", after : the arguments after the call]
   Functions taking a Referenz change exactly that argument; value arguments are unchanged.                                     *)
EXTENDS Integers, Sequences, FiniteSets, SequencesExt

Def(res, after) == [def |-> TRUE, res |-> res, after |-> after]
Undef == [def |-> FALSE, res |-> "-", after |-> <<>>]
InsertAt1(s, i, x) == SubSeq(s, 1, i - 1) \o x \o SubSeq(s, i, Len(s))         \* x (a sequence) before index i
IndexOf(s, x) == IF \E i \in 1..Len(s) : s[i] = x THEN CHOOSE i \in 1..Len(s) : s[i] = x /\ \A j \in 1..(i - 1) : s[j] # x ELSE 0 - 1
RECURSIVE SumSeq(_)
SumSeq(s) == IF s = <<>> THEN 0 ELSE Head(s) + SumSeq(Tail(s))
RECURSIVE ProdSeq(_)
ProdSeq(s) == IF s = <<>> THEN 1 ELSE Head(s) * ProdSeq(Tail(s))
RECURSIVE Flatten(_)
Flatten(ss) == IF ss = <<>> THEN <<>> ELSE Head(ss) \o Flatten(Tail(ss))
IsSortedPerm(r, s) == /\ Len(r) = Len(s)
                      /\ \A i \in 1..(Len(r) - 1) : r[i] <= r[i + 1]
                      /\ \A x \in {s[i] : i \in 1..Len(s)} : Cardinality({i \in 1..Len(s) : s[i] = x}) = Cardinality({i \in 1..Len(r) : r[i] = x})
OccursAt(t, n, i) == i + Len(n) - 1 <= Len(t) /\ SubSeq(t, i, i + Len(n) - 1) = n
Occurrences(t, n) == {i \in 1..Len(t) : OccursAt(t, n, i)}
RECURSIVE CountNonOverlap(_, _, _)
CountNonOverlap(t, n, i) == IF i + Len(n) - 1 > Len(t) THEN 0 ELSE IF OccursAt(t, n, i) THEN 1 + CountNonOverlap(t, n, i + Len(n)) ELSE CountNonOverlap(t, n, i + 1)
RECURSIVE SplitAt(_, _, _, _)
SplitAt(t, sep, i, cur) ==      \* split text t at every occurrence of the non-empty separator sep (scanning left to right, non-overlapping)
    IF i > Len(t) THEN <<cur>>
    ELSE IF OccursAt(t, sep, i) THEN <<cur>> \o SplitAt(t, sep, i + Len(sep), <<>>)
    ELSE SplitAt(t, sep, i + 1, Append(cur, t[i]))
RECURSIVE DropWhileFront(_, _)
DropWhileFront(t, c) == IF t # <<>> /\ Head(t) = c THEN DropWhileFront(Tail(t), c) ELSE t
RECURSIVE DropWhileBack(_, _)
DropWhileBack(t, c) == IF t # <<>> /\ t[Len(t)] = c THEN DropWhileBack(SubSeq(t, 1, Len(t) - 1), c) ELSE t
Upper(c) == IF (c >= 97 /\ c <= 122) \/ c \in {228, 246, 252} THEN c - 32 ELSE c
Lower(c) == IF (c >= 65 /\ c <= 90) \/ c \in {196, 214, 220} THEN c + 32 ELSE c
RECURSIVE JoinWith(_, _)
JoinWith(ts, c) == IF ts = <<>> THEN <<>> ELSE IF Len(ts) = 1 THEN ts[1] ELSE ts[1] \o <<c>> \o JoinWith(Tail(ts), c)
Min2(a, b) == IF a < b THEN a ELSE b
RECURSIVE Lev(_, _, _, _)
Lev(a, b, i, j) == IF i = 0 THEN j ELSE IF j = 0 THEN i
                   ELSE Min2(Min2(Lev(a, b, i - 1, j) + 1, Lev(a, b, i, j - 1) + 1), Lev(a, b, i - 1, j - 1) + (IF a[i] = b[j] THEN 0 ELSE 1))
Hamming(a, b) == Cardinality({i \in 1..Len(a) : a[i] # b[i]})
Sign(n) == IF n < 0 THEN 0 - 1 ELSE IF n > 0 THEN 1 ELSE 0
CompareText(a, b) ==      \* sign only: first differing code point, else the shorter text is smaller
    LET m == Min2(Len(a), Len(b))
        d == {i \in 1..m : a[i] # b[i]}
    IN  IF d # {} THEN LET i == CHOOSE i \in d : \A j \in d : i <= j IN Sign(a[i] - b[i]) ELSE Sign(Len(a) - Len(b))
RECURSIVE NatText(_)
NatText(n) == IF n < 10 THEN <<48 + n>> ELSE NatText(n \div 10) \o <<48 + (n % 10)>>
IntText(n) == IF n < 0 THEN <<45>> \o NatText(0 - n) ELSE NatText(n)

Mutating == {"append", "appendlist", "prepend", "prependlist", "insert", "insertrange", "delete", "deleterange", "fill", "clear", "sortref", "tappendtext", "tappendchar",
             "tprependtext", "tprependchar", "tinserttext", "tinsertchar", "tdelete", "tdeleterange", "tfill"}
RECURSIVE NonOverlapIdx(_, _, _)
NonOverlapIdx(t, n, i) == IF i + Len(n) - 1 > Len(t) THEN <<>> ELSE IF OccursAt(t, n, i) THEN <<i>> \o NonOverlapIdx(t, n, i + Len(n)) ELSE NonOverlapIdx(t, n, i + 1)
Apply(fn, a) ==
    CASE fn = "append"       -> Def("-", <<Append(a[1], a[2]), a[2]>>)
      [] fn = "appendlist"   -> Def("-", <<a[1] \o a[2], a[2]>>)
      [] fn = "prepend"      -> Def("-", <<<<a[2]>> \o a[1], a[2]>>)
      [] fn = "prependlist"  -> Def("-", <<a[2] \o a[1], a[2]>>)
      [] fn = "insert"       -> IF a[2] >= 1 /\ a[2] <= Len(a[1]) THEN Def("-", <<InsertAt1(a[1], a[2], <<a[3]>>), a[2], a[3]>>) ELSE Undef
      [] fn = "insertrange"  -> IF a[2] >= 1 /\ a[2] <= Len(a[1]) THEN Def("-", <<InsertAt1(a[1], a[2], a[3]), a[2], a[3]>>) ELSE Undef
      [] fn = "delete"       -> IF a[2] >= 1 /\ a[2] <= Len(a[1]) THEN Def("-", <<SubSeq(a[1], 1, a[2] - 1) \o SubSeq(a[1], a[2] + 1, Len(a[1])), a[2]>>) ELSE Undef
      [] fn = "deleterange"  -> IF a[2] >= 1 /\ a[2] <= a[3] /\ a[3] <= Len(a[1]) THEN Def("-", <<SubSeq(a[1], 1, a[2] - 1) \o SubSeq(a[1], a[3] + 1, Len(a[1])), a[2], a[3]>>) ELSE Undef
      [] fn = "fill"         -> Def("-", <<[i \in 1..Len(a[1]) |-> a[2]], a[2]>>)
      [] fn = "clear"        -> Def("-", <<<<>>>>)
      [] fn \in {"indexof", "indexofref"} -> Def(IndexOf(a[1], a[2]), a)
      [] fn \in {"contains", "containsref"} -> Def(\E i \in 1..Len(a[1]) : a[1][i] = a[2], a)
      [] fn = "notcontains"  -> Def(~\E i \in 1..Len(a[1]) : a[1][i] = a[2], a)
      [] fn \in {"isempty", "isemptyref"} -> Def(a[1] = <<>>, a)
      [] fn \in {"firstn", "firstnref"} -> IF a[2] >= 1 /\ a[2] <= Len(a[1]) THEN Def(SubSeq(a[1], 1, a[2]), a) ELSE Undef
      [] fn \in {"lastn", "lastnref"} -> IF a[2] >= 1 /\ a[2] <= Len(a[1]) THEN Def(SubSeq(a[1], Len(a[1]) - a[2] + 1, Len(a[1])), a) ELSE Undef
      [] fn \in {"reversed", "reversedref"} -> Def(Reverse(a[1]), a)
      [] fn = "sum"          -> Def(SumSeq(a[1]), a)
      [] fn = "product"      -> Def(IF a[1] = <<>> THEN 0 ELSE ProdSeq(a[1]), a)
      [] fn \in {"eadd", "esub", "emul"} -> IF Len(a[1]) # Len(a[2]) THEN Undef
                                ELSE Def([i \in 1..Len(a[1]) |-> CASE fn = "eadd" -> a[1][i] + a[2][i] [] fn = "esub" -> a[1][i] - a[2][i] [] OTHER -> a[1][i] * a[2][i]], a)
      [] fn = "ascending"    -> IF a[1] <= a[2] THEN Def([i \in 1..(a[2] - a[1] + 1) |-> a[1] + i - 1], a) ELSE Undef
      [] fn = "descending"   -> IF a[1] >= a[2] THEN Def([i \in 1..(a[1] - a[2] + 1) |-> a[1] - i + 1], a) ELSE Undef
      [] fn \in {"joinchars", "jointexts"} -> Def(IF fn = "joinchars" THEN a[1] ELSE Flatten(a[1]), a)
      [] fn = "sorted"       -> Def("sorted-permutation", a)           \* checked with IsSortedPerm
      [] fn = "sortref"      -> Def("-", <<"sorted-permutation">>)
      \* texts
      [] fn = "firstchar"    -> IF a[1] # <<>> THEN Def(a[1][1], a) ELSE Undef
      [] fn = "lastchar"     -> IF a[1] # <<>> THEN Def(a[1][Len(a[1])], a) ELSE Undef
      [] fn = "nthchar"      -> IF a[1] >= 1 /\ a[1] <= Len(a[2]) THEN Def(a[2][a[1]], a) ELSE Undef
      [] fn = "trimstart"    -> Def(DropWhileFront(a[1], a[2]), a)
      [] fn = "trimend"      -> Def(DropWhileBack(a[1], a[2]), a)
      [] fn = "trim"         -> Def(DropWhileBack(DropWhileFront(a[1], a[2]), a[2]), a)
      [] fn = "containschar" -> Def(\E i \in 1..Len(a[1]) : a[1][i] = a[2], a)
      [] fn = "countchar"    -> Def(Cardinality({i \in 1..Len(a[1]) : a[1][i] = a[2]}), a)
      [] fn = "containstext" -> IF a[1] # <<>> /\ a[2] # <<>> THEN Def(Occurrences(a[1], a[2]) # {}, a) ELSE Undef
      [] fn = "counttext"    -> IF a[2] # <<>> THEN Def(Cardinality(Occurrences(a[1], a[2])), a) ELSE Undef
      [] fn = "counttextno"  -> IF a[2] # <<>> THEN Def(CountNonOverlap(a[1], a[2], 1), a) ELSE Undef
      [] fn = "startschar"   -> Def(a[2] # <<>> /\ a[2][1] = a[1], a)
      [] fn = "endschar"     -> Def(a[2] # <<>> /\ a[2][Len(a[2])] = a[1], a)
      [] fn = "startstext"   -> IF a[1] # <<>> /\ a[2] # <<>> THEN Def(OccursAt(a[2], a[1], 1), a) ELSE Undef
      [] fn = "endstext"     -> IF a[1] # <<>> /\ a[2] # <<>> THEN Def(Len(a[1]) <= Len(a[2]) /\ OccursAt(a[2], a[1], Len(a[2]) - Len(a[1]) + 1), a) ELSE Undef
      [] fn = "tappendtext"  -> Def("-", <<a[1] \o a[2], a[2]>>)
      [] fn = "tappendchar"  -> Def("-", <<Append(a[1], a[2]), a[2]>>)
      [] fn = "tprependtext" -> Def("-", <<a[2] \o a[1], a[2]>>)
      [] fn = "tprependchar" -> Def("-", <<<<a[2]>> \o a[1], a[2]>>)
      [] fn = "tinserttext"  -> IF a[2] >= 1 /\ a[2] <= Len(a[1]) THEN Def("-", <<InsertAt1(a[1], a[2], a[3]), a[2], a[3]>>) ELSE Undef
      [] fn = "tinsertchar"  -> IF a[2] >= 1 /\ a[2] <= Len(a[1]) THEN Def("-", <<InsertAt1(a[1], a[2], <<a[3]>>), a[2], a[3]>>) ELSE Undef
      [] fn = "tdelete"      -> IF a[2] >= 1 /\ a[2] <= Len(a[1]) THEN Def("-", <<SubSeq(a[1], 1, a[2] - 1) \o SubSeq(a[1], a[2] + 1, Len(a[1])), a[2]>>) ELSE Undef
      [] fn = "tdeleterange" -> IF a[2] >= 1 /\ a[2] <= a[3] /\ a[3] <= Len(a[1]) THEN Def("-", <<SubSeq(a[1], 1, a[2] - 1) \o SubSeq(a[1], a[3] + 1, Len(a[1])), a[2], a[3]>>) ELSE Undef
      [] fn = "tfill"        -> Def("-", <<[i \in 1..Len(a[1]) |-> a[2]], a[2]>>)
      [] fn = "chars"        -> Def(a[1], a)
      [] fn = "charsastexts" -> Def([i \in 1..Len(a[1]) |-> <<a[1][i]>>], a)
      [] fn = "tindexofchar" -> Def(IndexOf(a[1], a[2]), a)
      [] fn = "tindexoftext" -> IF a[1] # <<>> /\ a[2] # <<>> THEN Def(IF Occurrences(a[1], a[2]) = {} THEN 0 - 1 ELSE CHOOSE i \in Occurrences(a[1], a[2]) : \A j \in Occurrences(a[1], a[2]) : i <= j, a) ELSE Undef
      [] fn = "tisempty"     -> Def(a[1] = <<>>, a)
      [] fn = "upper"        -> Def([i \in 1..Len(a[1]) |-> Upper(a[1][i])], a)
      [] fn = "lower"        -> Def([i \in 1..Len(a[1]) |-> Lower(a[1][i])], a)
      [] fn = "padleft"      -> Def([i \in 1..(IF a[3] > Len(a[1]) THEN a[3] - Len(a[1]) ELSE 0) |-> a[2]] \o a[1], a)
      [] fn = "padright"     -> Def(a[1] \o [i \in 1..(IF a[3] > Len(a[1]) THEN a[3] - Len(a[1]) ELSE 0) |-> a[2]], a)
      [] fn = "splitchar"    -> IF a[1] # <<>> THEN Def(SplitAt(a[1], <<a[2]>>, 1, <<>>), a) ELSE Undef      \* the empty text: not documented (the code answers the empty list)
      [] fn = "splittext"    -> IF a[2] # <<>> /\ a[1] # <<>> THEN Def(SplitAt(a[1], a[2], 1, <<>>), a) ELSE Undef
      [] fn = "findall"      -> IF a[2] # <<>> /\ a[1] # <<>> THEN Def(SetToSortSeq(Occurrences(a[2], a[1]), LAMBDA x, y : x < y), a) ELSE Undef
      [] fn = "jointl"       -> Def(JoinWith(a[1], a[2]), a)
      [] fn = "joinzl"       -> Def(JoinWith([i \in 1..Len(a[1]) |-> IntText(a[1][i])], a[2]), a)
      [] fn = "hamming"      -> Def(IF Len(a[1]) # Len(a[2]) THEN 0 - 1 ELSE Hamming(a[1], a[2]), a)
      [] fn = "levenshtein"  -> Def(Lev(a[1], a[2], Len(a[1]), Len(a[2])), a)
      [] fn = "compare"      -> Def(CompareText(a[1], a[2]), a)          \* compared by sign
      [] OTHER               -> Undef
=============================================================================
