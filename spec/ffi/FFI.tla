-------------------------------- MODULE FFI --------------------------------
(* The published calling convention between compiled DDP code and functions defined in C
   (lib/runtime/include/DDP/ddptypes.h; src/compiler/compiler.go VisitFuncDecl / VisitFuncCall).

   A signature is [params : Seq([k : Kind, ref : BOOLEAN]), ret : Kind \cup {"none"}, steal : BOOLEAN].
   Proto(sig) is the C prototype the callee is written against: primitives by value, everything else by pointer, a Referenz
   parameter as pointer to the caller's own storage, a non-primitive result through a leading out-pointer.
   The harness generates the callee FROM Proto (ProtoText) - the specification, not the generator, states the convention.

   One call is five steps; the generated callee makes each observable:
     CallerPasses   the caller evaluates the arguments; a non-Referenz non-primitive argument is a value of its own (a copy or a temporary)
     CalleeSees     the callee reads every parameter through the header structs                               -> ev.saw
     CalleeWorks    the callee scribbles over its by-value arguments in place (they are its private values for the duration of the call, as the
                    standard library does in filesystem.c), writes Written(k, v) through every Referenz parameter, and produces its result:
                    Known(k), or with sig.steal the first parameter's value MOVED into the result (the parameter left empty)
     CallerFrees    the caller releases what is left in each non-Referenz non-primitive argument, exactly once     (ledger: Heap.tla)
     CallerSees     result and variables afterwards                                                          -> ev.res, ev.after
   Values: Zahl = 8 byte limbs (little endian, two's complement), Kommazahl = 64 * value (small dyadic numbers), Byte / Buchstabe = integer,
   Wahrheitswert = BOOLEAN, Text = code points, lists = sequences, Misch = <<c, z, b, t, w, k>> (a Kombination whose C layout has padding),
   Variable holding a Zahl (VZ) / a Text (VT) = the held value.                                                                         *)
EXTENDS Integers, Sequences, FiniteSets

Kinds == {"Z", "K", "B", "W", "C", "T", "LZ", "LT", "LB", "LK", "LW", "LC", "S", "VZ", "VT"}
IsPrim(k) == k \in {"Z", "K", "B", "W", "C"}
CType(k) == CASE k = "Z" -> "ddpint" [] k = "K" -> "ddpfloat" [] k = "B" -> "ddpbyte" [] k = "W" -> "ddpbool" [] k = "C" -> "ddpchar"
              [] k = "T" -> "ddpstring" [] k = "LZ" -> "ddpintlist" [] k = "LT" -> "ddpstringlist" [] k = "LB" -> "ddpbytelist" [] k = "LK" -> "ddpfloatlist"
              [] k = "LW" -> "ddpboollist" [] k = "LC" -> "ddpcharlist" [] k = "S" -> "Misch" [] OTHER -> "ddpany"

ByPointer(p) == p.ref \/ ~IsPrim(p.k)
HasOutPointer(sig) == sig.ret # "none" /\ ~IsPrim(sig.ret)
CReturn(sig) == IF sig.ret = "none" \/ HasOutPointer(sig) THEN "void" ELSE CType(sig.ret)
PNames == <<"p1", "p2", "p3", "p4", "p5", "p6">>
RECURSIVE JoinComma(_)
JoinComma(s) == IF s = <<>> THEN "" ELSE IF Len(s) = 1 THEN s[1] ELSE s[1] \o ", " \o JoinComma(Tail(s))
ProtoArgs(sig) == (IF HasOutPointer(sig) THEN <<CType(sig.ret) \o " *ret">> ELSE <<>>)
                  \o [i \in 1..Len(sig.params) |-> CType(sig.params[i].k) \o (IF ByPointer(sig.params[i]) THEN " *" ELSE " ") \o PNames[i]]
ProtoText(sig, name) == CReturn(sig) \o " " \o name \o "(" \o (IF ProtoArgs(sig) = <<>> THEN "void" ELSE JoinComma(ProtoArgs(sig))) \o ")"

(* ---- what the generated callee does (the harness contract, mirrored in checks/c18.py: c_write / c_known) ---- *)
NotZ(z) == [i \in 1..8 |-> 255 - z[i]]
ZOf(n) == [i \in 1..8 |-> IF i = 1 THEN n ELSE 0]                      \* 0 <= n <= 255
Written(k, v) ==
    CASE k = "Z" -> NotZ(v) [] k = "K" -> v + 64 [] k = "B" -> (v + 1) % 256 [] k = "W" -> ~v [] k = "C" -> v + 1
      [] k = "T" -> Append(v, 33)
      [] k = "LZ" -> <<ZOf(Len(v))>>
      [] k = "LT" -> <<>>
      [] k = "LB" -> [i \in 1..Len(v) |-> (v[i] + 1) % 256]          \* every element in place
      [] k = "LK" -> [i \in 1..Len(v) |-> v[i] + 64]
      [] k = "LW" -> [i \in 1..Len(v) |-> ~v[i]]
      [] k = "LC" -> <<Len(v) + 65>>                                    \* replaced by a one-element list
      [] k = "S" -> <<v[1], NotZ(v[2]), v[3], Append(v[4], 33), ~v[5], v[6]>>
      [] k = "VZ" -> NotZ(v)
      [] OTHER -> Append(v, 33)
Known(k) ==
    CASE k = "Z" -> <<254, 255, 255, 255, 255, 255, 255, 255>> [] k = "K" -> 160 [] k = "B" -> 200 [] k = "W" -> TRUE [] k = "C" -> 8364
      [] k = "T" -> <<122, 117, 114, 252, 99, 107>>
      [] k = "LZ" -> <<ZOf(3), NotZ(ZOf(3))>>
      [] k = "LT" -> <<<<97>>, <<>>, <<228, 8364>>>>
      [] k = "LB" -> <<0, 255, 128>>
      [] k = "LK" -> <<160, 0 - 48>>
      [] k = "LW" -> <<TRUE, FALSE, TRUE>>
      [] k = "LC" -> <<97, 8364, 128512>>
      [] k = "S" -> <<120, ZOf(77), 9, <<115, 116>>, TRUE, 96>>
      [] k = "VZ" -> ZOf(5)
      [] OTHER -> <<118, 97, 114>>

WellFormedSig(sig) == /\ Len(sig.params) <= 6
                      /\ \A i \in 1..Len(sig.params) : sig.params[i].k \in Kinds
                      /\ sig.ret \in Kinds \cup {"none"}
                      /\ sig.steal => (Len(sig.params) >= 1 /\ ~sig.params[1].ref /\ ~IsPrim(sig.ret) /\ sig.params[1].k = sig.ret)
Expected(sig, args) ==
    [saw   |-> args,
     after |-> [i \in 1..Len(args) |-> IF sig.params[i].ref THEN Written(sig.params[i].k, args[i]) ELSE args[i]],
     res   |-> IF sig.ret = "none" THEN "-" ELSE IF sig.steal THEN args[1] ELSE Known(sig.ret)]
=============================================================================
