------------------------------ MODULE FFITrace ------------------------------
(* {"e":"proto","sig":..,"name":..}                     planning: prints the C prototype the callee has to be written against
   {"e":"ffi","sig":..,"args":[..],"saw":[..],"after":[..],"res":..,"failed":bool}   one call of a generated C callee from compiled DDP code *)
EXTENDS FFI, TLC, Json
CONSTANT TraceFile
VARIABLES l, bad
Trace == ndJsonDeserialize(TraceFile)
Init == l = 1 /\ bad = {}
Step == LET ev == Trace[l]
        IN  IF ev.e = "proto"
            THEN bad' = IF WellFormedSig(ev.sig) /\ PrintT(<<"@@proto@@", l, ProtoText(ev.sig, ev.name)>>) THEN bad ELSE bad \cup {l}
            ELSE LET ex == Expected(ev.sig, ev.args)
                     good == /\ WellFormedSig(ev.sig)
                             /\ ~ev.failed
                             /\ ev.saw = ex.saw
                             /\ ev.after = ex.after
                             /\ (ev.sig.ret = "none" \/ ev.res = ex.res)
                 IN  bad' = IF good THEN bad ELSE bad \cup {l}
Next == l <= Len(Trace) /\ l' = l + 1 /\ Step
Spec == Init /\ [][Next]_<<l, bad>>
Done == l = Len(Trace) + 1
Report == Done => PrintT(<<"@@bad@@", bad>>) /\ PrintT(<<"@@lines@@", Len(Trace)>>)
Accepted == TLCGet("stats").diameter = Len(Trace) + 1
=============================================================================
