------------------------------- MODULE Modules -------------------------------
(* Import graphs, visibility and initialisation order (C10; parser.go resolveModuleImport, ast/helper.go
   IterateImportedDecls, ast/module.go, compiler VisitImportStmt / module init functions).
   A graph  G = [n : number of modules (0 = the main module),
                 imp : << per module i+1: sequence of [t : target module, sel : "all" | "pub" | "fn", cont : BOOLEAN] >>]
     "Binde alle Module aus <Verzeichnis> ein" is the whole-module import of every module of the directory in name order: the harness writes
     it as consecutive entries, all but the first with cont = TRUE (one statement: no marker of the main module between them).
     sel "all" = whole-module import, "pub" / "fn" / "const" / "type" = selective import of the public variable / function / Konstante /
     Kombination only.  Whatever an import names, executing it initialises the module.
   Every module k declares (scheme fixed by the harness):
     a private function `helfer` (same name in every module) that prints h<k>,  a public variable wert<k> whose
     initialiser calls it,  a private variable geheim<k>,  a public function zeige<k>,  a public Konstante KONST<k>,  a public Kombination
     Kasten<k> whose field default reads wert<k>,  a top-level print TOP<k>.
   Loader:  a module is parsed once per path; modules that import each other (directly or through others) are rejected.
   Run:     executing an import statement initialises the target unless done: first the target's own imports in textual
            order, then its global initialisers in textual order; top-level statements of imported modules never run.   *)
EXTENDS Naturals, Sequences, FiniteSets

Targets(G, i) == {G.imp[i + 1][k].t : k \in 1..Len(G.imp[i + 1])}
RECURSIVE ReachFrom(_, _, _)
ReachFrom(G, frontier, seen) ==
    IF frontier = {} THEN seen
    ELSE LET nxt == UNION {Targets(G, i) : i \in frontier} \ seen IN ReachFrom(G, nxt, seen \cup nxt)
Reach(G, i) == ReachFrom(G, {i}, {})                       \* modules reachable through at least one import
Reachable(G) == {0} \cup Reach(G, 0)
Cyclic(G) == \E i \in Reachable(G) : i \in Reach(G, i)     \* some loaded module (transitively) imports itself
Accepted(G) == ~Cyclic(G)

(* initialisation: returns [inited, out]; out is the sequence of module numbers whose initialiser ran (h<k> printed) *)
RECURSIVE InitMod(_, _, _), InitImports(_, _, _, _)
InitImports(G, i, k, st) ==
    IF k > Len(G.imp[i + 1]) THEN st
    ELSE InitImports(G, i, k + 1, InitMod(G, G.imp[i + 1][k].t, st))
InitMod(G, m, st) ==
    IF m \in st.inited THEN st
    ELSE LET s1 == InitImports(G, m, 1, [st EXCEPT !.inited = @ \cup {m}])      \* (acyclic: marking first is harmless)
         IN  [s1 EXCEPT !.out = Append(@, m)]
(* the main module: statement k of the main module is  print(100 + k)  before import k; after the last import it prints 200
   and then calls zeige<t> of every whole- or fn-imported target (which prints nothing but needs the globals) *)
RECURSIVE RunMain(_, _, _)
RunMain(G, k, st) ==
    IF k > Len(G.imp[1]) THEN [st EXCEPT !.out = Append(@, 200)]
    ELSE RunMain(G, k + 1, InitMod(G, G.imp[1][k].t, IF G.imp[1][k].cont THEN st ELSE [st EXCEPT !.out = Append(@, 100 + k)]))
Run(G) == RunMain(G, 1, [inited |-> {0}, out |-> <<>>]).out
InitOnceInOrder(G) ==       \* the two facts the property states, as consequences of Run (checked by TLC on every graph)
    LET out == Run(G)
        pos(m) == CHOOSE p \in 1..Len(out) : out[p] = m
    IN  /\ \A m \in Reach(G, 0) : Cardinality({p \in 1..Len(out) : out[p] = m}) = 1
        /\ \A m \in Reach(G, 0) : \A d \in Targets(G, m) : pos(d) < pos(m)

(* visibility in the main module of the names of module j:  "pub" = wert<j>, "fn" = zeige<j>, "const" = KONST<j>, "type" = Kasten<j>, "priv" = geheim<j>;
   "reexp" = a public name of a module that j itself imports, asked for by a selective import from j: a module exposes
   exactly its own public declarations, never the ones it imported *)
Visible(G, j, name) ==
    /\ name \in {"pub", "fn", "const", "type"}
    /\ \E k \in 1..Len(G.imp[1]) : G.imp[1][k].t = j /\ (G.imp[1][k].sel = "all" \/ G.imp[1][k].sel = name)
=============================================================================
