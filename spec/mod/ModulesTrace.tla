---------------------------- MODULE ModulesTrace ----------------------------
(* {"e":"graph","g":G} | {"e":"verdict","accepted":bool} | {"e":"run","out":[...]} | {"e":"probe","j":module,"name":"pub"|"fn"|"priv","visible":bool} *)
EXTENDS Modules, TLC, Json
CONSTANT TraceFile
VARIABLES l, g, bad
Trace == ndJsonDeserialize(TraceFile)
Init == l = 1 /\ g = [n |-> 1, imp |-> << <<>> >>] /\ bad = {}
Graph == Trace[l].e = "graph" /\ g' = Trace[l].g /\ bad' = (IF Accepted(Trace[l].g) /\ ~InitOnceInOrder(Trace[l].g) THEN bad \cup {l} ELSE bad)
Verdict == Trace[l].e = "verdict" /\ bad' = (IF Trace[l].accepted = Accepted(g) THEN bad ELSE bad \cup {l}) /\ UNCHANGED g
RunEv == Trace[l].e = "run" /\ bad' = (IF Accepted(g) /\ Trace[l].out = Run(g) THEN bad ELSE bad \cup {l}) /\ UNCHANGED g
Probe == Trace[l].e = "probe" /\ bad' = (IF Trace[l].visible = Visible(g, Trace[l].j, Trace[l].name) THEN bad ELSE bad \cup {l}) /\ UNCHANGED g
Next == l <= Len(Trace) /\ l' = l + 1 /\ (Graph \/ Verdict \/ RunEv \/ Probe)
Spec == Init /\ [][Next]_<<l, g, bad>>
Done == l = Len(Trace) + 1
Report == Done => PrintT(<<"@@bad@@", bad>>) /\ PrintT(<<"@@lines@@", Len(Trace)>>)
AcceptedTrace == TLCGet("stats").diameter = Len(Trace) + 1
=============================================================================
