---------------------------- MODULE ModulesTrace ----------------------------
(* {"e":"graph","g":G} | {"e":"verdict","accepted":bool} | {"e":"run","out":[...]} | {"e":"probe","j":module,"name":"pub"|"fn"|"priv","visible":bool} *)
EXTENDS Modules, TLC, Json
CONSTANT TraceFile
VARIABLES l, g, bad
Trace == ndJsonDeserialize(TraceFile)
Init == l = 1 /\ g = [n |-> 1, imp |-> << <<>> >>] /\ bad = {}
Graph == Trace[l].e = "graph" /\ g' = Trace[l].g /\ bad' = (IF Accepted(Trace[l].g) /\ ~InitOnceInOrder(Trace[l].g) THEN bad \cup {l} ELSE bad)
Verdict == Trace[l].e = "verdict" /\ bad' = (IF Trace[l].accepted = Accepted(g) THEN bad ELSE bad \cup {l}) /\ UNCHANGED g
RunEv == Trace[l].e = "run" /\ bad' = (IF Accepted(g) /\ Trace[l].out = Run(g) THEN bad ELSE bad \cup {l}) /\ UNCHANGED g
Probe == Trace[l].e = "probe" /\ bad' = (IF Trace[l].visible = Visible(g, Trace[l].j, Trace[l].name) THEN bad ELSE bad \cup {l}) /\ UNCHANGED g
\* an import statement that does not stand at the top level (inside a function that is called several times, inside a loop): whatever else
\* it means, the initialiser of the imported module runs at most once.  {"e":"once","inits":[modules in the order their initialisers ran]}
Once == Trace[l].e = "once" /\ UNCHANGED g
        /\ bad' = (IF \A i, j \in 1..Len(Trace[l].inits) : i # j => Trace[l].inits[i] # Trace[l].inits[j] THEN bad ELSE bad \cup {l})
Next == l <= Len(Trace) /\ l' = l + 1 /\ (Graph \/ Verdict \/ RunEv \/ Probe \/ Once)
Spec == Init /\ [][Next]_<<l, g, bad>>
Done == l = Len(Trace) + 1
Report == Done => PrintT(<<"@@bad@@", bad>>) /\ PrintT(<<"@@lines@@", Len(Trace)>>)
AcceptedTrace == TLCGet("stats").diameter = Len(Trace) + 1
=============================================================================
