------------------------------ MODULE HeapTrace ------------------------------
(* Monitor over the allocation ledger recorded by the --wrap=ddp_reallocate shim (harness/shim/ledger_wrap.c) and
   the sanitizer verdict of the same program:
   {"e":"reset","id":..} | {"e":"h","p":id,"o":old,"n":new,"r":id} | {"e":"end","normal":bool} |
   {"e":"asan","kind":"..."}  (an AddressSanitizer / LeakSanitizer report: never acceptable)                         *)
EXTENDS Heap, TLC, Json, Sequences
CONSTANT TraceFile
VARIABLES l, blocks, bad, peak
Trace == ndJsonDeserialize(TraceFile)
Init == l = 1 /\ blocks = <<>> /\ bad = {} /\ peak = 0
Reset == Trace[l].e = "reset" /\ blocks' = <<>> /\ UNCHANGED <<bad, peak>>
Call == /\ Trace[l].e = "h"
        /\ LET ev == Trace[l]
               k == CallKind(blocks, ev.p, ev.o, ev.n)
               good == k \notin {"bad-not-live", "bad-oldsize"} /\ ResultOK(blocks, ev.p, ev.o, ev.n, ev.r)
           IN  /\ bad' = IF good THEN bad ELSE bad \cup {l}
               /\ blocks' = IF good THEN Apply(blocks, ev.p, ev.o, ev.n, ev.r) ELSE blocks
        /\ peak' = IF Cardinality(DOMAIN blocks') > peak THEN Cardinality(DOMAIN blocks') ELSE peak
End == /\ Trace[l].e = "end"
       /\ bad' = IF Trace[l].normal /\ DOMAIN blocks # {} THEN bad \cup {l} ELSE bad
       /\ UNCHANGED <<blocks, peak>>
Asan == Trace[l].e = "asan" /\ bad' = bad \cup {l} /\ UNCHANGED <<blocks, peak>>
Next == l <= Len(Trace) /\ l' = l + 1 /\ (Reset \/ Call \/ End \/ Asan)
Spec == Init /\ [][Next]_<<l, blocks, bad, peak>>
Done == l = Len(Trace) + 1
Report == Done => PrintT(<<"@@bad@@", bad>>) /\ PrintT(<<"@@peak@@", peak>>) /\ PrintT(<<"@@lines@@", Len(Trace)>>)
Accepted == TLCGet("stats").diameter = Len(Trace) + 1
=============================================================================
