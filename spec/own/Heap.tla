-------------------------------- MODULE Heap --------------------------------
(* The allocator protocol of the runtime (lib/runtime/source/DDP/memory.c: every heap block of a compiled program
   goes through ddp_reallocate(pointer, oldSize, newSize)).
     blocks : live block id -> size
   A call is one of
     Alloc   (p = 0, old = 0, new > 0)            -> fresh block r of size new
     Realloc (p live, old = blocks[p], new > 0, new # old)  -> p dies, fresh block r of size new
     Free    (p live, old = blocks[p], new = 0)   -> p dies
     Noop    (p = 0, new = 0)  or  (p live, old = new = blocks[p])
   Anything else - a block that is not live (double free, foreign pointer), a wrong old size - is not an action.
   At normal termination (no Laufzeitfehler) every block has been released.                                     *)
EXTENDS Naturals, FiniteSets

Live(blocks, p) == p \in DOMAIN blocks
CallKind(blocks, p, old, new) ==
    IF p = 0 THEN (IF new = 0 THEN "noop" ELSE IF old = 0 THEN "alloc" ELSE "bad-oldsize")
    ELSE IF ~Live(blocks, p) THEN "bad-not-live"
    ELSE IF blocks[p] # old THEN "bad-oldsize"
    ELSE IF new = 0 THEN "free"
    ELSE IF new = old THEN "noop"
    ELSE "realloc"
Remove(blocks, p) == [q \in DOMAIN blocks \ {p} |-> blocks[q]]
Apply(blocks, p, old, new, r) ==
    LET k == CallKind(blocks, p, old, new)
    IN  CASE k = "alloc"   -> [q \in DOMAIN blocks \cup {r} |-> IF q = r THEN new ELSE blocks[q]]
          [] k = "realloc" -> LET b == Remove(blocks, p) IN [q \in DOMAIN b \cup {r} |-> IF q = r THEN new ELSE b[q]]
          [] k = "free"    -> Remove(blocks, p)
          [] OTHER         -> blocks
\* the result pointer the runtime must hand back
ResultOK(blocks, p, old, new, r) ==
    LET k == CallKind(blocks, p, old, new)
    IN  CASE k \in {"alloc", "realloc"} -> r # 0 /\ ~Live(blocks, r)
          [] k = "free" -> r = 0
          [] k = "noop" -> (p = 0 /\ r = 0) \/ (p # 0 /\ r = p)
          [] OTHER -> TRUE
=============================================================================
