------------------------------- MODULE Scanner -------------------------------
(* src/scanner/scanner.go as a state machine over code points.
   Scanner state  s = [pos    : index (1-based) of the next code point of src,
                       line, col : 1-based position of that code point (col = 0 right after a line feed
                                   has been registered and before it is consumed),
                       indent : tabs or groups of four consecutive blanks since line start,
                       si     : "should indent": only blanks seen on this line so far]
   One step = NextToken: skip blanks, then emit one token
      [ty, from, to (code point indices, to exclusive), r = <<l1,c1,l2,c2>>, ind, errs, st]
   `errs` are the error codes delivered while scanning that token (escape and size errors of
   text/character literals; capitalisation and alias-parameter complaints are not modelled and
   not compared).  The literal of a token is SubSeq(src, from, to-1).                           *)
EXTENDS Naturals, Sequences, Keywords

At(src, p) == IF p >= 1 /\ p <= Len(src) THEN src[p] ELSE 1114112     \* 1114112 stands for "eof" (-1 in Go)
EOFc == 1114112
IsDigit(c) == c >= 48 /\ c <= 57
IsAlpha(c) == \/ (c >= 97 /\ c <= 122) \/ (c >= 65 /\ c <= 90)
              \/ c \in {223, 95, 228, 196, 246, 214, 252, 220}          \* ß _ ä Ä ö Ö ü Ü
IsAlNum(c) == IsAlpha(c) \/ IsDigit(c)
IsSpace(c) == c \in {32, 13, 10, 9}

Adv(src, s) == [s EXCEPT !.pos = @ + 1, !.col = @ + 1, !.si = @ /\ IsSpace(At(src, s.pos))]
NewLine(s) == [s EXCEPT !.line = @ + 1, !.indent = 0, !.col = 0, !.si = TRUE]
AtEnd(src, s) == s.pos > Len(src)

RECURSIVE Skip(_, _, _)
Skip(src, s, consec) ==
    LET c == At(src, s.pos)
    IN  IF c = 32 THEN IF s.si /\ consec + 1 = 4 THEN Skip(src, Adv(src, [s EXCEPT !.indent = @ + 1]), 0)
                       ELSE Skip(src, Adv(src, s), consec + 1)
        ELSE IF c = 13 THEN Skip(src, Adv(src, s), 0)
        ELSE IF c = 9 THEN Skip(src, Adv(src, IF s.si THEN [s EXCEPT !.indent = @ + 1] ELSE s), 0)
        ELSE IF c = 10 THEN Skip(src, Adv(src, NewLine(s)), 0)
        ELSE s

WhileAlNum(src, s) == LET RECURSIVE W(_) W(x) == IF IsAlNum(At(src, x.pos)) THEN W(Adv(src, x)) ELSE x IN W(s)
WhileDigit(src, s) == LET RECURSIVE W(_) W(x) == IF IsDigit(At(src, x.pos)) THEN W(Adv(src, x)) ELSE x IN W(s)

Lower(c) == IF c >= 65 /\ c <= 90 THEN c + 32 ELSE IF c = 196 THEN 228 ELSE IF c = 214 THEN 246 ELSE IF c = 220 THEN 252 ELSE c
LowerSeq(w) == [i \in 1..Len(w) |-> Lower(w[i])]
IdentType(w) == IF w \in DOMAIN KeywordMap THEN KeywordMap[w]
                ELSE IF LowerSeq(w) \in DOMAIN KeywordMap THEN KeywordMap[LowerSeq(w)]
                ELSE TY_IDENTIFIER

IsEscapeLetter(c, quote) == c \in {97, 98, 110, 114, 116, 92, quote}     \* a b n r t \ and the quote

(* body of a text or character literal; returns [st, errs, bs (saw a backslash)] positioned at the
   closing quote or at the end of the source                                                     *)
RECURSIVE Quoted(_, _, _, _, _)
Quoted(src, s, quote, errs, bs) ==
    LET c == At(src, s.pos)
    IN  IF AtEnd(src, s) \/ c = quote THEN [st |-> s, errs |-> errs, bs |-> bs]
        ELSE IF c = 10 THEN Quoted(src, Adv(src, NewLine(s)), quote, errs, bs)
        ELSE IF c = 92 THEN
             IF IsEscapeLetter(At(src, s.pos + 1), quote)
             THEN Quoted(src, Adv(src, Adv(src, s)), quote, errs, TRUE)           \* backslash and escaped char
                  \* (an escaped line feed cannot occur: a line feed is not an escape letter)
             ELSE Quoted(src, Adv(src, s), quote, Append(errs, ERR_MALFORMED_LITERAL), TRUE)
        ELSE Quoted(src, Adv(src, s), quote, errs, bs)

RECURSIVE Comment(_, _, _)
Comment(src, s, depth) ==
    IF depth = 0 \/ AtEnd(src, s) THEN s
    ELSE LET c == At(src, s.pos)
         IN  IF c = 91 THEN Comment(src, Adv(src, s), depth + 1)
             ELSE IF c = 93 THEN Comment(src, Adv(src, s), depth - 1)
             ELSE IF c = 10 THEN Comment(src, Adv(src, NewLine(s)), depth)
             ELSE Comment(src, Adv(src, s), depth)

RECURSIVE UntilGt(_, _)
UntilGt(src, s) == IF AtEnd(src, s) \/ At(src, s.pos) = 62 THEN s ELSE UntilGt(src, Adv(src, s))

Tok(ty, s0, s1, errs) ==
    [ty |-> ty, from |-> s0.pos, to |-> s1.pos, r |-> <<s0.line, s0.col, s1.line, s1.col>>, ind |-> s1.indent, errs |-> errs, st |-> s1]

NextToken(src, sIn, aliasMode) ==
    LET s0 == Skip(src, sIn, 0)
    IN  IF AtEnd(src, s0) THEN Tok(TY_EOF, s0, s0, <<>>)
        ELSE
        LET c  == At(src, s0.pos)
            s1 == Adv(src, s0)
        IN  IF IsAlpha(c) THEN LET e == WhileAlNum(src, s1) IN Tok(IdentType(SubSeq(src, s0.pos, e.pos - 1)), s0, e, <<>>)
            ELSE IF IsDigit(c) THEN
                 LET e == WhileDigit(src, s1)
                 IN  IF At(src, e.pos) = 44 /\ IsDigit(At(src, e.pos + 1))
                     THEN Tok(TY_FLOAT, s0, WhileDigit(src, Adv(src, e)), <<>>)
                     ELSE Tok(TY_INT, s0, e, <<>>)
            ELSE IF c = 45 THEN Tok(TY_NEGATE, s0, s1, <<>>)
            ELSE IF c = 46 THEN IF At(src, s1.pos) = 46 /\ At(src, s1.pos + 1) = 46
                                THEN Tok(TY_ELIPSIS, s0, Adv(src, Adv(src, s1)), <<>>) ELSE Tok(TY_DOT, s0, s1, <<>>)
            ELSE IF c = 44 THEN Tok(TY_COMMA, s0, s1, <<>>)
            ELSE IF c = 58 THEN Tok(TY_COLON, s0, s1, <<>>)
            ELSE IF c = 40 THEN Tok(TY_LPAREN, s0, s1, <<>>)
            ELSE IF c = 41 THEN Tok(TY_RPAREN, s0, s1, <<>>)
            ELSE IF c = 34 THEN
                 LET q == Quoted(src, s1, 34, <<>>, FALSE)
                 IN  IF AtEnd(src, q.st) THEN Tok(TY_ILLEGAL, s0, q.st, q.errs)
                     ELSE Tok(TY_STRING, s0, Adv(src, q.st), q.errs)
            ELSE IF c = 39 THEN
                 LET q == Quoted(src, s1, 39, <<>>, FALSE)
                 IN  IF AtEnd(src, q.st) THEN Tok(TY_ILLEGAL, s0, q.st, q.errs)
                     ELSE LET e == Adv(src, q.st)
                              n == e.pos - s0.pos              \* code points in the literal incl. quotes
                              sizeErr == ~(n = 3 \/ (n = 4 /\ q.bs))
                          IN  Tok(TY_CHAR, s0, e, IF sizeErr THEN Append(q.errs, ERR_MALFORMED_LITERAL) ELSE q.errs)
            ELSE IF c = 91 THEN Tok(TY_COMMENT, s0, Comment(src, s1, 1), <<>>)
            ELSE IF c = 60 /\ aliasMode THEN
                 LET g == UntilGt(src, s1)
                 IN  Tok(TY_ALIAS_PARAMETER, s0, IF AtEnd(src, g) THEN g ELSE Adv(src, g), <<>>)
            ELSE Tok(TY_SYMBOL, s0, s1, <<>>)

InitState(line, col, indent) == [pos |-> 1, line |-> line, col |-> col, indent |-> indent, si |-> TRUE]

(* ---- stream properties that hold for every scanner output (C13 "Partition") ---- *)
\* index of position (line, col) in src: number of code points before it + 1; line feeds end lines
RECURSIVE IdxOf(_, _, _, _, _, _)
IdxOf(src, line, col, p, l, c) ==      \* (l, c) is the position of src[p]
    IF l = line /\ c = col THEN p
    ELSE IF p > Len(src) \/ l > line THEN 0
    ELSE IF src[p] = 10 THEN IdxOf(src, line, col, p + 1, l + 1, 1) ELSE IdxOf(src, line, col, p + 1, l, c + 1)
=============================================================================
