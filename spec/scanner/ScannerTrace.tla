---------------------------- MODULE ScannerTrace ----------------------------
(* Pattern T, monitor variant, for scanner.Scan / scanner.ScanAlias.
   {"e":"src","mode":"n"|"a","b":[bytes]}   a new input
   {"e":"refused"}                          the scanner returned an error instead of tokens
   {"e":"panic"}                            (never acceptable)
   {"e":"tok","ty":n,"lit":[cps],"r":[l1,c1,l2,c2],"ind":n,"errs":[codes]}
   Each tok event must be exactly the token the Scanner module's NextToken produces from the current
   scanner state; independently the stream invariants (Partition) are evaluated on the logged
   tokens alone.  Line numbers of disagreeing events are collected in `bad`.                     *)
EXTENDS Scanner, Utf8, TLC, Json
CONSTANT TraceFile
VARIABLES l, src, valid, alias, st, phase, prevEnd, bad
\* prevEnd = [i, l, c]: index just past the previous logged token and the (line, column) the log gave for it
vars == <<l, src, valid, alias, st, phase, prevEnd, bad>>
Trace == ndJsonDeserialize(TraceFile)

Init == l = 1 /\ src = <<>> /\ valid = TRUE /\ alias = FALSE /\ st = InitState(1, 1, 0) /\ phase = "idle" /\ prevEnd = [i |-> 1, l |-> 1, c |-> 1, ok |-> TRUE] /\ bad = {}

\* a finished input must have ended with EOF (phase "done") or been refused
EndOK == phase \in {"idle", "done", "refused", "skip"}
Src == /\ Trace[l].e = "src"
       /\ LET d == Decode(Trace[l].b)
          IN  /\ src' = d.cps /\ valid' = d.ok
       /\ alias' = (Trace[l].mode = "a")
       /\ st' = InitState(1, 1, 0) /\ phase' = "scan" /\ prevEnd' = [i |-> 1, l |-> 1, c |-> 1, ok |-> TRUE]
       /\ bad' = IF EndOK THEN bad ELSE bad \cup {l - 1}

Refused == /\ Trace[l].e = "refused"
           /\ bad' = IF phase = "scan" /\ ~valid /\ st.pos = 1 THEN bad ELSE bad \cup {l}
           /\ phase' = "refused" /\ UNCHANGED <<src, valid, alias, st, prevEnd>>
Panic == Trace[l].e = "panic" /\ bad' = bad \cup {l} /\ phase' = "skip" /\ UNCHANGED <<src, valid, alias, st, prevEnd>>

OnlyLitErrs(errs) == SelectSeq(errs, LAMBDA c : c = ERR_MALFORMED_LITERAL)
OnlyBlanks(a, b) == \A i \in a..(b - 1) : IsSpace(src[i])

TokEv == /\ Trace[l].e = "tok"
       /\ LET ev == Trace[l]
              t  == NextToken(src, st, alias)
              r  == <<ev.r[1], ev.r[2], ev.r[3], ev.r[4]>>
              \* conformance with the state machine
              same == /\ phase = "scan" /\ valid
                      /\ ev.ty = t.ty /\ r = t.r /\ ev.ind = t.ind
                      /\ (t.ty # TY_ILLEGAL => ev.lit = SubSeq(src, t.from, t.to - 1))
                      /\ OnlyLitErrs(ev.errs) = t.errs
              \* stream invariants on the logged token alone (positions -> indices through the source text)
              a  == IdxOf(src, r[1], r[2], prevEnd.i, prevEnd.l, prevEnd.c)      \* 0: no such position at or after prevEnd
              b  == IF a = 0 THEN 0 ELSE IdxOf(src, r[3], r[4], a, r[1], r[2])
              \* a line feed inside an alias placeholder is not counted as a line by the scanner (and is diagnosed as a
              \* malformed alias): positions from there on are left unspecified
              brk  == ev.ty = TY_ALIAS_PARAMETER /\ \E i \in 1..Len(ev.lit) : ev.lit[i] = 10
              part0 == /\ a > 0 /\ b > 0
                       /\ OnlyBlanks(prevEnd.i, a)
                       /\ (ev.ty # TY_ILLEGAL => ev.lit = SubSeq(src, a, b - 1))
                       /\ (ev.ty = TY_EOF => a = Len(src) + 1 /\ b = a)
                       /\ r[1] >= 1 /\ r[2] >= 1
              part == ~prevEnd.ok \/ brk \/ part0
          IN  /\ bad' = IF same /\ part THEN bad ELSE bad \cup {l}
              /\ IF same THEN /\ st' = t.st
                              /\ phase' = IF t.ty = TY_EOF THEN "done" ELSE "scan"
                              /\ prevEnd' = [i |-> t.to, l |-> r[3], c |-> r[4], ok |-> prevEnd.ok /\ ~brk]
                 ELSE /\ phase' = "skip" /\ UNCHANGED <<st, prevEnd>>
       /\ UNCHANGED <<src, valid, alias>>
\* after a disagreement the remaining tokens of that input are skipped (already reported)
SkipTok == Trace[l].e = "tok" /\ phase = "skip"

Next == /\ l <= Len(Trace) /\ l' = l + 1
        /\ \/ Src \/ Refused \/ Panic
           \/ (phase # "skip" /\ TokEv)
           \/ (SkipTok /\ UNCHANGED <<src, valid, alias, st, phase, prevEnd, bad>>)
Spec == Init /\ [][Next]_vars
Done == l = Len(Trace) + 1
Report == Done => PrintT(<<"@@bad@@", IF EndOK THEN bad ELSE bad \cup {l - 1}>>) /\ PrintT(<<"@@lines@@", Len(Trace)>>)
Accepted == TLCGet("stats").diameter = Len(Trace) + 1
=============================================================================
