SPECIFICATION Spec
CONSTANTS
  TraceFile = "trace.ndjson"
INVARIANTS Report
POSTCONDITION Accepted
CHECK_DEADLOCK FALSE
