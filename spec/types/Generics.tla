------------------------------ MODULE Generics ------------------------------
(* Type parameters (C15): a call of a generic function is well typed iff the argument types unify with the parameter
   types under ONE binding per type parameter; instantiations of a generic Kombination are the same type iff their
   type arguments are pairwise equivalent (DDPTypes!Equal).  Type terms as in DDPTypes plus [k |-> "g", n |-> name].  *)
EXTENDS DDPTypes

\* bindings a parameter type p forces when matched against the argument type a: a set of <<name, type>>, or {<<"!", "!">>} on mismatch
RECURSIVE Match(_, _)
Match(p, a) ==
    CASE p.k = "g" -> {<<p.n, Strip(a)>>}
      [] p.k = "l" -> IF Strip(a).k = "l" THEN Match(p.e, Strip(a).e) ELSE {<<"!", "!">>}
      [] p.k = "i" -> IF a.k = "i" /\ a.n = p.n /\ Len(a.a) = Len(p.a)          \* instantiation of a generic Kombination: [k |-> "i", n, a : type arguments]
                      THEN UNION {Match(p.a[i], a.a[i]) : i \in 1..Len(p.a)} ELSE {<<"!", "!">>}
      [] OTHER -> IF Equal(p, a) THEN {} ELSE {<<"!", "!">>}
Bindings(ps, as) == UNION {Match(ps[i], as[i]) : i \in 1..Len(ps)}
Unifies(ps, as) ==
    LET b == Bindings(ps, as)
    IN  /\ <<"!", "!">> \notin b
        /\ \A x, y \in b : x[1] = y[1] => x[2] = y[2]
SameInstantiation(xs, ys) == Len(xs) = Len(ys) /\ \A i \in 1..Len(xs) : Equal(xs[i], ys[i])
=============================================================================
