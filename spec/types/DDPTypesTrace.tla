---------------------------- MODULE DDPTypesTrace ----------------------------
(* Pattern T (monitor): answers of the real code about pairs of types.
   {"e":"eq","a":term,"b":term,"equal":bool}                           ddptypes.Equal on constructed types
   {"e":"pos","t":term,"v":term,"init":b,"assign":b,"cast":b,"arg":b,"ret":b,"refassign":b,"refarg":b}   (refassign / refarg: a variable of type v used `als t` in a reference context)
        acceptance by parser.Parse of:  Der T x ist <V>. / Speichere <V> in x. / <V> als T / f(<V>) with parameter T /
        Gib <V> zurück in a function returning T                                                                       *)
EXTENDS DDPTypes, TLC, Json
CONSTANT TraceFile
VARIABLES l, bad
Trace == ndJsonDeserialize(TraceFile)
Init == l = 1 /\ bad = {}
Eq == /\ Trace[l].e = "eq"
      /\ bad' = IF Trace[l].equal = Equal(Trace[l].a, Trace[l].b) THEN bad ELSE bad \cup {l}
Pos == /\ Trace[l].e = "pos"
       /\ LET ev == Trace[l]
              T == ev.t
              V == ev.v
              good == /\ ev.init = Assignable(T, V)
                      /\ ev.assign = Assignable(T, V)
                      /\ ev.init = ev.assign
                      /\ ev.arg = ArgOK(T, V)
                      /\ ev.ret = RetOK(T, V)
                      /\ (CastSpecified(T, V) => ev.cast = CastOK(T, V))
                      /\ (("refassign" \in DOMAIN ev /\ ~IsVar(T) /\ ~IsVar(V)) => ev.refassign = RefCastOK(T, V) /\ ev.refarg = RefCastOK(T, V))
          IN  bad' = IF good THEN bad ELSE bad \cup {l}
Next == l <= Len(Trace) /\ l' = l + 1 /\ (Eq \/ Pos)
Spec == Init /\ [][Next]_<<l, bad>>
Done == l = Len(Trace) + 1
Report == Done => PrintT(<<"@@bad@@", bad>>) /\ PrintT(<<"@@lines@@", Len(Trace)>>)
Accepted == TLCGet("stats").diameter = Len(Trace) + 1
=============================================================================
