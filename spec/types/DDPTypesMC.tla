----------------------------- MODULE DDPTypesMC -----------------------------
(* Pattern M: the oracle itself is lawful.  One state per ordered pair of the universe of depth Depth;
   the invariant evaluates reflexivity, symmetry, transitivity (all third types), alias transparency
   under every constructor, opacity of definitions and congruence of Assignable in that state.
   Also exports the universe for the harness (single source).                                     *)
EXTENDS DDPTypes, TLC, Json, SequencesExt
CONSTANTS Depth, ExportFile
VARIABLES a, b
U == Universe(Depth)
Init == a \in U /\ b \in U
Next == UNCHANGED <<a, b>>
Spec == Init /\ [][Next]_<<a, b>>
Lawful == Laws(a, b, U)
ASSUME ExportFile = "" \/ JsonSerialize(ExportFile, SetToSeq(U))
=============================================================================
