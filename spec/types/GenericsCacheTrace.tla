------------------------ MODULE GenericsCacheTrace ------------------------
(* Pattern T (monitor) over the events of hook H4, recorded while the real frontend parses a program:
   {"e":"reset"}                                                          a new parse (the cache is per parse: declarations are fresh)
   {"e":"inst","kind":"hit"|"new"|"done"|"extern","fn":f,"mod":m,"key":k,"nerr":n,"cache":[keys of the list of (f, m) after the step]}
   Every step must be enabled in GenericsCache, and the list the implementation holds after it must be the model's set for (f, m),
   without repetitions.                                                                                                          *)
EXTENDS GenericsCache, TLC, Json
CONSTANT TraceFile
VARIABLES l, cache, open, bad
Trace == ndJsonDeserialize(TraceFile)
Init == l = 1 /\ cache = EmptyCache /\ open = <<>> /\ bad = {}
ToSet(s) == {s[i] : i \in 1..Len(s)}
Reset == Trace[l].e = "reset" /\ cache' = EmptyCache /\ open' = <<>> /\ UNCHANGED bad
Step == /\ Trace[l].e = "inst"
        /\ LET ev == Trace[l]
               fm == <<ev.fn, ev.mod>>
               pre == CASE ev.kind = "extern" -> TRUE
                        [] ev.kind = "hit" -> HitOK(cache, fm, ev.key)
                        [] ev.kind = "new" -> NewOK(cache, fm, ev.key)
                        [] ev.kind = "done" -> DoneOK(open, fm, ev.key)
                        [] OTHER -> FALSE
               c2 == CASE ev.kind = "new" -> AfterNew(cache, fm, ev.key)
                       [] ev.kind = "done" -> AfterDone(cache, fm, ev.key, ev.nerr)
                       [] OTHER -> cache
               \* an instantiation of an EXTERN generic function is only a declaration (there is no body to check): how the implementation
               \* keeps those is not part of the contract; the model adopts its list
               same == ev.kind = "extern" \/ (ToSet(ev.cache) = Get(c2, fm) /\ Cardinality(ToSet(ev.cache)) = Len(ev.cache))
           IN  /\ bad' = IF pre /\ same THEN bad ELSE bad \cup {l}
               \* after a disagreement the model follows the implementation's list, so that the rest of the trace is still checked
               /\ cache' = Put(c2, fm, ToSet(ev.cache))
               /\ open' = CASE ev.kind = "new" -> Append(open, <<fm, ev.key>>)
                            [] ev.kind = "done" /\ open # <<>> -> SubSeq(open, 1, Len(open) - 1)
                            [] OTHER -> open
Next == l <= Len(Trace) /\ l' = l + 1 /\ (Reset \/ Step)
Spec == Init /\ [][Next]_<<l, cache, open, bad>>
Done == l = Len(Trace) + 1
Report == Done => PrintT(<<"@@bad@@", bad>>) /\ PrintT(<<"@@lines@@", Len(Trace)>>)
Accepted == TLCGet("stats").diameter = Len(Trace) + 1
=============================================================================
