------------------------------ MODULE DDPTypes ------------------------------
(* The type algebra of DDP (src/ddptypes) as the property states it.
   Type terms (records, every leaf a string so that TLC can compare any two terms):
     [k |-> "p", n |-> "Z"|"K"|"B"|"W"|"C"|"T"]    Zahl Kommazahl Byte Wahrheitswert Buchstabe Text
     [k |-> "v"]                                   Variable
     [k |-> "s", n |-> name]                       Kombination (nominal)
     [k |-> "l", e |-> T]                          list of T
     [k |-> "a", n |-> name, u |-> T]              type alias   "Wir nennen T auch n"      (transparent)
     [k |-> "d", n |-> name, u |-> T]              type definition "Wir definieren n als T" (opaque, nominal)
   Equivalence: strip aliases everywhere, compare structurally, definitions and Kombinationen by name. *)
EXTENDS Naturals, Sequences, FiniteSets

Prim(p)     == [k |-> "p", n |-> p]
Var         == [k |-> "v"]
Struct(n)   == [k |-> "s", n |-> n]
List(e)     == [k |-> "l", e |-> e]
Alias(n, u) == [k |-> "a", n |-> n, u |-> u]
Def(n, u)   == [k |-> "d", n |-> n, u |-> u]

RECURSIVE Strip(_)
Strip(t) == CASE t.k = "a" -> Strip(t.u)
              [] t.k = "l" -> List(Strip(t.e))
              [] t.k = "i" -> [k |-> "i", n |-> t.n, a |-> [j \in 1..Len(t.a) |-> Strip(t.a[j])]]       \* instantiated generic Kombination
              [] OTHER     -> t
Equal(a, b) == Strip(a) = Strip(b)

IsDef(t)     == Strip(t).k = "d"
IsVar(t)     == Strip(t).k = "v"
IsNumeric(t) == Strip(t) \in {Prim("Z"), Prim("K"), Prim("B")}

(* what initialisation and assignment accept (target T, value V; V is never "nothing" here) *)
Assignable(T, V) == Equal(T, V) \/ (IsNumeric(T) /\ IsNumeric(V)) \/ IsVar(T)
(* value argument: exactly equivalent types; return: equivalent, or anything into Variable *)
ArgOK(T, V) == Equal(T, V)
RetOK(T, V) == Equal(T, V) \/ IsVar(T)
(* explicit conversion V als T - specified by the property only where a definition is involved
   (and no Variable, which converts to and from everything with a run-time check)               *)
CastSpecified(T, V) == (IsDef(T) \/ IsDef(V)) /\ ~IsVar(T) /\ ~IsVar(V)
CastOK(T, V) == \/ (IsDef(T) /\ Equal(Strip(T).u, V))
                \/ (IsDef(V) /\ Equal(Strip(V).u, T))

(* a conversion in a reference context - the target of an assignment `Speichere e in x als T.`, the argument of a Referenz parameter
   `f (x als T)` - re-interprets the variable in place: only between a type and the types it is (a chain of) definitions or aliases of,
   i.e. both have the same representation type once the definitions and aliases AT THE TOP are removed (never inside a list)          *)
RECURSIVE TrueStrip(_)
TrueStrip(t) == LET s == Strip(t) IN IF s.k = "d" THEN TrueStrip(s.u) ELSE s
RefCastOK(T, V) == TrueStrip(T) = TrueStrip(V)

(* deterministic name of a term, used for the declared names of aliases and definitions *)
RECURSIVE Enc(_)
Enc(t) == CASE t.k = "p" -> t.n
            [] t.k = "v" -> "V"
            [] t.k = "s" -> t.n
            [] t.k = "l" -> "L" \o Enc(t.e)
            [] t.k = "a" -> t.n
            [] t.k = "d" -> t.n

Base == {Prim(p) : p \in {"Z", "K", "B", "W", "C", "T"}} \cup {Var, Struct("S1"), Struct("S2")}
Grow(S) == {List(t) : t \in S} \cup {Alias("A" \o Enc(t), t) : t \in S} \cup {Def("D" \o Enc(t), t) : t \in S}
U0 == Base
U1 == Grow(U0)
U2 == Grow(U1)
U3 == Grow(U2)
SecondDefs == {Def("E" \o Enc(t), t) : t \in U0}          \* another definition of the same base
\* lists of the named depth-2 types (alias of alias, alias of definition, ...): the part of depth 3 that DDP source can write
ListsOfNamed2 == {List(t) : t \in {x \in U2 : x.k \in {"a", "d"}}}
Universe(d) == CASE d = 1 -> U0 \cup U1 \cup SecondDefs
                 [] d = 2 -> U0 \cup U1 \cup U2 \cup SecondDefs \cup ListsOfNamed2
                 [] d = 3 -> U0 \cup U1 \cup U2 \cup U3 \cup SecondDefs

(* the laws, for one pair (a, b) and all c of a universe *)
Laws(a, b, U) ==
    /\ Equal(a, a)
    /\ Equal(a, b) => Equal(b, a)
    /\ \A c \in U : Equal(a, b) /\ Equal(b, c) => Equal(a, c)
    /\ Equal(Alias("X", a), a) /\ Equal(List(Alias("X", a)), List(a)) /\ Equal(Alias("Y", Alias("X", a)), a)
    /\ ~Equal(Def("X", a), a) /\ ~Equal(Def("X", a), Def("Y", a)) /\ ~Equal(List(Def("X", a)), List(a))
    /\ (Equal(a, b) => \A c \in U : Assignable(c, a) = Assignable(c, b) /\ Assignable(a, c) = Assignable(b, c))
=============================================================================
