--------------------------- MODULE GenericsTrace ---------------------------
(* {"e":"unify","params":[terms],"args":[terms],"accepted":bool}   acceptance of a call of a generic function by parser.Parse
   {"e":"unifyany","alts":[[terms]...],"args":[terms],"accepted":bool}
   {"e":"inst","a":[terms],"b":[terms],"same":bool}                 a value of K<a> is accepted where K<b> is required         *)
EXTENDS Generics, TLC, Json
CONSTANT TraceFile
VARIABLES l, bad
Trace == ndJsonDeserialize(TraceFile)
Init == l = 1 /\ bad = {}
Un == Trace[l].e = "unify" /\ bad' = (IF Trace[l].accepted = Unifies(Trace[l].params, Trace[l].args) THEN bad ELSE bad \cup {l})
\* several generic declarations behind one alias: the call is well typed iff one of them unifies
UnAny == Trace[l].e = "unifyany" /\ bad' = (IF Trace[l].accepted = (\E i \in 1..Len(Trace[l].alts) : Unifies(Trace[l].alts[i], Trace[l].args)) THEN bad ELSE bad \cup {l})
In == Trace[l].e = "inst" /\ bad' = (IF Trace[l].same = SameInstantiation(Trace[l].a, Trace[l].b) THEN bad ELSE bad \cup {l})
Next == l <= Len(Trace) /\ l' = l + 1 /\ (Un \/ UnAny \/ In)
Spec == Init /\ [][Next]_<<l, bad>>
Done == l = Len(Trace) + 1
Report == Done => PrintT(<<"@@bad@@", bad>>) /\ PrintT(<<"@@lines@@", Len(Trace)>>)
Accepted == TLCGet("stats").diameter = Len(Trace) + 1
=============================================================================
