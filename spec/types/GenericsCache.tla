--------------------------- MODULE GenericsCache ---------------------------
(* The cache of instantiations of generic functions (src/parser/alias.go InstantiateGenericFunction), implementation-shaped:
   per (generic function, module) a list of instantiations, identified by the function and its instantiated parameter types.
     Lookup(k):  k is in the list                      -> Hit(k), nothing changes
                 otherwise                              -> New(k): k is appended BEFORE its body is checked (so that recursion finds it),
                                                           the body is checked (which may look up / create further instantiations - nested steps),
                                                           then Done(k, nerr): an instantiation whose body had errors is removed again.
   Contract (what C15 and C04/C07 need of it): a key is in a list at most once; a lookup hits exactly when the key is in the list;
   after Done(k, nerr > 0) k is in no list - a failed instantiation is never found again, the next call checks the body again and
   reports its errors again; after Done(k, 0) k stays.  Nothing else ever changes a list.                                        *)
EXTENDS Naturals, Sequences, FiniteSets

\* cache: function from <<fn, module>> to a set of keys;  open: stack of instantiations whose body is being checked
EmptyCache == [x \in {} |-> {}]
Get(cache, fm) == IF fm \in DOMAIN cache THEN cache[fm] ELSE {}
Put(cache, fm, s) == [x \in DOMAIN cache \cup {fm} |-> IF x = fm THEN s ELSE cache[x]]

HitOK(cache, fm, k) == k \in Get(cache, fm)
NewOK(cache, fm, k) == k \notin Get(cache, fm)
AfterNew(cache, fm, k) == Put(cache, fm, Get(cache, fm) \cup {k})
DoneOK(open, fm, k) == open # <<>> /\ open[Len(open)] = <<fm, k>>          \* bodies are checked in a nested fashion
AfterDone(cache, fm, k, nerr) == IF nerr > 0 THEN Put(cache, fm, Get(cache, fm) \ {k}) ELSE cache
=============================================================================
