----------------------------- MODULE Determinism -----------------------------
(* Choice points of the compiler that Go leaves open, made explicit (C16):
     - the iteration order of the map of a module's public declarations (ast/helper.go IterateImportedDecls), followed by
       a sort by source position with a comparator  Less  and Go's insertion sort for small slices;
   Property: what the importer observes (the order in which the imported declarations are processed, hence which of several
   name clashes is reported first) is the same for EVERY iteration order, and it is the source order.
   Comparator "implemented": line< \/ col<   (as pinned; not a strict weak order)      "lexicographic": line<, then col<.   *)
EXTENDS Naturals, Sequences, FiniteSets, TLC, Json, SequencesExt
CONSTANTS Comparator, MaxSize, ExportFile
VARIABLES pop, perm            \* a population of declaration positions and one iteration order of it

Pos == {[l |-> l, c |-> c] : l \in 1..3, c \in {1, 3}}
LessImpl(a, b) == a.l < b.l \/ a.c < b.c
LessLex(a, b) == a.l < b.l \/ (a.l = b.l /\ a.c < b.c)
Less(a, b) == IF Comparator = "implemented" THEN LessImpl(a, b) ELSE LessLex(a, b)

(* insertion sort as in Go's sort.Slice for short slices: for i := 1..n-1: for j := i; j > 0 && less(j, j-1): swap(j, j-1) *)
RECURSIVE Sink(_, _)
Sink(s, j) == IF j > 1 /\ Less(s[j], s[j - 1]) THEN Sink([s EXCEPT ![j] = s[j - 1], ![j - 1] = s[j]], j - 1) ELSE s
RECURSIVE InsSort(_, _)
InsSort(s, i) == IF i > Len(s) THEN s ELSE InsSort(Sink(s, i), i + 1)
Sorted(s) == InsSort(s, 2)

Perms(S) == {p \in [1..Cardinality(S) -> S] : \A i, j \in 1..Cardinality(S) : i # j => p[i] # p[j]}
SourceOrder(S) == CHOOSE p \in Perms(S) : \A i, j \in 1..Cardinality(S) : i < j => LessLex(p[i], p[j])
Pops == {S \in SUBSET Pos : Cardinality(S) >= 2 /\ Cardinality(S) <= MaxSize}

Init == pop \in Pops /\ perm \in Perms(pop)
Next == UNCHANGED <<pop, perm>>
Spec == Init /\ [][Next]_<<pop, perm>>
\* the observable result does not depend on the iteration order and is the source order
OrderIndependent == Sorted(perm) = SourceOrder(pop)

Dependent(S) == \E p \in Perms(S) : Sorted(p) # SourceOrder(S)
ASSUME ExportFile = "" \/ JsonSerialize(ExportFile, SetToSeq({SetToSeq(S) : S \in {T \in Pops : Dependent(T)}}))
=============================================================================
