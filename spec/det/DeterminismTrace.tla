-------------------------- MODULE DeterminismTrace --------------------------
(* {"e":"rep","ids":[observation ids of N repeated compilations of the same sources],"first":k,"expect":k'}
   ids: equal numbers = equal observations (verdict, diagnostics in order with their texts, AST dump / stderr / program output);
   first/expect (0 = not applicable): which declaration's clash was reported first vs. the first one in source order          *)
EXTENDS Naturals, Sequences, TLC, Json
CONSTANT TraceFile
VARIABLES l, bad
Trace == ndJsonDeserialize(TraceFile)
Init == l = 1 /\ bad = {}
Repeatable(ev) == \A i \in 1..Len(ev.ids) : ev.ids[i] = ev.ids[1]
Rep == /\ Trace[l].e = "rep"
       /\ bad' = IF Repeatable(Trace[l]) /\ (Trace[l].expect = 0 \/ Trace[l].first = Trace[l].expect) THEN bad ELSE bad \cup {l}
Next == l <= Len(Trace) /\ l' = l + 1 /\ Rep
Spec == Init /\ [][Next]_<<l, bad>>
Done == l = Len(Trace) + 1
Report == Done => PrintT(<<"@@bad@@", bad>>) /\ PrintT(<<"@@lines@@", Len(Trace)>>)
Accepted == TLCGet("stats").diameter = Len(Trace) + 1
=============================================================================
