----------------------------- MODULE DDPRunTrace -----------------------------
(* Pattern T (monitor): programs (JSON ASTs) and what their compiled executables did.
   {"e":"prog","id":..,"p":program}
   {"e":"obs","cfg":"O1", "out":[code points of stdout], "rterr":bool (stderr starts with Laufzeitfehler), "code":exit status}
   Each obs event must be what DDPSem!Run predicts for the last prog: same stdout and verdict
   (rterr <=> "Laufzeitfehler" + exit 1, otherwise exit 0); when the program reaches an unspecified corner only
   the output up to that point is compared.  Expected outputs of disagreeing events are printed.  *)
EXTENDS DDPSem, Json
CONSTANTS TraceFile, Fuel, Plan      \* Plan: only classify programs (ok / rterr / unspec), nothing observed yet
VARIABLES l, exp, bad, nunspec
Trace == ndJsonDeserialize(TraceFile)
Init == l = 1 /\ exp = [out |-> <<>>, sig |-> "ok"] /\ bad = {} /\ nunspec = 0
IsPrefix(a, b) == Len(a) <= Len(b) /\ SubSeq(b, 1, Len(a)) = a
Prog == /\ Trace[l].e = "prog"
        /\ exp' = Run(Trace[l].p, Fuel)
        /\ nunspec' = nunspec + (IF exp'.sig = "unspec" THEN 1 ELSE 0)
        /\ (IF exp'.sig = "unspec" /\ ~Plan THEN PrintT(<<"@@unspecat@@", l, exp'.sig, exp'.out>>) ELSE TRUE)
        /\ (IF Plan THEN PrintT(<<"@@sig@@", l, exp'.sig>>) ELSE TRUE)
        /\ UNCHANGED bad
Obs == /\ Trace[l].e = "obs"
       /\ LET ev == Trace[l]
              good == CASE exp.sig = "ok" -> ev.out = exp.out /\ ~ev.rterr /\ ev.code = 0
                        [] exp.sig = "rterr" -> ev.out = exp.out /\ ev.rterr /\ ev.code = 1
                        [] OTHER -> IsPrefix(exp.out, ev.out)
          IN  /\ bad' = IF good THEN bad ELSE bad \cup {l}
              /\ (IF good THEN TRUE ELSE PrintT(<<"@@exp@@", l, exp.sig, exp.out>>))
       /\ UNCHANGED <<exp, nunspec>>
Next == l <= Len(Trace) /\ l' = l + 1 /\ (Prog \/ Obs)
Spec == Init /\ [][Next]_<<l, exp, bad, nunspec>>
Done == l = Len(Trace) + 1
Report == Done => PrintT(<<"@@bad@@", bad>>) /\ PrintT(<<"@@unspec@@", nunspec>>) /\ PrintT(<<"@@lines@@", Len(Trace)>>)
Accepted == TLCGet("stats").diameter = Len(Trace) + 1
=============================================================================
