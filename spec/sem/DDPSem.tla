------------------------------- MODULE DDPSem -------------------------------
(* Big-step evaluation rules of the DDP core language (DESIGN.md Appendix A), one case per AST node kind,
   mirroring the Visit* methods of the code generator.  A program P is the JSON AST (Appendix B):
     P.structs = << [n, fields : << [n, t, def : expr] >>] >>
     P.funcs   = << [n, params : << [n, t, ref] >>, ret : type | "none", body : <<stmt>>] >>
     P.main    = <<stmt>>
   Machine state  st = [store : <<values>> (a location is an index), out : <<code points>>,
                        sig : "ok" | "rterr" | "unspec", fuel : Nat]
   An environment maps names to references  [loc, path]  (path: selectors into the stored value), so that
   Referenz parameters alias the caller's variable, element or field; env = [l : locals, g : globals].
   "unspec": the program reached a corner DDP leaves open - the observation is compared only up to there. *)
EXTENDS DDPValues, Precedence, TLC

CONSTANT DecSep          \* code point of the decimal separator printed by the runtime (locale!)

Ok(st) == st.sig = "ok"
Fail(st, sig) == [st EXCEPT !.sig = sig]
R(v, st) == [v |-> v, st |-> st]
RU(st) == R(U, Fail(st, "unspec"))
RErr(st) == R(U, Fail(st, "rterr"))
Emit(st, cps) == [st EXCEPT !.out = @ \o cps]

(* ---------------- paths into values ---------------- *)
Sel(i) == [k |-> "i", i |-> i, f |-> ""]
SelF(f) == [k |-> "f", i |-> 0, f |-> f]
FieldIdx(sv, f) == CHOOSE i \in 1..Len(sv.f) : sv.f[i].n = f
RECURSIVE GetPath(_, _)
GetPath(v, path) ==
    IF path = <<>> THEN v
    ELSE LET s == Head(path)
         IN  IF s.k = "f" THEN GetPath(v.f[FieldIdx(v, s.f)].v, Tail(path))
             ELSE IF v.k = "T" THEN CV(v.v[s.i])
             ELSE GetPath(v.v[s.i], Tail(path))
RECURSIVE PutPath(_, _, _)
PutPath(v, path, nv) ==
    IF path = <<>> THEN nv
    ELSE LET s == Head(path)
         IN  IF s.k = "f" THEN LET i == FieldIdx(v, s.f) IN [v EXCEPT !.f[i] = [n |-> @.n, v |-> PutPath(@.v, Tail(path), nv)]]
             ELSE IF v.k = "T" THEN [v EXCEPT !.v[s.i] = nv.v]
             ELSE [v EXCEPT !.v[s.i] = PutPath(@, Tail(path), nv)]

Lookup(env, n) == IF n \in DOMAIN env.l THEN env.l[n] ELSE env.g[n]
Bind(env, n, ref, global) == IF global THEN [env EXCEPT !.g = (n :> ref) @@ @] ELSE [env EXCEPT !.l = (n :> ref) @@ @]
Alloc(st, v) == [st EXCEPT !.store = Append(@, v)]
NewLoc(st) == Len(st.store) + 1
Ref(loc, path) == [loc |-> loc, path |-> path]
Read(st, ref) == GetPath(st.store[ref.loc], ref.path)
Write(st, ref, v) == [st EXCEPT !.store[ref.loc] = PutPath(@, ref.path, v)]

(* ---------------- defaults ---------------- *)
StructDecl(P, n) == P.structs[CHOOSE i \in 1..Len(P.structs) : P.structs[i].n = n]
FuncDecl(P, n) == P.funcs[CHOOSE i \in 1..Len(P.funcs) : P.funcs[i].n = n]
IsListT(t) == "l" \in DOMAIN t
IsStructT(t) == "s" \in DOMAIN t

(* ---------------- numeric helpers ---------------- *)
SmallIdx(v) ==      \* index/count operand (Zahl or Byte) as a small integer, or "big" marker 2^30 / -2^30
    IF v.k = "B" THEN v.v
    ELSE IF FitsSmall(v.v) THEN ToSmall(v.v) ELSE IF IsNeg(v.v) THEN 0 - 1073741824 ELSE 1073741824
BToZ(v) == IF v.k = "B" THEN ZI(v.v) ELSE v

Arith(op, a, b) ==
    IF IsU(a) \/ IsU(b) THEN U
    ELSE IF a.k = "Z" /\ b.k = "Z" THEN ZV(CASE op = "plus" -> Add(a.v, b.v) [] op = "minus" -> Sub(a.v, b.v) [] OTHER -> Mul(a.v, b.v))
    ELSE IF a.k = "B" /\ b.k = "B" THEN BV((CASE op = "plus" -> a.v + b.v [] op = "minus" -> a.v - b.v + 256 [] OTHER -> a.v * b.v) % 256)
    ELSE IF a.k = "K" \/ b.k = "K" THEN
         LET x == NumToK(a)
             y == NumToK(b)
         IN  IF IsU(x) \/ IsU(y) THEN U ELSE CASE op = "plus" -> KAdd(x, y) [] op = "minus" -> KSub(x, y) [] OTHER -> KMul(x, y)
    ELSE LET x == BToZ(a).v      \* Zahl and Byte mixed: the Byte is widened, the result is a Zahl
             y == BToZ(b).v
         IN  ZV(CASE op = "plus" -> Add(x, y) [] op = "minus" -> Sub(x, y) [] OTHER -> Mul(x, y))

Compare(op, a, b) ==
    IF IsU(a) \/ IsU(b) THEN U
    ELSE IF a.k = "K" \/ b.k = "K" THEN
         LET x == NumToK(a)
             y == NumToK(b)
         IN  IF IsU(x) \/ IsU(y) \/ ~KIsFin(x) \/ ~KIsFin(y) THEN U
             ELSE WV(CASE op = "lt" -> KLess(x, y) [] op = "gt" -> KLess(y, x) [] op = "le" -> ~KLess(y, x) [] OTHER -> ~KLess(x, y))
    ELSE LET x == BToZ(a).v
             y == BToZ(b).v
         IN  WV(CASE op = "lt" -> SLess(x, y) [] op = "gt" -> SLess(y, x) [] op = "le" -> SLeq(x, y) [] OTHER -> SLeq(y, x))

ModOp(a, b) ==
    IF IsU(a) \/ IsU(b) THEN U
    ELSE IF a.k = "B" /\ b.k = "B" THEN (IF b.v = 0 THEN U ELSE BV(a.v % b.v))
    ELSE LET x == BToZ(a).v
             y == BToZ(b).v
         IN  IF y = Zero \/ (x = MinInt /\ y = FromInt(0 - 1)) THEN U
             ELSE ZV(SRem(x, y))

(* a hoch b: a Kommazahl; specified for an integral exponent of small magnitude (exact repeated multiplication inside the dyadic fragment,
   the reciprocal for a negative exponent; 0 hoch n for n < 0 is +Unendlich); everything else (fractional exponents, large results) is open *)
RECURSIVE KPow(_, _)
KPow(x, n) == IF n = 0 THEN KFin(1, 0) ELSE LET r == KPow(x, n - 1) IN IF IsU(r) THEN U ELSE KMul(x, r)
PowOp(a, b) ==
    IF IsU(a) \/ IsU(b) THEN U
    ELSE LET x == NumToK(a)
             n == IF b.k = "K" THEN (IF KIsFin(b) /\ b.e = 0 THEN b.m ELSE 99) ELSE SmallIdx(b)
         IN  IF IsU(x) \/ ~KIsFin(x) \/ n > 12 \/ n < 0 - 12 THEN U
             ELSE IF n >= 0 THEN KPow(x, n)
             ELSE LET d == KPow(x, 0 - n) IN IF IsU(d) THEN U ELSE KDiv(KFin(1, 0), d)

BitOp(op, a, b) ==
    IF IsU(a) \/ IsU(b) THEN U
    ELSE IF a.k = "Z" /\ b.k = "Z" THEN ZV(CASE op = "band" -> BAnd(a.v, b.v) [] op = "bor" -> BOr(a.v, b.v) [] OTHER -> BXor(a.v, b.v))
    ELSE IF a.k = "B" /\ b.k = "B" THEN BV(CASE op = "band" -> a.v & b.v [] op = "bor" -> a.v | b.v [] OTHER -> a.v ^^ b.v)
    ELSE LET x == BToZ(a).v      \* mixed: the Byte is widened
             y == BToZ(b).v
         IN  ZV(CASE op = "band" -> BAnd(x, y) [] op = "bor" -> BOr(x, y) [] OTHER -> BXor(x, y))

ShiftOp(op, a, b) ==      \* the result has the type of the left operand; an amount outside 0..width-1 is open
    IF IsU(a) \/ IsU(b) THEN U
    ELSE LET n == SmallIdx(b)
         IN  IF a.k = "Z" THEN (IF n < 0 \/ n > 63 THEN U ELSE ZV(IF op = "shl" THEN Shl(a.v, n) ELSE Shr(a.v, n)))
             ELSE IF n < 0 \/ n > 7 THEN U ELSE BV(IF op = "shl" THEN (a.v * (2 ^ n)) % 256 ELSE a.v \div (2 ^ n))

(* ---------------- texts and lists ---------------- *)
Clamp(i, lo, hi) == IF i < lo THEN lo ELSE IF i > hi THEN hi ELSE i
\* im Bereich von a bis b; returns [err, v]
SliceOp(c, ia, ib) ==
    LET n == Len(c.v)
    IN  IF n = 0 THEN [err |-> FALSE, v |-> c]
        ELSE LET a == Clamp(ia, 1, n)
                 b == Clamp(ib, 1, n)
             IN  IF b < a THEN [err |-> TRUE, v |-> U] ELSE [err |-> FALSE, v |-> [c EXCEPT !.v = SubSeq(c.v, a, b)]]

ConcatOp(a, b) ==
    IF IsU(a) \/ IsU(b) THEN U
    ELSE IF a.k = "T" /\ b.k = "T" THEN TV(a.v \o b.v)
    ELSE IF a.k = "T" /\ b.k = "C" THEN (IF IsScalarCp(b.v) THEN TV(Append(a.v, b.v)) ELSE U)
    ELSE IF a.k = "C" /\ b.k = "T" THEN (IF IsScalarCp(a.v) THEN TV(<<a.v>> \o b.v) ELSE U)
    ELSE IF a.k = "L" /\ b.k = "L" THEN LV(a.et, a.v \o b.v)
    ELSE IF a.k = "L" THEN LV(a.et, Append(a.v, b))
    ELSE IF b.k = "L" THEN LV(b.et, <<a>> \o b.v)
    ELSE LV(TypeOf(a), <<a, b>>)

(* ---------------- conversions (als) ---------------- *)
RECURSIVE SkipBlanks(_, _)
SkipBlanks(s, i) == IF i <= Len(s) /\ s[i] \in {32, 9, 10, 11, 12, 13} THEN SkipBlanks(s, i + 1) ELSE i
RECURSIVE DigitsFrom(_, _)
DigitsFrom(s, i) == IF i <= Len(s) /\ s[i] >= 48 /\ s[i] <= 57 THEN <<s[i]>> \o DigitsFrom(s, i + 1) ELSE <<>>
TextToZ(s) ==      \* strtoll(…, 10): blanks, optional sign, digits; no digits -> 0; out of range -> U
    LET i  == SkipBlanks(s, 1)
        sg == IF i <= Len(s) /\ s[i] \in {43, 45} THEN 1 ELSE 0
        ds == DigitsFrom(s, i + sg)
        p  == ParseDigits(ds, 1, [v |-> Zero, ovf |-> FALSE])
        neg == sg = 1 /\ s[i] = 45
    IN  IF ds = <<>> THEN ZI(0)
        ELSE IF p.ovf \/ (~neg /\ IsNeg(p.v)) \/ (neg /\ IsNeg(p.v) /\ p.v # MinInt) THEN U
        ELSE ZV(IF neg THEN Neg(p.v) ELSE p.v)

RECURSIVE ToTextV(_)
ToTextV(v) == CASE v.k = "Z" -> TV(ToDec(v.v))
                [] v.k = "B" -> TV(NatDec(v.v))
                [] v.k = "K" -> IF KIsFin(v) THEN TV(KToText(v, DecSep)) ELSE U      \* inf/nan under "als Text": U
                [] v.k = "W" -> TV(WText(v.v))
                [] v.k = "C" -> IF IsScalarCp(v.v) THEN TV(<<v.v>>) ELSE U
                [] v.k = "T" -> v
                [] OTHER -> U

\* returns [err, v]; err: Laufzeitfehler (Variable holding another type)
RECURSIVE CastOp(_, _)
CastOp(v, to) ==
    LET ok(x) == [err |-> FALSE, v |-> x]
    IN  IF IsU(v) THEN ok(U)
        ELSE IF v.k = "V" THEN (IF BaseOf(to) = "V" THEN ok(v) ELSE IF TEq(TypeOf(v.v), to) THEN ok(v.v) ELSE [err |-> TRUE, v |-> U])
        ELSE IF BaseOf(to) = "V" THEN ok([k |-> "V", v |-> v])
        ELSE IF IsDefT(to) THEN (IF IsTagged(v) THEN ok(v) ELSE ok(Tag(v, to.d)))       \* underlying type -> definition (or the identity)
        ELSE IF IsTagged(v) THEN ok(Untag(v))                                            \* definition -> its underlying type (the only other legal target)
        ELSE IF IsListT(to) THEN (IF v.k = "L" THEN ok(v) ELSE ok(LV(to.l, <<v>>)))
        ELSE IF TypeOf(v) = to THEN ok(v)
        ELSE ok(CASE BaseOf(to) = "Z" -> (CASE v.k = "K" -> KToZ(v) [] v.k = "B" -> ZI(v.v) [] v.k = "W" -> ZI(IF v.v THEN 1 ELSE 0)
                                   [] v.k = "C" -> ZI(v.v) [] v.k = "T" -> TextToZ(v.v) [] OTHER -> U)
                  [] BaseOf(to) = "K" -> (CASE v.k = "Z" -> ZToK(v.v) [] v.k = "B" -> BToK(v.v) [] OTHER -> U)      \* Text -> Kommazahl: U
                  [] BaseOf(to) = "B" -> (CASE v.k = "Z" -> BV(v.v[1])
                                    [] v.k = "K" -> (LET z == KToZ(v) IN IF IsU(z) \/ ~FitsSmall(z.v) \/ ToSmall(z.v) < 0 \/ ToSmall(z.v) > 255 THEN U ELSE BV(ToSmall(z.v)))
                                    [] OTHER -> U)
                  [] BaseOf(to) = "W" -> (CASE v.k = "Z" -> WV(v.v # Zero) [] v.k = "B" -> WV(v.v # 0) [] OTHER -> U)
                  [] BaseOf(to) = "C" -> (CASE v.k = "Z" -> (IF v.v[5] = 0 /\ v.v[6] = 0 /\ v.v[7] = 0 /\ v.v[8] = 0 /\ v.v[4] < 128
                                                      THEN CV(v.v[1] + 256 * v.v[2] + 65536 * v.v[3] + 16777216 * v.v[4]) ELSE U)
                                    [] v.k = "B" -> CV(v.v) [] OTHER -> U)
                  [] BaseOf(to) = "T" -> ToTextV(v)
                  [] OTHER -> U)

(* implicit numeric conversion on initialisation / assignment *)
Coerce(v, t) == IF IsU(v) THEN U
                ELSE IF BaseOf(t) = "V" THEN (IF v.k = "V" THEN v ELSE [k |-> "V", v |-> v])
                ELSE IF BaseOf(t) \in {"Z", "K", "B"} /\ v.k \in {"Z", "K", "B"} /\ v.k # BaseOf(t) THEN CastOp(v, t).v
                ELSE v

(* =================================================================================================== *)
RECURSIVE Eval(_, _, _, _), EvalSeq(_, _, _, _, _), EvalLv(_, _, _, _), Exec(_, _, _, _), ExecSeq(_, _, _, _, _),
          CallFn(_, _, _, _), WhileLoop(_, _, _, _, _), ForLoop(_, _, _, _, _, _, _), EachLoop(_, _, _, _, _, _), DefaultOf(_, _, _),
          BindArgs(_, _, _, _, _, _, _), RepeatLoop(_, _, _, _, _), NewStruct(_, _, _, _, _, _, _)

(* default value of a type; Kombination defaults evaluate the declared default expressions *)
DefaultOf(P, t, st) ==
    CASE BaseOf(t) = "Z" -> R(ZI(0), st) [] BaseOf(t) = "K" -> R(KFin(0, 0), st) [] BaseOf(t) = "B" -> R(BV(0), st) [] BaseOf(t) = "W" -> R(WV(FALSE), st)
      [] BaseOf(t) = "C" -> R(CV(0), st) [] BaseOf(t) = "T" -> R(TV(<<>>), st) [] BaseOf(t) = "V" -> RU(st)
      [] IsListT(t) -> R(LV(t.l, <<>>), st)
      [] IsDefT(t) -> (LET r == DefaultOf(P, t.of, st) IN IF IsU(r.v) THEN r ELSE R(Tag(r.v, t.d), r.st))
      [] OTHER -> NewStruct(P, StructDecl(P, t.s), <<>>, 1, <<>>, [l |-> <<>>, g |-> <<>>], st)

\* builds a Kombination: given = << [p, v] >> values for some fields, the others take their default expression
NewStruct(P, sd, given, i, acc, env, st) ==
    IF i > Len(sd.fields) THEN R([k |-> "S", n |-> sd.n, f |-> acc], st)
    ELSE LET fd == sd.fields[i]
             g  == SelectSeq(given, LAMBDA x : x.p = fd.n)
         IN  IF g # <<>> THEN NewStruct(P, sd, given, i + 1, Append(acc, [n |-> fd.n, v |-> Coerce(g[1].v, fd.t)]), env, st)
             ELSE LET d == IF fd.def.k = "none" THEN DefaultOf(P, fd.t, st) ELSE Eval(P, fd.def, [l |-> <<>>, g |-> env.g], st)
                  IN  IF ~Ok(d.st) THEN d ELSE NewStruct(P, sd, given, i + 1, Append(acc, [n |-> fd.n, v |-> Coerce(d.v, fd.t)]), env, d.st)

\* evaluates a sequence of expressions left to right: [vs, st]
EvalSeq(P, es, i, env, st) ==
    IF i > Len(es) THEN [vs |-> <<>>, st |-> st]
    ELSE LET r == Eval(P, es[i], env, st)
         IN  IF ~Ok(r.st) THEN [vs |-> <<>>, st |-> r.st]
             ELSE LET rest == EvalSeq(P, es, i + 1, env, r.st) IN [vs |-> <<r.v>> \o rest.vs, st |-> rest.st]

IndexInto(c, iv, st) ==      \* c: Text or list value, iv: index value
    IF IsU(c) \/ IsU(iv) THEN RU(st)
    ELSE LET i == SmallIdx(iv)
         IN  IF i < 1 \/ i > Len(c.v) THEN RErr(st) ELSE R(IF c.k = "T" THEN CV(c.v[i]) ELSE c.v[i], st)

RECURSIVE EvalK1(_,_,_,_), EvalK2(_,_,_,_), EvalK3(_,_,_,_), EvalK4(_,_,_,_), EvalK5(_,_,_,_), EvalK6(_,_,_,_), EvalK7(_,_,_,_), EvalK8(_,_,_,_), EvalK9(_,_,_,_), EvalK10(_,_,_,_), EvalK11(_,_,_,_), EvalK12(_,_,_,_), EvalK13(_,_,_,_), EvalK14(_,_,_,_), EvalK15(_,_,_,_)
EvalK1(P, e, env, st) ==
    R(e.v, st)

EvalK2(P, e, env, st) ==
    R(Read(st, Lookup(env, e.n)), st)

EvalK3(P, e, env, st) ==
    DefaultOf(P, e.t, st)

EvalK4(P, e, env, st) ==
    LET r == Eval(P, e.r, env, st)
               v == r.v
           IN  IF ~Ok(r.st) THEN r ELSE IF IsU(v) THEN RU(r.st)
               ELSE CASE e.op = "neg" -> (CASE v.k = "Z" -> R(ZV(Neg(v.v)), r.st) [] v.k = "K" -> (LET x == KNeg(v) IN IF IsU(x) THEN RU(r.st) ELSE R(x, r.st)) [] OTHER -> RU(r.st))
                      [] e.op = "abs" -> (CASE v.k = "Z" -> R(ZV(Abs(v.v)), r.st) [] v.k = "K" -> (IF KIsFin(v) THEN R(KFin(AbsI(v.m), v.e), r.st) ELSE RU(r.st)) [] OTHER -> RU(r.st))
                      [] e.op = "not" -> R(WV(~v.v), r.st)
                      [] e.op = "lnot" -> (CASE v.k = "Z" -> R(ZV(BNot(v.v)), r.st) [] v.k = "B" -> R(BV(255 - v.v), r.st) [] OTHER -> RU(r.st))
                      [] e.op = "len" -> R(ZI(Len(v.v)), r.st)

EvalK5(P, e, env, st) ==
    LET a == Eval(P, e.l, env, st)
           IN  IF ~Ok(a.st) THEN a ELSE IF IsU(a.v) THEN RU(a.st)
               ELSE IF (e.op = "and" /\ ~a.v.v) \/ (e.op = "or" /\ a.v.v) THEN a
               ELSE Eval(P, e.r, env, a.st)

EvalK6(P, e, env, st) ==
    LET a == Eval(P, e.l, env, st)
           IN  IF ~Ok(a.st) THEN a
               ELSE LET b == Eval(P, e.r, env, a.st)
                        s2 == b.st
                        fin(v) == IF IsU(v) THEN RU(s2) ELSE R(v, s2)
                    IN  IF ~Ok(b.st) THEN b
                        ELSE CASE e.op \in {"plus", "minus", "mal"} -> fin(Arith(e.op, a.v, b.v))
                               [] e.op = "durch" -> fin(LET x == NumToK(a.v) y == NumToK(b.v) IN IF IsU(x) \/ IsU(y) THEN U ELSE KDiv(x, y))
                               [] e.op = "mod" -> fin(ModOp(a.v, b.v))
                               [] e.op = "pow" -> fin(PowOp(a.v, b.v))
                               [] e.op \in {"band", "bor", "bxor"} -> fin(BitOp(e.op, a.v, b.v))
                               [] e.op \in {"shl", "shr"} -> fin(ShiftOp(e.op, a.v, b.v))
                               [] e.op \in {"lt", "le", "gt", "ge"} -> fin(Compare(e.op, a.v, b.v))
                               [] e.op = "eq" -> fin(VEq(a.v, b.v))
                               [] e.op = "ne" -> fin(LET q == VEq(a.v, b.v) IN IF IsU(q) THEN U ELSE WV(~q.v))
                               [] e.op = "xor" -> fin(IF IsU(a.v) \/ IsU(b.v) THEN U ELSE WV(a.v.v # b.v.v))
                               [] e.op = "cat" -> fin(ConcatOp(a.v, b.v))
                               [] e.op = "idx" -> IndexInto(a.v, b.v, s2)
                               [] e.op = "sfrom" -> (IF IsU(a.v) \/ IsU(b.v) THEN RU(s2) ELSE LET q == SliceOp(a.v, SmallIdx(b.v), Len(a.v.v)) IN IF q.err THEN RErr(s2) ELSE R(q.v, s2))
                               [] e.op = "sto" -> (IF IsU(a.v) \/ IsU(b.v) THEN RU(s2) ELSE LET q == SliceOp(a.v, 1, SmallIdx(b.v)) IN IF q.err THEN RErr(s2) ELSE R(q.v, s2))

EvalK7(P, e, env, st) ==
    LET r == Eval(P, e.e, env, st)
           IN  IF ~Ok(r.st) THEN r ELSE IF IsU(r.v) THEN RU(r.st) ELSE R(r.v.f[FieldIdx(r.v, e.f)].v, r.st)

EvalK8(P, e, env, st) ==
    LET c == Eval(P, e.m, env, st)
           IN  IF ~Ok(c.st) THEN c ELSE IF IsU(c.v) THEN RU(c.st)
               ELSE IF c.v.v THEN Eval(P, e.l, env, c.st) ELSE Eval(P, e.r, env, c.st)

EvalK9(P, e, env, st) ==
    LET q == EvalSeq(P, <<e.l, e.m, e.r>>, 1, env, st)
               s2 == q.st
           IN  IF ~Ok(s2) THEN R(U, s2)
               ELSE LET a == q.vs[1]
                        m == q.vs[2]
                        b == q.vs[3]
                    IN  IF IsU(a) \/ IsU(m) \/ IsU(b) THEN RU(s2)
                        ELSE IF e.op = "slice" THEN (LET z == SliceOp(a, SmallIdx(m), SmallIdx(b)) IN IF z.err THEN RErr(s2) ELSE R(z.v, s2))
                        ELSE LET gtb == Compare("gt", a, b) ltm == Compare("lt", a, m) gtm == Compare("gt", a, m) ltb == Compare("lt", a, b)
                             IN  IF IsU(gtb) \/ IsU(ltm) \/ IsU(gtm) \/ IsU(ltb) THEN RU(s2)
                                 ELSE R(WV((gtb.v /\ ltm.v) \/ (gtm.v /\ ltb.v)), s2)

EvalK10(P, e, env, st) ==
    LET r == Eval(P, e.l, env, st)
           IN  IF ~Ok(r.st) THEN r
               ELSE LET c == CastOp(r.v, e.to) IN IF c.err THEN RErr(r.st) ELSE IF IsU(c.v) THEN RU(r.st) ELSE R(c.v, r.st)

EvalK11(P, e, env, st) ==
    LET r == Eval(P, e.l, env, st)
           IN  IF ~Ok(r.st) THEN r ELSE IF IsU(r.v) THEN RU(r.st) ELSE R(WV(TEq(TypeOf(r.v.v), e.t)), r.st)

EvalK12(P, e, env, st) ==
    LET q == EvalSeq(P, e.vals, 1, env, st)
           IN  IF ~Ok(q.st) THEN R(U, q.st)
               ELSE IF \E i \in 1..Len(q.vs) : IsU(q.vs[i]) THEN RU(q.st) ELSE R(LV(e.et, q.vs), q.st)

EvalK13(P, e, env, st) ==
    LET q == EvalSeq(P, [i \in 1..Len(e.args) |-> e.args[i].e], 1, env, st)
           IN  IF ~Ok(q.st) THEN R(U, q.st)
               ELSE IF \E i \in 1..Len(q.vs) : IsU(q.vs[i]) THEN RU(q.st)
               ELSE NewStruct(P, StructDecl(P, e.s), [i \in 1..Len(e.args) |-> [p |-> e.args[i].p, v |-> q.vs[i]]], 1, <<>>, env, q.st)

EvalK14(P, e, env, st) ==
    CallFn(P, e, env, st)

\* the current value of an assignable (used by the compound assignments, which are defined by their expansion)
EvalK15(P, e, env, st) ==
    LET r == EvalLv(P, e.lv, env, st)
    IN  IF ~Ok(r.st) THEN R(U, r.st)
        ELSE LET v == Read(r.st, r.ref) IN IF IsU(v) THEN RU(r.st) ELSE R(v, r.st)

(* die Größe von <Typ>: the size in bytes of the published value representation (lib/runtime/include/DDP/ddptypes.h, C ABI of x86-64):
   Zahl / Kommazahl 8, Byte / Wahrheitswert 1, Buchstabe 4, Text 16 (pointer, capacity), every list 24 (pointer, length, capacity), Variable 24
   (vtable pointer, 16 byte buffer); a Kombination is a C struct of its fields in order of declaration: every field at the next multiple of
   its alignment, the whole rounded up to the largest alignment.  A type definition has the representation of its underlying type.            *)
RECURSIVE SizeAlign(_, _), LayoutFields(_, _, _, _, _)
RoundUp(n, a) == ((n + a - 1) \div a) * a
LayoutFields(P, fs, i, off, mx) ==
    IF i > Len(fs) THEN [size |-> RoundUp(off, mx), align |-> mx]
    ELSE LET sa == SizeAlign(P, fs[i].t)
             at == RoundUp(off, sa.align)
         IN  LayoutFields(P, fs, i + 1, at + sa.size, IF sa.align > mx THEN sa.align ELSE mx)
SizeAlign(P, t) ==
    CASE BaseOf(t) \in {"Z", "K"} -> [size |-> 8, align |-> 8]
      [] BaseOf(t) \in {"B", "W"} -> [size |-> 1, align |-> 1]
      [] BaseOf(t) = "C" -> [size |-> 4, align |-> 4]
      [] BaseOf(t) = "T" -> [size |-> 16, align |-> 8]
      [] BaseOf(t) = "V" -> [size |-> 24, align |-> 8]
      [] IsListT(t) -> [size |-> 24, align |-> 8]
      [] IsDefT(t) -> SizeAlign(P, t.of)
      [] IsStructT(t) -> LayoutFields(P, StructDecl(P, t.s).fields, 1, 0, 1)
      [] OTHER -> [size |-> 0, align |-> 1]

\* a list of n copies of v (n evaluated first); more than 64 elements are outside the model
EvalFill(P, e, env, st) ==
    LET q == EvalSeq(P, <<e.n, e.v>>, 1, env, st)
    IN  IF ~Ok(q.st) THEN R(U, q.st)
        ELSE IF IsU(q.vs[1]) \/ IsU(q.vs[2]) \/ SmallIdx(q.vs[1]) < 0 \/ SmallIdx(q.vs[1]) > 64 THEN RU(q.st)
        ELSE R(LV(e.et, [j \in 1..SmallIdx(q.vs[1]) |-> q.vs[2]]), q.st)

Eval(P, e, env, st) ==
    CASE e.k = "lit" -> EvalK1(P, e, env, st)
      [] e.k = "id" -> EvalK2(P, e, env, st)
      [] e.k = "std" -> EvalK3(P, e, env, st)
      [] e.k = "un" -> EvalK4(P, e, env, st)
      [] e.k = "bin" /\ e.op \in {"and", "or"} -> EvalK5(P, e, env, st)
      [] e.k = "bin" -> EvalK6(P, e, env, st)
      [] e.k = "fld" -> EvalK7(P, e, env, st)
      [] e.k = "ter" /\ e.op = "falls" -> EvalK8(P, e, env, st)
      [] e.k = "ter" -> EvalK9(P, e, env, st)
      [] e.k = "cast" -> EvalK10(P, e, env, st)
      [] e.k = "tchk" -> EvalK11(P, e, env, st)
      [] e.k = "list" -> EvalK12(P, e, env, st)
      [] e.k = "new" -> EvalK13(P, e, env, st)
      [] e.k = "call" -> EvalK14(P, e, env, st)
      [] e.k = "lvr" -> EvalK15(P, e, env, st)
      [] e.k = "wenn" -> Eval(P, IF e.val THEN e.c ELSE [k |-> "un", op |-> "not", r |-> e.c], env, st)      \* wahr, wenn c  ==  c ;  falsch, wenn c  ==  nicht c
      [] e.k = "chain" -> Eval(P, Tree(e.items), env, st)      \* an unparenthesised operator chain means its precedence tree
      [] e.k = "size" -> R(ZI(SizeAlign(P, e.t).size), st)      \* die Größe von <Typ>
      [] e.k = "fillx" -> EvalFill(P, e, env, st)              \* <n> Mal <v> as an expression (trees exported from the real parser)
      [] e.k = "unsup" -> RU(st)                               \* a construct the exporter of real trees does not translate: no meaning given

(* reference denoted by an assignable: [ref, st]; an out-of-range index is a Laufzeitfehler *)
RECURSIVE EvalLvK1(_,_,_,_), EvalLvK2(_,_,_,_), EvalLvK3(_,_,_,_)
EvalLvK1(P, lv, env, st) ==
    [ref |-> Lookup(env, lv.n), st |-> st]

EvalLvK2(P, lv, env, st) ==
    LET r == EvalLv(P, lv.l, env, st) IN IF ~Ok(r.st) THEN r ELSE [ref |-> Ref(r.ref.loc, Append(r.ref.path, SelF(lv.f))), st |-> r.st]

EvalLvK3(P, lv, env, st) ==
    LET r == EvalLv(P, lv.l, env, st)
           IN  IF ~Ok(r.st) THEN r
               ELSE LET iv == Eval(P, lv.i, env, r.st)
                    IN  IF ~Ok(iv.st) THEN [ref |-> r.ref, st |-> iv.st]
                        ELSE LET c == Read(iv.st, r.ref)
                             IN  IF IsU(c) \/ IsU(iv.v) THEN [ref |-> r.ref, st |-> Fail(iv.st, "unspec")]
                                 ELSE LET i == SmallIdx(iv.v)
                                      IN  IF i < 1 \/ i > Len(c.v) THEN [ref |-> r.ref, st |-> Fail(iv.st, "rterr")]
                                          ELSE [ref |-> Ref(r.ref.loc, Append(r.ref.path, Sel(i))), st |-> iv.st]

EvalLv(P, lv, env, st) ==
    CASE lv.k = "id" -> EvalLvK1(P, lv, env, st)
      [] lv.k = "fld" -> EvalLvK2(P, lv, env, st)
      [] lv.k = "idx" -> EvalLvK3(P, lv, env, st)
      [] lv.k = "unsup" -> [ref |-> Ref(0, <<>>), st |-> Fail(st, "unspec")]

(* call: arguments are evaluated in parameter-declaration order; value parameters are copies in fresh locations,
   Referenz parameters are the caller's reference *)
BindArgs(P, fd, args, i, env, cenv, st) ==      \* env: caller's, cenv: callee's (being built)
    IF i > Len(fd.params) THEN [env |-> cenv, st |-> st]
    ELSE LET p == fd.params[i]
             a == (SelectSeq(args, LAMBDA x : x.p = p.n))[1].e
         IN  IF p.ref
             THEN LET r == EvalLv(P, a, env, st)
                  IN  IF ~Ok(r.st) THEN [env |-> cenv, st |-> r.st]
                      ELSE BindArgs(P, fd, args, i + 1, env, Bind(cenv, p.n, r.ref, FALSE), r.st)
             ELSE LET r == Eval(P, a, env, st)
                  IN  IF ~Ok(r.st) THEN [env |-> cenv, st |-> r.st]
                      ELSE IF IsU(r.v) THEN [env |-> cenv, st |-> Fail(r.st, "unspec")]
                      ELSE BindArgs(P, fd, args, i + 1, env, Bind(cenv, p.n, Ref(NewLoc(r.st), <<>>), FALSE), Alloc(r.st, r.v))

CallFn(P, e, env, st) ==
    LET fd == FuncDecl(P, e.f)
        effectful == Len(SelectSeq(e.args, LAMBDA x : x.e.k \in {"call"})) > 1      \* order of effects among arguments: U
        b  == BindArgs(P, fd, e.args, 1, env, [l |-> <<>>, g |-> env.g], st)
    IN  IF effectful THEN RU(st)
        ELSE IF ~Ok(b.st) THEN R(U, b.st)
        ELSE IF b.st.fuel = 0 THEN RU(b.st)
        ELSE LET x == ExecSeq(P, fd.body, 1, b.env, [b.st EXCEPT !.fuel = @ - 1])
             IN  IF ~Ok(x.st) THEN R(U, x.st)
                 ELSE IF BaseOf(fd.ret) = "none" THEN R(U, x.st)
                 ELSE IF x.ctl # "ret" THEN RU(x.st)
                 ELSE R(Coerce(x.rv, fd.ret), x.st)

X(env, st, ctl, rv) == [env |-> env, st |-> st, ctl |-> ctl, rv |-> rv]

ExecSeq(P, ss, i, env, st) ==
    IF i > Len(ss) THEN X(env, st, "next", U)
    ELSE LET x == Exec(P, ss[i], env, st)
         IN  IF ~Ok(x.st) \/ x.ctl # "next" THEN x ELSE ExecSeq(P, ss, i + 1, x.env, x.st)

\* a block runs in the enclosing environment extended by its own declarations; bindings made inside are dropped after it
Block(P, ss, env, st) == LET x == ExecSeq(P, ss, 1, env, st) IN X(env, x.st, x.ctl, x.rv)

WhileLoop(P, s, env, st, first) ==      \* first: do-while skips the first test
    IF st.fuel = 0 THEN X(env, Fail(st, "unspec"), "next", U)
    ELSE LET c == IF first THEN R(WV(TRUE), st) ELSE Eval(P, s.c, env, st)
         IN  IF ~Ok(c.st) THEN X(env, c.st, "next", U)
             ELSE IF IsU(c.v) THEN X(env, Fail(c.st, "unspec"), "next", U)
             ELSE IF ~c.v.v THEN X(env, c.st, "next", U)
             ELSE LET b == Block(P, s.body, env, [c.st EXCEPT !.fuel = @ - 1])
                  IN  IF ~Ok(b.st) \/ b.ctl = "ret" THEN b
                      ELSE IF b.ctl = "brk" THEN X(env, b.st, "next", U)
                      ELSE WhileLoop(P, s, env, b.st, FALSE)

RepeatLoop(P, s, env, st, n) ==
    IF n <= 0 THEN X(env, st, "next", U)
    ELSE IF st.fuel = 0 THEN X(env, Fail(st, "unspec"), "next", U)
    ELSE LET b == Block(P, s.body, env, [st EXCEPT !.fuel = @ - 1])
         IN  IF ~Ok(b.st) \/ b.ctl = "ret" THEN b
             ELSE IF b.ctl = "brk" THEN X(env, b.st, "next", U)
             ELSE RepeatLoop(P, s, env, b.st, n - 1)

(* counting loop on a hidden counter cur (value of the counter type); `to` is re-evaluated before every iteration *)
\* the hidden counter of a counting loop is a Zahl for Zahl and Byte counters and a Kommazahl for Kommazahl counters;
\* the loop variable receives its conversion (modulo 256 for a Byte) before every iteration
HT(s) == IF BaseOf(s.t) = "B" THEN TB("Z") ELSE s.t
ForLoop(P, s, env, st, cur, step, up) ==
    IF st.fuel = 0 THEN X(env, Fail(st, "unspec"), "next", U)
    ELSE LET t == Eval(P, s.to, env, st)
         IN  IF ~Ok(t.st) THEN X(env, t.st, "next", U)
             ELSE LET lim == Coerce(t.v, HT(s))
                      go  == IF up THEN Compare("le", cur, lim) ELSE Compare("ge", cur, lim)
                  IN  IF IsU(go) THEN X(env, Fail(t.st, "unspec"), "next", U)
                      ELSE IF ~go.v THEN X(env, t.st, "next", U)
                      ELSE LET s1 == Write(t.st, Lookup(env, s.v), Coerce(cur, s.t))
                               b  == Block(P, s.body, env, [s1 EXCEPT !.fuel = @ - 1])
                               nx == Arith("plus", cur, step)
                           IN  IF ~Ok(b.st) \/ b.ctl = "ret" THEN b
                               ELSE IF b.ctl = "brk" THEN X(env, b.st, "next", U)
                               ELSE IF IsU(nx) THEN X(env, Fail(b.st, "unspec"), "next", U)
                               ELSE IF BaseOf(HT(s)) = "Z" /\ (IF up THEN SLess(nx.v, cur.v) ELSE SLess(cur.v, nx.v)) THEN X(env, Fail(b.st, "unspec"), "next", U)   \* counter overflow
                               ELSE ForLoop(P, s, env, b.st, nx, step, up)

EachLoop(P, s, env, st, c, i) ==      \* c: private copy of the iterated Text/list, i: next position
    IF i > Len(c.v) THEN X(env, st, "next", U)
    ELSE IF st.fuel = 0 THEN X(env, Fail(st, "unspec"), "next", U)
    ELSE LET el == IF c.k = "T" THEN CV(c.v[i]) ELSE c.v[i]
             s1 == Write(st, Lookup(env, s.v), el)
             s2 == IF s.idx = "" THEN s1 ELSE Write(s1, Lookup(env, s.idx), ZI(i))
             b  == Block(P, s.body, env, [s2 EXCEPT !.fuel = @ - 1])
         IN  IF ~Ok(b.st) \/ b.ctl = "ret" THEN b
             ELSE IF b.ctl = "brk" THEN X(env, b.st, "next", U)
             ELSE EachLoop(P, s, env, b.st, c, i + 1)

Declare(env, st, n, v, global) == [env |-> Bind(env, n, Ref(NewLoc(st), <<>>), global), st |-> Alloc(st, v)]

RECURSIVE ExecK1(_,_,_,_), ExecK2(_,_,_,_), ExecK3(_,_,_,_), ExecK4(_,_,_,_), ExecK5(_,_,_,_), ExecK6(_,_,_,_), ExecK7(_,_,_,_), ExecK8(_,_,_,_), ExecK9(_,_,_,_), ExecK10(_,_,_,_), ExecK11(_,_,_,_), ExecK12(_,_,_,_), ExecK13(_,_,_,_), ExecK14(_,_,_,_), ExecK15(_,_,_,_), ExecK16(_,_,_,_)
ExecK1(P, s, env, st) ==
    LET r == IF s.e.k = "fill"
                    THEN LET q == EvalSeq(P, <<s.e.n, s.e.v>>, 1, env, st)
                         IN  IF ~Ok(q.st) THEN R(U, q.st)
                             ELSE IF IsU(q.vs[1]) \/ IsU(q.vs[2]) \/ SmallIdx(q.vs[1]) < 0 \/ SmallIdx(q.vs[1]) > 64 THEN RU(q.st)
                             ELSE R(LV(s.t.l, [j \in 1..SmallIdx(q.vs[1]) |-> q.vs[2]]), q.st)
                    ELSE Eval(P, s.e, env, st)
           IN  IF ~Ok(r.st) THEN X(env, r.st, "next", U)
               ELSE IF IsU(r.v) \/ IsU(Coerce(r.v, s.t)) THEN X(env, Fail(r.st, "unspec"), "next", U)
               ELSE LET d == Declare(env, r.st, s.n, Coerce(r.v, s.t), s.g) IN X(d.env, d.st, "next", U)

ExecK2(P, s, env, st) ==
    LET r == Eval(P, s.e, env, st)
           IN  IF ~Ok(r.st) THEN X(env, r.st, "next", U)
               ELSE LET lv == EvalLv(P, s.lv, env, r.st)
                    IN  IF ~Ok(lv.st) THEN X(env, lv.st, "next", U)
                        ELSE LET old == Read(lv.st, lv.ref)
                                 nv  == Coerce(r.v, TypeOf(old))
                             IN  IF IsU(r.v) \/ IsU(old) \/ IsU(nv) THEN X(env, Fail(lv.st, "unspec"), "next", U)
                                 ELSE IF old.k = "C" /\ ~IsScalarCp(nv.v) THEN X(env, Fail(lv.st, "unspec"), "next", U)
                                 ELSE X(env, Write(lv.st, lv.ref, nv), "next", U)

ExecK3(P, s, env, st) ==
    LET r == Eval(P, s.e, env, st)
           IN  IF ~Ok(r.st) THEN X(env, r.st, "next", U)
               ELSE IF IsU(r.v) THEN X(env, Fail(r.st, "unspec"), "next", U)
               ELSE LET t == IF r.v.k = "K" /\ ~KIsFin(r.v) THEN TV(KToText(r.v, DecSep)) ELSE ToTextV(r.v)
                    IN  IF IsU(t) THEN X(env, Fail(r.st, "unspec"), "next", U)
                        ELSE X(env, Emit(r.st, t.v \o (IF s.nl THEN <<10>> ELSE <<>>)), "next", U)

ExecK4(P, s, env, st) ==
    LET r == Eval(P, s.e, env, st) IN X(env, r.st, "next", U)

ExecK5(P, s, env, st) ==
    LET c == Eval(P, s.c, env, st)
           IN  IF ~Ok(c.st) THEN X(env, c.st, "next", U)
               ELSE IF IsU(c.v) THEN X(env, Fail(c.st, "unspec"), "next", U)
               ELSE IF c.v.v THEN Block(P, s.then, env, c.st) ELSE Block(P, s.else, env, c.st)

ExecK6(P, s, env, st) ==
    WhileLoop(P, s, env, st, FALSE)

ExecK7(P, s, env, st) ==
    WhileLoop(P, s, env, st, TRUE)

ExecK8(P, s, env, st) ==
    LET n == Eval(P, s.n, env, st)
           IN  IF ~Ok(n.st) THEN X(env, n.st, "next", U)
               ELSE IF IsU(n.v) \/ SmallIdx(n.v) < 0 \/ SmallIdx(n.v) > 1000 THEN X(env, Fail(n.st, "unspec"), "next", U)
               ELSE RepeatLoop(P, s, env, n.st, SmallIdx(n.v))

ExecK9(P, s, env, st) ==
    LET q == EvalSeq(P, IF s.step.k = "none" THEN <<s.from>> ELSE <<s.from, s.step>>, 1, env, st)
           IN  IF ~Ok(q.st) THEN X(env, q.st, "next", U)
               ELSE LET from == Coerce(q.vs[1], HT(s))
                        step == IF s.step.k = "none" THEN Coerce(ZI(1), HT(s)) ELSE Coerce(q.vs[2], HT(s))
                        zero == Coerce(ZI(0), HT(s))
                        pos  == Compare("gt", step, zero)
                    IN  IF IsU(from) \/ IsU(step) \/ IsU(pos) \/ step = zero THEN X(env, Fail(q.st, "unspec"), "next", U)
                        ELSE LET d == Declare(env, q.st, s.v, Coerce(from, s.t), FALSE)
                                 x == ForLoop(P, s, d.env, d.st, from, step, pos.v)
                             IN  X(env, x.st, x.ctl, x.rv)

ExecK10(P, s, env, st) ==
    LET c == Eval(P, s.in, env, st)
           IN  IF ~Ok(c.st) THEN X(env, c.st, "next", U)
               ELSE IF IsU(c.v) THEN X(env, Fail(c.st, "unspec"), "next", U)
               ELSE LET d1 == Declare(env, c.st, s.v, U, FALSE)
                        d2 == IF s.idx = "" THEN d1 ELSE Declare(d1.env, d1.st, s.idx, ZI(0), FALSE)
                        x  == EachLoop(P, s, d2.env, d2.st, c.v, 1)
                    IN  X(env, x.st, x.ctl, x.rv)

ExecK11(P, s, env, st) ==
    X(env, st, "brk", U)

ExecK12(P, s, env, st) ==
    X(env, st, "cont", U)

ExecK13(P, s, env, st) ==
    IF s.e.k = "none" THEN X(env, st, "ret", U)
           ELSE LET r == Eval(P, s.e, env, st)
                IN  IF ~Ok(r.st) THEN X(env, r.st, "next", U)
                    ELSE IF IsU(r.v) THEN X(env, Fail(r.st, "unspec"), "next", U) ELSE X(env, r.st, "ret", r.v)

ExecK14(P, s, env, st) ==
    X(env, Fail(st, "rterr"), "next", U)

ExecK15(P, s, env, st) ==
    Block(P, s.body, env, st)

(* compound assignments are defined by their expansion (src/parser/statements.go compoundAssignement):
   Erhöhe / Verringere / Vervielfache x um e, Teile x durch e, Verschiebe x um e Bit nach links / rechts  ==  Speichere (x op e) in x
   Negiere x  ==  Speichere (nicht x) in x for a Wahrheitswert, Speichere (-x) in x otherwise                                     *)
ExecK16(P, s, env, st) ==
    LET cur == [k |-> "lvr", lv |-> s.lv]
        old == EvalK15(P, cur, env, st)
        rhs == IF s.op = "neg"
               THEN [k |-> "un", op |-> (IF Ok(old.st) /\ ~IsU(old.v) /\ old.v.k = "W" THEN "not" ELSE "neg"), r |-> cur]
               ELSE [k |-> "bin", op |-> s.op, l |-> cur, r |-> s.e]
    IN  ExecK2(P, [k |-> "set", lv |-> s.lv, e |-> rhs], env, st)

Exec(P, s, env, st) ==
    CASE s.k = "var" -> ExecK1(P, s, env, st)
      [] s.k = "set" -> ExecK2(P, s, env, st)
      [] s.k = "print" -> ExecK3(P, s, env, st)
      [] s.k = "expr" -> ExecK4(P, s, env, st)
      [] s.k = "if" -> ExecK5(P, s, env, st)
      [] s.k = "while" -> ExecK6(P, s, env, st)
      [] s.k = "dowhile" -> ExecK7(P, s, env, st)
      [] s.k = "repeat" -> ExecK8(P, s, env, st)
      [] s.k = "for" -> ExecK9(P, s, env, st)
      [] s.k = "foreach" -> ExecK10(P, s, env, st)
      [] s.k = "break" -> ExecK11(P, s, env, st)
      [] s.k = "continue" -> ExecK12(P, s, env, st)
      [] s.k = "ret" -> ExecK13(P, s, env, st)
      [] s.k = "todo" -> ExecK14(P, s, env, st)
      [] s.k = "block" -> ExecK15(P, s, env, st)
      [] s.k = "cset" -> ExecK16(P, s, env, st)
      [] s.k = "unsup" -> X(env, Fail(st, "unspec"), "next", U)
      [] s.k = "setis" -> ExecK2(P, s, env, st)          \* x ist <Literal>.  /  b ist wahr, wenn c.   - another spelling of the assignment

(* the whole program: [out, sig]  sig = "ok" (exit 0) | "rterr" (Laufzeitfehler, exit 1) | "unspec" *)
Run(P, fuel) ==
    LET st0 == [store |-> <<>>, out |-> <<>>, sig |-> "ok", fuel |-> fuel]
        x   == ExecSeq(P, P.main, 1, [l |-> <<>>, g |-> <<>>], st0)
    IN  [out |-> x.st.out, sig |-> x.st.sig]
=============================================================================
