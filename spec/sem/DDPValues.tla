------------------------------ MODULE DDPValues ------------------------------
(* Run-time values of DDP and the total/partial operations on them (DESIGN.md Appendix A).
     [k |-> "Z", v |-> 8 limbs]           Zahl (Int64)
     [k |-> "K", s, m, e]                 Kommazahl: s = "fin": m / 2^e, m odd or e = 0, |m| < 2^14, 0 <= e <= 4
                                                     s \in {"inf", "ninf", "nan"}
     [k |-> "B", v |-> 0..255]            Byte
     [k |-> "W", v |-> BOOLEAN]           Wahrheitswert
     [k |-> "C", v |-> code point]        Buchstabe
     [k |-> "T", v |-> <<code points>>]   Text
     [k |-> "L", et |-> type, v |-> <<values>>]      list
     [k |-> "S", n |-> name, f |-> <<[n, v]...>>]   Kombination (fields in declaration order)
     [k |-> "V", v |-> value]             Variable holding a value (never another Variable)
     [k |-> "U"]                          unspecified: a corner DDP leaves open; never compared
   Types (always records, so that any two can be compared):  [b |-> "Z"|"K"|"B"|"W"|"C"|"T"|"V"|"none"]  |  [l |-> type]  |  [s |-> name]  *)
EXTENDS Integers, Sequences, Int64

U == [k |-> "U"]
IsU(v) == v.k = "U"
ZV(l) == [k |-> "Z", v |-> l]
ZI(i) == ZV(FromInt(i))
BV(b) == [k |-> "B", v |-> b]
WV(b) == [k |-> "W", v |-> b]
CV(c) == [k |-> "C", v |-> c]
TV(s) == [k |-> "T", v |-> s]
LV(et, s) == [k |-> "L", et |-> et, v |-> s]
KFin(m, e) == [k |-> "K", s |-> "fin", m |-> m, e |-> e]
KSpec(s) == [k |-> "K", s |-> s, m |-> 0, e |-> 0]

(* ---- Kommazahl fragment ---- *)
Pow2(n) == 2 ^ n
RECURSIVE KNorm(_, _)
KNorm(m, e) == IF e > 0 /\ m % 2 = 0 THEN KNorm(m \div 2, e - 1) ELSE <<m, e>>
AbsI(i) == IF i < 0 THEN 0 - i ELSE i
KMake(m, e) ==      \* m / 2^e, any e >= 0 with |m| < 2^30; U when outside the fragment
    LET n == KNorm(m, e)
    IN  IF n[2] <= 4 /\ AbsI(n[1]) < 16384 THEN KFin(n[1], n[2]) ELSE U
KIsFin(x) == x.k = "K" /\ x.s = "fin"
\* bring two finite values to a common exponent (max 4): numerators stay < 2^18
KNum(x, e) == x.m * Pow2(e - x.e)
MaxI(a, b) == IF a > b THEN a ELSE b
KAdd(x, y) == IF ~KIsFin(x) \/ ~KIsFin(y) THEN U ELSE LET e == MaxI(x.e, y.e) IN KMake(KNum(x, e) + KNum(y, e), e)
KSub(x, y) == IF ~KIsFin(x) \/ ~KIsFin(y) THEN U ELSE LET e == MaxI(x.e, y.e) IN KMake(KNum(x, e) - KNum(y, e), e)
KMul(x, y) == IF ~KIsFin(x) \/ ~KIsFin(y) THEN U
              ELSE IF (x.m = 0 \/ y.m = 0) /\ (x.m < 0 \/ y.m < 0) THEN U      \* sign of zero
              ELSE KMake(x.m * y.m, x.e + y.e)
KNeg(x) == IF ~KIsFin(x) \/ x.m = 0 THEN U ELSE KFin(0 - x.m, x.e)
KLess(x, y) == LET e == MaxI(x.e, y.e) IN KNum(x, e) < KNum(y, e)
OddPart(n) == KNorm(n, 30)[1]          \* n with all factors 2 removed (n # 0)
TwoExp(n) == 30 - KNorm(n, 30)[2]      \* exponent of 2 in n
KDiv(x, y) ==      \* x / y
    IF ~KIsFin(x) \/ ~KIsFin(y) THEN U
    ELSE IF y.m = 0 THEN (IF x.m = 0 THEN KSpec("nan") ELSE IF x.m > 0 THEN KSpec("inf") ELSE KSpec("ninf"))
    ELSE IF x.m = 0 THEN (IF y.m < 0 THEN U ELSE KFin(0, 0))
    ELSE LET yo == OddPart(y.m)                     \* y = yo * 2^yt / 2^y.e
             yt == TwoExp(y.m)
         IN  IF x.m % AbsI(yo) # 0 THEN U           \* quotient is not dyadic
             ELSE LET q  == (IF yo < 0 THEN 0 - 1 ELSE 1) * (x.m \div AbsI(yo))      \* x/y = q * 2^(y.e - yt - x.e)
                      ex == x.e + yt - y.e          \* = q / 2^ex
                  IN  IF ex >= 0 THEN KMake(q, ex)
                      ELSE IF 0 - ex > 14 THEN U ELSE LET big == q * Pow2(0 - ex) IN IF AbsI(q) < 16384 /\ AbsI(big) < 16384 THEN KFin(big, 0) ELSE U

(* "%.16g" of a fragment value: integer part, then the exact fraction without trailing zeros *)
RECURSIVE NatDec(_)
NatDec(n) == IF n < 10 THEN <<48 + n>> ELSE NatDec(n \div 10) \o <<48 + (n % 10)>>
RECURSIVE FracDigits(_, _)
FracDigits(num, den) ==      \* digits of num/den (0 <= num < den, den | 10^k), until exact
    IF num = 0 THEN <<>> ELSE LET t == num * 10 IN <<48 + (t \div den)>> \o FracDigits(t % den, den)
KToText(x, decsep) ==
    CASE x.s = "inf" -> <<85, 110, 101, 110, 100, 108, 105, 99, 104>>                       \* Unendlich
      [] x.s = "ninf" -> <<45, 85, 110, 101, 110, 100, 108, 105, 99, 104>>
      [] x.s = "nan" -> <<75, 101, 105, 110, 101, 32, 90, 97, 104, 108, 32, 40, 78, 97, 78, 41>>   \* Keine Zahl (NaN)
      [] OTHER -> LET a == AbsI(x.m)
                      d == Pow2(x.e)
                      ip == a \div d
                      fr == FracDigits(a % d, d)
                  IN  (IF x.m < 0 THEN <<45>> ELSE <<>>) \o NatDec(ip) \o (IF fr = <<>> THEN <<>> ELSE <<decsep>> \o fr)

(* ---- conversions ---- *)
ZToK(z) == IF FitsSmall(z) /\ AbsI(ToSmall(z)) < 16384 THEN KFin(ToSmall(z), 0) ELSE U
BToK(b) == KFin(b, 0)
KToZ(x) == IF ~KIsFin(x) THEN U ELSE LET d == Pow2(x.e) IN ZI(IF x.m >= 0 THEN x.m \div d ELSE 0 - ((0 - x.m) \div d))   \* toward zero
NumToK(v) == CASE v.k = "K" -> v [] v.k = "Z" -> ZToK(v.v) [] v.k = "B" -> BToK(v.v) [] OTHER -> U
WText(b) == IF b THEN <<119, 97, 104, 114>> ELSE <<102, 97, 108, 115, 99, 104>>
IsScalarCp(c) == (c >= 1 /\ c <= 55295) \/ (c >= 57344 /\ c <= 1114111)      \* U+0000 cannot live in a C string: U

(* the type of a value (aliases are transparent and do not exist at run time) *)
RECURSIVE TypeOf(_)
TB(x) == [b |-> x]
BaseOf(t) == IF "b" \in DOMAIN t THEN t.b ELSE ""
\* a value of a type definition (Wir definieren eine Nummer als eine Zahl) is the value of the underlying type tagged with the definition's name:
\* the two are different types (only `als` converts between them), and a Variable remembers which one it holds
IsTagged(v) == "d" \in DOMAIN v
Tag(v, d) == [x \in DOMAIN v \cup {"d"} |-> IF x = "d" THEN d ELSE v[x]]
Untag(v) == [x \in DOMAIN v \ {"d"} |-> v[x]]
IsDefT(t) == "d" \in DOMAIN t
\* does a value of (run-time) type tv have the declared type `to`?  definitions are compared by name
TEq(tv, to) == IF IsDefT(to) THEN IsDefT(tv) /\ tv.d = to.d ELSE ~IsDefT(tv) /\ tv = to
TypeOf(v) == CASE IsTagged(v) -> [d |-> v.d]
               [] v.k \in {"Z", "K", "B", "W", "C", "T"} -> TB(v.k)
               [] v.k = "L" -> [l |-> v.et]
               [] v.k = "S" -> [s |-> v.n]
               [] v.k = "V" -> TB("V")
               [] OTHER -> TB("?")
IsNumV(v) == v.k \in {"Z", "K", "B"}
ContainsU(v) == v.k = "U"      \* shallow: composite values are built only from specified parts or are U as a whole

(* structural equality on values of the same type *)
RECURSIVE VEq(_, _)
VEq(a, b) ==
    CASE a.k = "U" \/ b.k = "U" -> U
      [] a.k # b.k -> WV(FALSE)                         \* only reachable through Variable contents
      [] a.k = "K" -> IF KIsFin(a) /\ KIsFin(b) THEN WV(a.m = b.m /\ a.e = b.e) ELSE U
      [] a.k = "L" -> IF a.et # b.et THEN WV(FALSE)
                      ELSE IF Len(a.v) # Len(b.v) THEN WV(FALSE)
                      ELSE IF \E i \in 1..Len(a.v) : VEq(a.v[i], b.v[i]).k = "U" THEN U
                      ELSE WV(\A i \in 1..Len(a.v) : VEq(a.v[i], b.v[i]).v)
      [] a.k = "S" -> IF a.n # b.n THEN WV(FALSE)
                      ELSE IF \E i \in 1..Len(a.f) : VEq(a.f[i].v, b.f[i].v).k = "U" THEN U
                      ELSE WV(\A i \in 1..Len(a.f) : VEq(a.f[i].v, b.f[i].v).v)
      [] a.k = "V" -> VEq(a.v, b.v)
      [] OTHER -> WV(a.v = b.v)
=============================================================================
