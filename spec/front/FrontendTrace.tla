---------------------------- MODULE FrontendTrace ----------------------------
(* Monitor: one "parse" event per input given to the real frontend (harness/go/cmd/fe).  Collects, per invariant,
   the lines that violate it:  total (C03) / flag / range / render / cli (C07).                                   *)
EXTENDS Frontend, TLC, Json
CONSTANT TraceFile
VARIABLES l, badTotal, badFlag, badRange, badRender, badCli
vars == <<l, badTotal, badFlag, badRange, badRender, badCli>>
Trace == ndJsonDeserialize(TraceFile)
Init == l = 1 /\ badTotal = {} /\ badFlag = {} /\ badRange = {} /\ badRender = {} /\ badCli = {}
Add(S, ok) == IF ok THEN S ELSE S \cup {l}
Parse == /\ Trace[l].e = "parse"
         /\ LET ev == Trace[l]
                ret == ev.outcome \in {"module", "error"}
            IN  /\ badTotal' = Add(badTotal, Total(ev))
                /\ badFlag' = Add(badFlag, ~ret \/ FlagFaithful(ev))
                /\ badRange' = Add(badRange, ~ret \/ RangesOK(ev))
                /\ badRender' = Add(badRender, ~ret \/ Renderable(ev))
                /\ badCli' = Add(badCli, ~ret \/ CliFaithful(ev))
Next == l <= Len(Trace) /\ l' = l + 1 /\ Parse
Spec == Init /\ [][Next]_vars
Done == l = Len(Trace) + 1
Report == Done => /\ PrintT(<<"@@total@@", badTotal>>) /\ PrintT(<<"@@flag@@", badFlag>>) /\ PrintT(<<"@@range@@", badRange>>)
                  /\ PrintT(<<"@@render@@", badRender>>) /\ PrintT(<<"@@cli@@", badCli>>) /\ PrintT(<<"@@lines@@", Len(Trace)>>)
Accepted == TLCGet("stats").diameter = Len(Trace) + 1
=============================================================================
