------------------------------ MODULE Pipeline ------------------------------
(* The compilation pipeline of kddp for one program (C02):
     Frontend (scan, parse, resolve, check)  ->  Codegen (LLVM IR text)  ->  LLVM parse + verify  ->  Object  ->  Link
   Stage outcomes recorded for a cell (an operator application on operands of given type classes in a value context):
     frontend : "ok" | "rejected"             codegen : "ok" | "internal" (Unerwarteter Fehler / crash) | "ir-rejected" | "skipped"
     verify   : "ok" | "rejected" | "skipped" (llvm-as on the emitted .ll)      object, link : "ok" | "failed" | "skipped"
   Property: once the frontend accepts, every later stage ends "ok" - InternalError, IRRejected, VerifyFailed, LinkFailed
   are not steps of the pipeline for an accepted program.                                                            *)
EXTENDS Naturals, Sequences
Complete(ev) == ev.frontend = "ok" => ev.codegen = "ok" /\ ev.verify = "ok" /\ ev.object = "ok" /\ ev.link = "ok"
=============================================================================
