------------------------------ MODULE Frontend ------------------------------
(* The frontend as a total function (C03) and its diagnostics protocol (C07), stated over what one call of
   parser.Parse exposes.  Pipeline of one call:  Begin -> (loop iterations ...) -> Returned(module | error)
   Actions the module does NOT have: Panic, FatalRuntimeError, Killed(limit), Timeout, NoProgress (a loop iteration
   of the parser's main / block loops that leaves the token cursor where it was; hook H2).

   A parse event carries
     outcome : "module" | "error" | "panic" | "killed" | "timeout"       stall : BOOLEAN
     faulty  : Ast.Faulty of the root module                             nomodule : no module was returned
     anymodfaulty : some module of Options.Modules is marked faulty
     diags   : << [lvl : "err" | "warn", known : the file is one of the input files,
                   l1, c1, l2, c2 : the range, nlines : lines of that file, len1, len2 : code points of lines l1 / l2] >>
     renderpanics : number of diagnostics the excerpt renderer (ddperror.MakeAdvancedHandler) could not print
     finish  : << <<parser id, errored, faulty>> >>  the flags every (nested) parser ended with (hook H2)           *)
EXTENDS Naturals, Sequences

Total(ev) == ev.outcome \in {"module", "error"} /\ ~ev.stall

HasError(ev) == \E i \in 1..Len(ev.diags) : ev.diags[i].lvl = "err"
(* failed <=> an error-level diagnostic was delivered; warnings alone never fail *)
FlagFaithful(ev) ==
    ev.outcome = "module" =>
        /\ ev.faulty <=> HasError(ev)
        /\ ev.anymodfaulty => HasError(ev)
        /\ \A i \in 1..Len(ev.finish) : ev.finish[i][2] = ev.finish[i][3]          \* errored flag = Faulty flag of each parser
RangeOK(d) ==
    /\ d.known
    /\ d.l1 >= 1 /\ d.l1 <= d.nlines /\ d.l2 >= d.l1 /\ d.l2 <= d.nlines
    /\ d.c1 >= 1 /\ d.c1 <= d.len1 + 1
    \* the (exclusive) end may lie behind the line's last character, and behind its newline when the range covers that newline
    \* (e.g. a backslash directly before the line break); the last line has no newline behind it
    /\ d.c2 >= 1 /\ d.c2 <= d.len2 + 1 + (IF d.l2 < d.nlines THEN 1 ELSE 0)
    /\ (d.l1 = d.l2 => d.c1 <= d.c2)
RangesOK(ev) == \A i \in 1..Len(ev.diags) : RangeOK(ev.diags[i])
Renderable(ev) == ev.renderpanics = 0
(* the command line: exit status 0 and an artefact exactly when the compilation did not fail *)
\* (a Parse that returns an error value instead of a module - unreadable or non-UTF-8 source - is a reported failure too)
CliFaithful(ev) == ev.cli.ran => (ev.cli.exit0 <=> (ev.outcome = "module" /\ ~HasError(ev))) /\ (ev.cli.artefact <=> ev.cli.exit0)
=============================================================================
