---------------------------- MODULE PipelineTrace ----------------------------
EXTENDS Pipeline, TLC, Json
CONSTANT TraceFile
VARIABLES l, bad, accepted
Trace == ndJsonDeserialize(TraceFile)
Init == l = 1 /\ bad = {} /\ accepted = 0
Cell == /\ Trace[l].e = "cell"
        /\ bad' = IF Complete(Trace[l]) THEN bad ELSE bad \cup {l}
        /\ accepted' = accepted + (IF Trace[l].frontend = "ok" THEN 1 ELSE 0)
Next == l <= Len(Trace) /\ l' = l + 1 /\ Cell
Spec == Init /\ [][Next]_<<l, bad, accepted>>
Done == l = Len(Trace) + 1
Report == Done => PrintT(<<"@@bad@@", bad>>) /\ PrintT(<<"@@accepted@@", accepted>>) /\ PrintT(<<"@@lines@@", Len(Trace)>>)
Accepted == TLCGet("stats").diameter = Len(Trace) + 1
=============================================================================
