/* Drives libddpruntime.a (built from the tree, ASan) directly: per-character operations for a range of code points.
 * usage: textdrv <from> <to> <step>   -> ndjson  {"e":"cp","cp":N,"nb":k,"enc":[bytes],"dec":cp',"decn":k',"len":L,"idx":cp'',"nbc":k''} */
#include <stdio.h>
#include <stdlib.h>
#include <string.h>
#include <locale.h>
#include "DDP/ddptypes.h"
#include "DDP/utf8/utf8.h"
ddpchar ddp_string_index(ddpstring *str, ddpint index);
ddpint ddp_string_length(ddpstring *str);
void ddp_replace_char_in_string(ddpstring *str, ddpchar ch, ddpint index);
ddpbool ddp_string_equal(ddpstring *a, ddpstring *b);

int main(int argc, char **argv) {
	/* the runtime selects a UTF-8 locale in ddp_init_runtime; only C.utf8 exists in this sandbox */
	if (!setlocale(LC_ALL, "C.utf8")) return 2;
	long from = atol(argv[1]), to = atol(argv[2]), step = atol(argv[3]);
	for (long cp = from; cp <= to; cp += step) {
		if (cp >= 0xD800 && cp <= 0xDFFF) continue; /* not scalar values */
		char buf[8] = {0};
		size_t nb = utf8_char_to_string(buf, (int32_t)cp);
		if (nb == (size_t)-1) { printf("{\"e\":\"cp\",\"cp\":%ld,\"nb\":-1,\"enc\":[],\"dec\":0,\"decn\":0,\"len\":0,\"idx\":0,\"nbc\":0,\"rep\":false}\n", cp); continue; }
		uint32_t dec = 0;
		size_t decn = utf8_string_to_char(buf, &dec);
		/* a text "x<cp>y": length 3, index 2 is cp; replacing index 2 by 'a' and back gives an equal text */
		char txt[16];
		snprintf(txt, sizeof txt, "x%sy", buf);
		ddpstring s, t;
		ddp_string_from_constant(&s, txt);
		ddp_string_from_constant(&t, txt);
		long len = (long)utf8_strlen(s.str);
		long idx = cp == 0 ? 0 : (long)ddp_string_index(&s, 2);
		ddpbool rep = 1;
		if (cp != 0) {
			ddp_replace_char_in_string(&s, 'a', 2);
			ddp_replace_char_in_string(&s, (ddpchar)cp, 2);
			rep = ddp_string_equal(&s, &t) && ddp_string_equal(&t, &s);
		}
		printf("{\"e\":\"cp\",\"cp\":%ld,\"nb\":%zu,\"enc\":[", cp, nb);
		for (size_t i = 0; i < nb; i++) printf("%s%d", i ? "," : "", (unsigned char)buf[i]);
		printf("],\"dec\":%u,\"decn\":%zu,\"len\":%ld,\"idx\":%ld,\"nbc\":%zu,\"rep\":%s}\n", dec, decn, len, idx, utf8_num_bytes_char((uint32_t)cp), rep ? "true" : "false");
		ddp_free_string(&s);
		ddp_free_string(&t);
	}
	return 0;
}
