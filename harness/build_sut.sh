#!/bin/bash
# Build the system under test from /repo's current working tree (hooks on: -tags verif).
# Prints the install directory on stdout. The build is cached by a content hash of the whole
# working tree (everything but .git), so consecutive checks on the same tree share one build and
# any edit to /repo produces a new one. Cache lives outside /repo and /verif.
#
#   build_sut.sh [--asan]     ->  prints $SUT
# Layout of $SUT:  bin/kddp  lib/{libddpruntime.a,libddpstdlib.a,main.o,ddp_list_types_defs.{ll,o}}
#                  Duden/    src/ (copy of the tree, used by in-process Go harnesses via replace)
#                  asan/lib/{libddpruntime.a,libddpstdlib.a,main.o}   (clang-14 -fsanitize=address)
#                  shim/setlocale_wrap.o  shim/ledger_wrap.o
set -euo pipefail
REPO=${VERIF_REPO:-/repo}
ROOT=${VERIF_SUT_ROOT:-/var/tmp/verif-sut}
HERE=$(cd "$(dirname "$0")" && pwd)
export GOFLAGS=-mod=mod GOPROXY=off GOSUMDB=off GOTOOLCHAIN=local
GO=go
if ! $GO version 2>/dev/null | grep -qE 'go1\.(2[4-9]|[3-9][0-9])'; then
  for c in /root/go/pkg/mod/golang.org/toolchain@v0.0.1-go1.24.0.linux-amd64/bin/go go1.26; do
    if command -v "$c" >/dev/null 2>&1 && "$c" version >/dev/null 2>&1; then GO=$c; break; fi
  done
fi

mkdir -p "$ROOT"
hash=$( (cd "$REPO" && find . -path ./.git -prune -o -type f -print0 | sort -z | xargs -0 sha1sum; sha1sum "$HERE/build_sut.sh" "$HERE"/shim/*.c) | sha1sum | cut -c1-16)
SUT="$ROOT/$hash"
exec 9>"$ROOT/.lock"
flock 9
if [ -f "$SUT/.ok" ]; then touch "$SUT/.ok" "$SUT"; echo "$SUT"; exit 0; fi
# prune: builds not used for 6 hours, beyond the 24 most recently used ones (a running check may still use an older build)
(find "$ROOT" -mindepth 2 -maxdepth 2 -name .ok -mmin +360 -printf '%h\n' 2>/dev/null || true) | xargs -r rm -rf
(ls -1dt "$ROOT"/*/ 2>/dev/null || true) | tail -n +25 | xargs -r rm -rf
rm -rf "$SUT"; mkdir -p "$SUT"
{
  set -x
  mkdir -p "$SUT/src"
  (cd "$REPO" && tar --exclude=.git -cf - .) | tar -xf - -C "$SUT/src"
  cd "$SUT/src"
  export CGO_CPPFLAGS="$(llvm-config-14 --cppflags)" CGO_CXXFLAGS=-std=c++14
  export CGO_LDFLAGS="$(llvm-config-14 --ldflags --libs --system-libs all)"
  mkdir -p "$SUT/bin" "$SUT/lib" "$SUT/asan/lib" "$SUT/shim"
  (cd cmd/kddp && $GO build -tags "byollvm verif" -o "$SUT/bin/kddp" .)
  # runtime
  make -C lib/runtime -j16 libddpruntime.a source/main.o >/dev/null
  cp lib/runtime/libddpruntime.a lib/runtime/source/main.o "$SUT/lib/"
  # stdlib (PCRE2 / libarchive submodules are empty in the pinned tree: leave those two files out)
  mkdir -p "$SUT/obj/std" "$SUT/obj/asanrt" "$SUT/obj/asanstd"
  CF="-c -Wall -Wextra -Wno-format -O2 -std=c11 -pedantic -D_POSIX_C_SOURCE=200809L"
  for f in lib/stdlib/source/DDP/*.c; do
    b=$(basename "$f" .c); case "$b" in compression|regex) continue;; esac
    gcc $CF -Ilib/stdlib/include -Ilib/runtime/include -o "$SUT/obj/std/$b.o" "$f" &
  done; wait
  ar rcs "$SUT/lib/libddpstdlib.a" "$SUT"/obj/std/*.o
  # ASan copies
  AF="-c -g -O1 -fno-omit-frame-pointer -fsanitize=address -std=c11 -D_POSIX_C_SOURCE=200809L -Wno-format"
  for f in lib/runtime/source/DDP/*.c lib/runtime/source/DDP/*/*.c; do
    b=$(echo "$f" | tr '/' '_'); clang-14 $AF -Ilib/runtime/include -o "$SUT/obj/asanrt/$b.o" "$f" &
  done; wait
  ar rcs "$SUT/asan/lib/libddpruntime.a" "$SUT"/obj/asanrt/*.o
  clang-14 $AF -Ilib/runtime/include -o "$SUT/asan/lib/main.o" lib/runtime/source/main.c
  for f in lib/stdlib/source/DDP/*.c; do
    b=$(basename "$f" .c); case "$b" in compression|regex) continue;; esac
    clang-14 $AF -Ilib/stdlib/include -Ilib/runtime/include -o "$SUT/obj/asanstd/$b.o" "$f" &
  done; wait
  ar rcs "$SUT/asan/lib/libddpstdlib.a" "$SUT"/obj/asanstd/*.o
  # Duden + list defs
  cp -r lib/stdlib/Duden "$SUT/Duden"
  DDPPATH="$SUT" "$SUT/bin/kddp" dump-list-defs -o "$SUT/lib/ddp_list_types_defs" --llvm-ir --object
  # link-time shims (no change to repo sources)
  for s in "$HERE"/shim/*.c; do gcc -c -O1 -Ilib/runtime/include -o "$SUT/shim/$(basename "$s" .c).o" "$s"; done
  clang-14 -c -O1 -fsanitize=address -Ilib/runtime/include -o "$SUT/shim/forkmain_asan.o" "$HERE/shim/forkmain.c"
  mkdir -p "$SUT/include"; cp -r lib/runtime/include/* "$SUT/include/"; cp -r lib/stdlib/include/* "$SUT/include/" 2>/dev/null || true
  rm -rf "$SUT/obj"
  touch "$SUT/.ok"; set +x
} >"$SUT/build.log" 2>&1 || { echo "SUT build failed, see $SUT/build.log" >&2; tail -40 "$SUT/build.log" >&2; exit 2; }
echo "$SUT"
