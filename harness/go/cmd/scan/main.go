// Command scan drives the REAL scanner (scanner.Scan / scanner.ScanAlias) over many inputs.
//   scan -table                  prints token ordinals, error codes and the keyword map as JSON
//   scan                         stdin: ndjson {"mode":"n"|"a","b":[bytes]}  ->  stdout: ndjson trace events
package main

import (
	"bufio"
	"encoding/json"
	"fmt"
	"os"

	"github.com/DDP-Projekt/Kompilierer/src/ddperror"
	"github.com/DDP-Projekt/Kompilierer/src/scanner"
	"github.com/DDP-Projekt/Kompilierer/src/token"
)

type input struct {
	Mode string `json:"mode"`
	B    []int  `json:"b"`
}

func cps(s string) []int {
	r := []int{}
	for _, c := range s {
		r = append(r, int(c))
	}
	return r
}

func main() {
	if len(os.Args) > 1 && os.Args[1] == "-table" {
		t := map[string]any{
			"types": map[string]int{"ILLEGAL": int(token.ILLEGAL), "EOF": int(token.EOF), "IDENTIFIER": int(token.IDENTIFIER),
				"ALIAS_PARAMETER": int(token.ALIAS_PARAMETER), "COMMENT": int(token.COMMENT), "SYMBOL": int(token.SYMBOL),
				"INT": int(token.INT), "FLOAT": int(token.FLOAT), "STRING": int(token.STRING), "CHAR": int(token.CHAR),
				"NEGATE": int(token.NEGATE), "DOT": int(token.DOT), "COMMA": int(token.COMMA), "COLON": int(token.COLON),
				"LPAREN": int(token.LPAREN), "RPAREN": int(token.RPAREN), "ELIPSIS": int(token.ELIPSIS)},
			"errors": map[string]int{"MALFORMED_LITERAL": int(ddperror.SYN_MALFORMED_LITERAL), "EXPECTED_CAPITAL": int(ddperror.SYN_EXPECTED_CAPITAL),
				"MALFORMED_ALIAS": int(ddperror.SYN_MALFORMED_ALIAS), "INVALID_UTF8": int(ddperror.SYN_INVALID_UTF8)},
		}
		kw := map[string]int{}
		for k, v := range token.KeywordMap {
			kw[k] = int(v)
		}
		t["keywords"] = kw
		json.NewEncoder(os.Stdout).Encode(t)
		return
	}
	in := bufio.NewScanner(os.Stdin)
	in.Buffer(make([]byte, 1<<20), 1<<26)
	out := bufio.NewWriterSize(os.Stdout, 1<<20)
	defer out.Flush()
	emit := func(v any) { b, _ := json.Marshal(v); out.Write(b); out.WriteByte('\n') }
	for in.Scan() {
		var inp input
		if err := json.Unmarshal(in.Bytes(), &inp); err != nil {
			fmt.Fprintln(os.Stderr, "bad input", err)
			os.Exit(2)
		}
		src := make([]byte, len(inp.B))
		for i, b := range inp.B {
			src[i] = byte(b)
		}
		emit(map[string]any{"e": "src", "mode": inp.Mode, "b": inp.B})
		var errs []ddperror.Error
		handler := func(e ddperror.Error) { errs = append(errs, e) }
		var toks []token.Token
		var err error
		func() {
			defer func() {
				if p := recover(); p != nil {
					err = fmt.Errorf("panic: %v", p)
					toks = nil
					emit(map[string]any{"e": "panic", "msg": fmt.Sprint(p)})
				}
			}()
			if inp.Mode == "a" {
				lit := token.Token{Type: token.STRING, Literal: "\"" + string(src) + "\"", Range: token.Range{Start: token.Position{Line: 1, Column: 1}}}
				toks, err = scanner.ScanAlias(lit, handler)
			} else {
				toks, err = scanner.Scan(scanner.Options{FileName: "x.ddp", Source: src, ScannerMode: scanner.ModeStrictCapitalization, ErrorHandler: handler})
			}
		}()
		if err != nil {
			emit(map[string]any{"e": "refused"})
			continue
		}
		// attribute each delivered error to the token during whose scan it was raised: errors are delivered in
		// order; an error belongs to the first token whose end is not before the error's start
		ei := 0
		for _, t := range toks {
			codes := []int{}
			for ei < len(errs) {
				e := errs[ei]
				endsBefore := t.Range.End.Line < e.Range.Start.Line || (t.Range.End.Line == e.Range.Start.Line && t.Range.End.Column <= e.Range.Start.Column)
				if endsBefore && t.Type != token.EOF {
					break
				}
				codes = append(codes, int(e.Code))
				ei++
			}
			ev := map[string]any{"e": "tok", "ty": int(t.Type), "r": []uint{t.Range.Start.Line, t.Range.Start.Column, t.Range.End.Line, t.Range.End.Column}, "ind": t.Indent, "errs": codes}
			if t.Type != token.ILLEGAL {
				ev["lit"] = cps(t.Literal)
			}
			emit(ev)
		}
	}
}
