// Command astx exports the REAL frontend's tree of a DDP program (parser.Parse: scanner, alias parser, resolver,
// typechecker) into the JSON program shape that spec/sem/DDPSem.tla evaluates (DESIGN.md Appendix B).  It is the binding
// that lets the TLA+ semantics judge programs nobody generated: the repository's own test programs and examples.
//
// The exporter is a strict whitelist.  Whatever it does not know (extern functions other than the seven basic
// Duden/Ausgabe printers, generic Kombinationen, Größe, Logarithmus, assignable casts, ...) becomes an "unsup" node; the
// specification gives such a node no meaning (the run is `unspec` from there on and only the output up to that point
// is compared), so an incomplete exporter can lose coverage but cannot invent a disagreement.
//
// One JSON request per line on stdin {"id","dir","main"}, one answer per line on stdout
// {"id","ok","err","faulty","p":{structs,funcs,main},"unsup":{reason:count},"nodes":n,"features":[..]}.
package main

import (
	"bufio"
	"encoding/json"
	"fmt"
	"math"
	"math/big"
	"os"
	"path/filepath"
	"sort"
	"strings"

	"github.com/DDP-Projekt/Kompilierer/src/ast"
	"github.com/DDP-Projekt/Kompilierer/src/ddperror"
	"github.com/DDP-Projekt/Kompilierer/src/ddptypes"
	"github.com/DDP-Projekt/Kompilierer/src/parser"
	"github.com/DDP-Projekt/Kompilierer/src/token"
)

type J = map[string]any

type request struct {
	ID   string `json:"id"`
	Dir  string `json:"dir"`
	Main string `json:"main"`
	// export the tree although the typechecker reported errors (codes 3000..3999); for checks that are about the shape of the tree only
	TreeOnly bool `json:"tree_only"`
}

type answer struct {
	ID       string         `json:"id"`
	OK       bool           `json:"ok"`
	Err      string         `json:"err,omitempty"`
	Faulty   bool           `json:"faulty"`
	P        J              `json:"p,omitempty"`
	Unsup    map[string]int `json:"unsup"`
	Nodes    int            `json:"nodes"`
	Features []string       `json:"features"`
}

type exporter struct {
	mainMod  *ast.Module
	modIdx   map[*ast.Module]int
	inited   map[*ast.Module]bool
	funcName map[*ast.FuncDecl]string
	funcDone map[*ast.FuncDecl]bool
	funcs    []J
	structs  []J
	stName   map[*ddptypes.StructType]string
	stDecl   map[*ddptypes.StructType]*ast.StructDecl
	genDecl  map[*ddptypes.GenericStructType]*ast.StructDecl
	stDone   map[*ddptypes.StructType]bool
	usedName map[string]bool
	unsup    map[string]int
	feat     map[string]bool
	nodes    int
	queue    []*ast.FuncDecl
}

func san(s string) string {
	var b strings.Builder
	for _, r := range s {
		if r < 128 && (r == '_' || (r >= '0' && r <= '9') || (r >= 'a' && r <= 'z') || (r >= 'A' && r <= 'Z')) {
			b.WriteRune(r)
		} else {
			fmt.Fprintf(&b, "_u%04X", r)
		}
	}
	return b.String()
}

func (x *exporter) un(why string) { x.unsup[why]++ }

func (x *exporter) unsupE(why string) J { x.un(why); return J{"k": "unsup", "why": why} }
func (x *exporter) unsupS(why string) J { x.un(why); return J{"k": "unsup", "why": why} }

func (x *exporter) modSuffix(m *ast.Module) string {
	if m == nil || m == x.mainMod {
		return ""
	}
	i, ok := x.modIdx[m]
	if !ok {
		i = len(x.modIdx) + 2
		x.modIdx[m] = i
	}
	return fmt.Sprintf("__m%d", i)
}

func (x *exporter) varName(d *ast.VarDecl) string {
	n := san(d.NameTok.Literal)
	if d.IsGlobal {
		return n + x.modSuffix(d.Mod)
	}
	return n
}

func (x *exporter) fname(f *ast.FuncDecl) string {
	if n, ok := x.funcName[f]; ok {
		return n
	}
	n := san(f.NameTok.Literal) + x.modSuffix(f.Mod)
	base := n
	for i := 2; x.usedName["f:"+n]; i++ {
		n = fmt.Sprintf("%s__i%d", base, i)
	}
	x.usedName["f:"+n] = true
	x.funcName[f] = n
	x.queue = append(x.queue, f)
	return n
}

func prim(p ddptypes.PrimitiveType) string {
	switch p {
	case ddptypes.ZAHL:
		return "Z"
	case ddptypes.KOMMAZAHL:
		return "K"
	case ddptypes.BYTE:
		return "B"
	case ddptypes.WAHRHEITSWERT:
		return "W"
	case ddptypes.BUCHSTABE:
		return "C"
	case ddptypes.TEXT:
		return "T"
	}
	return "?"
}

// typ returns the JSON type and whether it is fully supported
func (x *exporter) typ(t ddptypes.Type) (J, bool) {
	switch t := t.(type) {
	case ddptypes.PrimitiveType:
		return J{"b": prim(t)}, true
	case ddptypes.Variable:
		return J{"b": "V"}, true
	case ddptypes.VoidType:
		return J{"b": "none"}, true
	case ddptypes.ListType:
		e, ok := x.typ(t.ElementType)
		return J{"l": e}, ok
	case *ddptypes.InstantiatedGenericType:
		return x.typ(t.Actual) // the type parameter of a generic function inside one of its instantiations
	case *ddptypes.TypeAlias:
		return x.typ(t.Underlying) // aliases are transparent
	case *ddptypes.TypeDef:
		u, ok := x.typ(t.Underlying)
		return J{"d": san(t.Name), "of": u}, ok
	case *ddptypes.StructType:
		n, ok := x.structName(t)
		return J{"s": n}, ok
	}
	x.un(fmt.Sprintf("type:%T", t))
	return J{"b": "?"}, false
}

func (x *exporter) structName(t *ddptypes.StructType) (string, bool) {
	if n, ok := x.stName[t]; ok {
		return n, n != ""
	}
	d, ok := x.stDecl[t]
	name := t.Name
	if !ok {
		// an instantiation of a generic Kombination: the declaration of its template, the field types of the instantiation
		if g, _ := ddptypes.InstantiatedFrom(t); g != nil {
			d, ok = x.genDecl[g]
			name = t.String()
			x.feat["generic-kombination"] = true
		}
	}
	if !ok || len(d.Fields) != len(t.Fields) {
		x.stName[t] = ""
		x.un("struct-without-decl")
		return "", false
	}
	n := san(name) + x.modSuffix(d.Mod)
	x.stName[t] = n
	// export the declaration (fields in order, default expressions evaluated with globals only)
	fields := []any{}
	for fi, fd := range d.Fields {
		vd, isVar := fd.(*ast.VarDecl)
		if !isVar {
			x.un("struct-field-baddecl")
			continue
		}
		ft, _ := x.typ(t.Fields[fi].Type)
		def := J{"k": "none"}
		if vd.InitVal != nil {
			def = x.expr(vd.InitVal)
		}
		fields = append(fields, J{"n": san(vd.NameTok.Literal), "t": ft, "def": def})
	}
	x.structs = append(x.structs, J{"n": n, "fields": fields})
	return n, true
}

func limbs(v int64) []any {
	u := uint64(v)
	out := make([]any, 8)
	for i := 0; i < 8; i++ {
		out[i] = int((u >> (8 * uint(i))) & 255)
	}
	return out
}

func zlit(v int64) J { return J{"k": "lit", "v": J{"k": "Z", "v": limbs(v)}} }

// a float64 is m * 2^-e exactly; the specification's Kommazahl fragment holds |m| < 16384, 0 <= e <= 14
func klit(f float64) (J, bool) {
	if math.IsNaN(f) || math.IsInf(f, 0) {
		return nil, false
	}
	bf := new(big.Float).SetFloat64(f)
	for e := 0; e <= 14; e++ {
		if bf.IsInt() {
			m, _ := bf.Int64()
			if m > -16384 && m < 16384 {
				// normalise: DDPValues keeps m odd or e = 0
				for e > 0 && m%2 == 0 {
					m /= 2
					e--
				}
				return J{"k": "lit", "v": J{"k": "K", "s": "fin", "m": int(m), "e": e}}, true
			}
			return nil, false
		}
		bf.Mul(bf, big.NewFloat(2))
	}
	return nil, false
}

var unops = map[ast.UnaryOperator]string{ast.UN_ABS: "abs", ast.UN_LEN: "len", ast.UN_NEGATE: "neg", ast.UN_NOT: "not", ast.UN_LOGIC_NOT: "lnot"}

var binops = map[ast.BinaryOperator]string{
	ast.BIN_AND: "and", ast.BIN_OR: "or", ast.BIN_XOR: "xor", ast.BIN_CONCAT: "cat", ast.BIN_PLUS: "plus", ast.BIN_MINUS: "minus",
	ast.BIN_MULT: "mal", ast.BIN_DIV: "durch", ast.BIN_INDEX: "idx", ast.BIN_POW: "pow", ast.BIN_LOGIC_AND: "band", ast.BIN_LOGIC_OR: "bor",
	ast.BIN_LOGIC_XOR: "bxor", ast.BIN_MOD: "mod", ast.BIN_LEFT_SHIFT: "shl", ast.BIN_RIGHT_SHIFT: "shr", ast.BIN_EQUAL: "eq",
	ast.BIN_UNEQUAL: "ne", ast.BIN_LESS: "lt", ast.BIN_GREATER: "gt", ast.BIN_LESS_EQ: "le", ast.BIN_GREATER_EQ: "ge",
	ast.BIN_SLICE_TO: "sto", ast.BIN_SLICE_FROM: "sfrom",
}

var printers = map[string]bool{"Schreibe_Zahl": true, "Schreibe_Kommazahl": true, "Schreibe_Byte": true, "Schreibe_Wahrheitswert": true,
	"Schreibe_Buchstabe": true, "Schreibe_Text": true}

func isAusgabe(f *ast.FuncDecl) bool {
	return f.Mod != nil && strings.HasSuffix(filepath.ToSlash(f.Mod.FileName), "Duden/Ausgabe.ddp")
}

func (x *exporter) overload(o *ast.OperatorOverload) J {
	x.feat["operator-overload"] = true
	return x.callOf(o.Decl, o.Args)
}

func (x *exporter) callOf(f *ast.FuncDecl, args map[string]ast.Expression) J {
	if f == nil {
		return x.unsupE("call-without-decl")
	}
	if f.Body == nil && f.Def == nil {
		return x.unsupE("extern:" + f.NameTok.Literal)
	}
	if f.Generic != nil {
		return x.unsupE("call-to-generic-template")
	}
	if f.GenericInstantiation != nil {
		x.feat["generic-instantiation"] = true
	}
	as := []any{}
	for _, p := range f.Parameters {
		a, ok := args[p.Name.Literal]
		if !ok {
			return x.unsupE("call-missing-arg")
		}
		var e J
		if p.Type.IsReference {
			x.feat["referenz-arg"] = true
			e = x.lv(a)
		} else {
			e = x.expr(a)
		}
		as = append(as, J{"p": san(p.Name.Literal), "e": e})
	}
	return J{"k": "call", "f": x.fname(f), "args": as}
}

func ungroup(e ast.Expression) ast.Expression {
	for {
		g, ok := e.(*ast.Grouping)
		if !ok {
			return e
		}
		e = g.Expr
	}
}

func (x *exporter) lv(e ast.Expression) J {
	x.nodes++
	switch e := ungroup(e).(type) {
	case *ast.Ident:
		if vd, ok := e.Declaration.(*ast.VarDecl); ok {
			return J{"k": "id", "n": x.varName(vd)}
		}
		return x.unsupE("lv-ident-not-var")
	case *ast.Indexing:
		return J{"k": "idx", "l": x.lv(e.Lhs), "i": x.expr(e.Index)}
	case *ast.FieldAccess:
		return J{"k": "fld", "f": san(e.Field.Literal.Literal), "l": x.lv(e.Rhs)}
	case *ast.CastAssigneable:
		return x.unsupE("cast-assignable")
	}
	return x.unsupE(fmt.Sprintf("lv:%T", e))
}

func (x *exporter) lit(e ast.Expression) J {
	switch e := e.(type) {
	case *ast.IntLit:
		return zlit(e.Value)
	case *ast.FloatLit:
		if k, ok := klit(e.Value); ok {
			return k
		}
		return x.unsupE("kommazahl-outside-fragment")
	case *ast.BoolLit:
		return J{"k": "lit", "v": J{"k": "W", "v": e.Value}}
	case *ast.CharLit:
		return J{"k": "lit", "v": J{"k": "C", "v": int(e.Value)}}
	case *ast.StringLit:
		cps := []any{}
		for _, r := range e.Value {
			cps = append(cps, int(r))
		}
		return J{"k": "lit", "v": J{"k": "T", "v": cps}}
	}
	return x.unsupE(fmt.Sprintf("literal:%T", e))
}

func (x *exporter) expr(e ast.Expression) J {
	x.nodes++
	switch e := e.(type) {
	case *ast.Grouping:
		return x.expr(e.Expr)
	case *ast.IntLit, *ast.FloatLit, *ast.BoolLit, *ast.CharLit, *ast.StringLit:
		return x.lit(e)
	case *ast.Ident:
		switch d := e.Declaration.(type) {
		case *ast.VarDecl:
			return J{"k": "id", "n": x.varName(d)}
		case *ast.ConstDecl:
			x.feat["konstante"] = true
			return x.expr(d.Val)
		}
		return x.unsupE("ident-unresolved")
	case *ast.Indexing:
		return J{"k": "bin", "op": "idx", "l": x.expr(e.Lhs), "r": x.expr(e.Index)}
	case *ast.FieldAccess:
		return J{"k": "fld", "f": san(e.Field.Literal.Literal), "e": x.expr(e.Rhs)}
	case *ast.ListLit:
		et, ok := x.typ(e.Type.ElementType)
		if !ok {
			return x.unsupE("list-literal-type")
		}
		if e.Count != nil || e.Value != nil {
			x.feat["list-fill"] = true
			return J{"k": "fillx", "et": et, "n": x.expr(e.Count), "v": x.expr(e.Value)}
		}
		vals := []any{}
		for _, v := range e.Values {
			vals = append(vals, x.expr(v))
		}
		return J{"k": "list", "et": et, "vals": vals}
	case *ast.UnaryExpr:
		if e.OverloadedBy != nil {
			return x.overload(e.OverloadedBy)
		}
		if op, ok := unops[e.Operator]; ok {
			return J{"k": "un", "op": op, "r": x.expr(e.Rhs)}
		}
		return x.unsupE("unary:" + e.Operator.String())
	case *ast.BinaryExpr:
		if e.OverloadedBy != nil {
			return x.overload(e.OverloadedBy)
		}
		if e.Operator == ast.BIN_FIELD_ACCESS {
			if id, ok := e.Lhs.(*ast.Ident); ok {
				return J{"k": "fld", "f": san(id.Literal.Literal), "e": x.expr(e.Rhs)}
			}
			return x.unsupE("field-access-shape")
		}
		if op, ok := binops[e.Operator]; ok {
			return J{"k": "bin", "op": op, "l": x.expr(e.Lhs), "r": x.expr(e.Rhs)}
		}
		return x.unsupE("binary:" + e.Operator.String())
	case *ast.TernaryExpr:
		if e.OverloadedBy != nil {
			return x.overload(e.OverloadedBy)
		}
		switch e.Operator {
		case ast.TER_SLICE:
			return J{"k": "ter", "op": "slice", "l": x.expr(e.Lhs), "m": x.expr(e.Mid), "r": x.expr(e.Rhs)}
		case ast.TER_BETWEEN:
			return J{"k": "ter", "op": "between", "l": x.expr(e.Lhs), "m": x.expr(e.Mid), "r": x.expr(e.Rhs)}
		case ast.TER_FALLS:
			x.feat["falls"] = true
			return J{"k": "ter", "op": "falls", "l": x.expr(e.Lhs), "m": x.expr(e.Mid), "r": x.expr(e.Rhs)}
		}
		return x.unsupE("ternary")
	case *ast.CastExpr:
		if e.OverloadedBy != nil {
			return x.overload(e.OverloadedBy)
		}
		to, ok := x.typ(e.TargetType)
		if !ok {
			return x.unsupE("cast-target-type")
		}
		return J{"k": "cast", "to": to, "l": x.expr(e.Lhs)}
	case *ast.CastAssigneable:
		to, ok := x.typ(e.TargetType)
		if !ok {
			return x.unsupE("cast-target-type")
		}
		return J{"k": "cast", "to": to, "l": x.expr(e.Lhs)}
	case *ast.TypeOpExpr:
		if e.Operator == ast.TYPE_DEFAULT {
			t, ok := x.typ(e.Rhs)
			if ok {
				return J{"k": "std", "t": t}
			}
		}
		if e.Operator == ast.TYPE_SIZE {
			t, ok := x.typ(e.Rhs)
			if ok {
				x.feat["groesse"] = true
				return J{"k": "size", "t": t}
			}
		}
		return x.unsupE("typeop:" + e.Operator.String())
	case *ast.TypeCheck:
		t, ok := x.typ(e.CheckType)
		if !ok {
			return x.unsupE("typecheck-type")
		}
		return J{"k": "tchk", "l": x.expr(e.Lhs), "t": t}
	case *ast.FuncCall:
		if e.Func != nil && e.Func.Body == nil && e.Func.Def == nil && isAusgabe(e.Func) && printers[e.Func.NameTok.Literal] {
			return x.unsupE("printer-in-expression-position")
		}
		return x.callOf(e.Func, e.Args)
	case *ast.StructLiteral:
		if e.Type == nil {
			return x.unsupE("struct-literal-without-type")
		}
		n, ok := x.structName(e.Type)
		if !ok {
			return x.unsupE("struct-literal-type")
		}
		// arguments in field order (the specification evaluates them in the order given; the order of evaluation of the real
		// compiler is the alias' parameter order, which the tree does not keep: more than one effectful argument is unspecified)
		names := make([]string, 0, len(e.Args))
		for k := range e.Args {
			names = append(names, k)
		}
		sort.Strings(names)
		if len(names) > 1 {
			calls := 0
			for _, k := range names {
				if hasCall(e.Args[k]) {
					calls++
				}
			}
			if calls > 0 {
				return x.unsupE("struct-literal-with-effectful-arguments")
			}
		}
		as := []any{}
		for _, k := range names {
			as = append(as, J{"p": san(k), "e": x.expr(e.Args[k])})
		}
		return J{"k": "new", "s": n, "args": as}
	}
	return x.unsupE(fmt.Sprintf("expr:%T", e))
}

func hasCall(e ast.Expression) bool {
	found := false
	ast.VisitNode(callVisitor(func() { found = true }), e, nil)
	return found
}

type callVisitorT struct{ f func() }

func callVisitor(f func()) ast.Visitor { return &callVisitorT{f} }
func (*callVisitorT) Visitor()         {}
func (v *callVisitorT) VisitFuncCall(*ast.FuncCall) ast.VisitResult {
	v.f()
	return ast.VisitRecurse
}
func (v *callVisitorT) VisitUnaryExpr(e *ast.UnaryExpr) ast.VisitResult {
	if e.OverloadedBy != nil {
		v.f()
	}
	return ast.VisitRecurse
}
func (v *callVisitorT) VisitBinaryExpr(e *ast.BinaryExpr) ast.VisitResult {
	if e.OverloadedBy != nil {
		v.f()
	}
	return ast.VisitRecurse
}
func (v *callVisitorT) VisitTernaryExpr(e *ast.TernaryExpr) ast.VisitResult {
	if e.OverloadedBy != nil {
		v.f()
	}
	return ast.VisitRecurse
}
func (v *callVisitorT) VisitCastExpr(e *ast.CastExpr) ast.VisitResult {
	if e.OverloadedBy != nil {
		v.f()
	}
	return ast.VisitRecurse
}
func (v *callVisitorT) VisitStructLiteral(e *ast.StructLiteral) ast.VisitResult {
	v.f() // field defaults may call
	return ast.VisitRecurse
}

func (x *exporter) body(s ast.Statement) []any {
	if s == nil {
		return []any{}
	}
	if b, ok := s.(*ast.BlockStmt); ok {
		return x.stmts(b.Statements)
	}
	return x.stmts([]ast.Statement{s})
}

func (x *exporter) stmts(ss []ast.Statement) []any {
	out := []any{}
	for _, s := range ss {
		out = append(out, x.stmt(s)...)
	}
	return out
}

func (x *exporter) stmt(s ast.Statement) []any {
	x.nodes++
	one := func(j J) []any { return []any{j} }
	switch s := s.(type) {
	case *ast.DeclStmt:
		switch d := s.Decl.(type) {
		case *ast.VarDecl:
			t, ok := x.typ(d.Type)
			if !ok {
				return one(x.unsupS("var-type"))
			}
			if d.InitVal == nil {
				return one(x.unsupS("var-without-init"))
			}
			return one(J{"k": "var", "t": t, "n": x.varName(d), "e": x.expr(d.InitVal), "g": d.IsGlobal})
		case *ast.FuncDecl, *ast.StructDecl, *ast.ConstDecl, *ast.TypeAliasDecl, *ast.TypeDefDecl:
			return nil
		}
		return one(x.unsupS(fmt.Sprintf("decl:%T", s.Decl)))
	case *ast.FuncDef:
		return nil
	case *ast.ExprStmt:
		if c, ok := ungroup(s.Expr).(*ast.FuncCall); ok && c.Func != nil && c.Func.Body == nil && c.Func.Def == nil && isAusgabe(c.Func) && printers[c.Func.NameTok.Literal] {
			if a, ok := c.Args[c.Func.Parameters[0].Name.Literal]; ok {
				return one(J{"k": "print", "e": x.expr(a), "nl": false})
			}
		}
		return one(J{"k": "expr", "e": x.expr(s.Expr)})
	case *ast.ImportStmt:
		out := []any{}
		for _, m := range s.Modules {
			out = append(out, x.module(m)...)
		}
		return out
	case *ast.AssignStmt:
		return one(J{"k": "set", "lv": x.lv(s.Var), "e": x.expr(s.Rhs)})
	case *ast.BlockStmt:
		return one(J{"k": "block", "body": x.stmts(s.Statements)})
	case *ast.IfStmt:
		return one(J{"k": "if", "c": x.expr(s.Condition), "then": x.body(s.Then), "else": x.body(s.Else)})
	case *ast.WhileStmt:
		switch s.While.Type {
		case token.SOLANGE:
			return one(J{"k": "while", "c": x.expr(s.Condition), "body": x.body(s.Body)})
		case token.MACHE:
			return one(J{"k": "dowhile", "c": x.expr(s.Condition), "body": x.body(s.Body)})
		case token.WIEDERHOLE:
			return one(J{"k": "repeat", "n": x.expr(s.Condition), "body": x.body(s.Body)})
		}
		return one(x.unsupS("while-kind"))
	case *ast.ForStmt:
		t, ok := x.typ(s.Initializer.Type)
		if !ok || s.Initializer.InitVal == nil {
			return one(x.unsupS("for-shape"))
		}
		step := J{"k": "none"}
		if s.StepSize != nil {
			step = x.expr(s.StepSize)
		}
		return one(J{"k": "for", "t": t, "v": x.varName(s.Initializer), "from": x.expr(s.Initializer.InitVal), "to": x.expr(s.To), "step": step, "body": x.body(s.Body)})
	case *ast.ForRangeStmt:
		t, ok := x.typ(s.Initializer.Type)
		if !ok {
			return one(x.unsupS("foreach-type"))
		}
		idx := ""
		if s.Index != nil {
			idx = x.varName(s.Index)
		}
		return one(J{"k": "foreach", "t": t, "v": x.varName(s.Initializer), "idx": idx, "in": x.expr(s.In), "body": x.body(s.Body)})
	case *ast.BreakContinueStmt:
		if s.Tok.Type == token.VERLASSE {
			return one(J{"k": "break"})
		}
		return one(J{"k": "continue"})
	case *ast.ReturnStmt:
		if s.Value == nil {
			return one(J{"k": "ret", "e": J{"k": "none"}})
		}
		return one(J{"k": "ret", "e": x.expr(s.Value)})
	case *ast.TodoStmt:
		return one(J{"k": "todo"})
	}
	return one(x.unsupS(fmt.Sprintf("stmt:%T", s)))
}

// the statements of an imported module run once, when it is first imported (its own imports first)
func (x *exporter) module(m *ast.Module) []any {
	if m == nil || m.Ast == nil {
		return []any{x.unsupS("import-nil-module")}
	}
	if x.inited[m] {
		return nil
	}
	x.inited[m] = true
	// of an imported module only the declarations (global initialisers) and its own imports run (compiler.compile)
	out := []any{}
	for _, s := range m.Ast.Statements {
		switch s.(type) {
		case *ast.DeclStmt, *ast.ImportStmt, *ast.FuncDef:
			out = append(out, x.stmt(s)...)
		}
	}
	return out
}

func (x *exporter) collectStructs(m *ast.Module, seen map[*ast.Module]bool) {
	if m == nil || m.Ast == nil || seen[m] {
		return
	}
	seen[m] = true
	for _, s := range m.Ast.Statements {
		if ds, ok := s.(*ast.DeclStmt); ok {
			if sd, ok := ds.Decl.(*ast.StructDecl); ok {
				if st, ok := sd.Type.(*ddptypes.StructType); ok {
					x.stDecl[st] = sd
				}
				if gt, ok := sd.Type.(*ddptypes.GenericStructType); ok {
					x.genDecl[gt] = sd
				}
			}
		}
	}
	for _, imp := range m.Imports {
		for _, im := range imp.Modules {
			x.collectStructs(im, seen)
		}
	}
}

func (x *exporter) drainFuncs() {
	for len(x.queue) > 0 {
		f := x.queue[0]
		x.queue = x.queue[1:]
		if x.funcDone[f] {
			continue
		}
		x.funcDone[f] = true
		body := f.Body
		if body == nil && f.Def != nil {
			body = f.Def.Body
			x.feat["forward-declaration"] = true
		}
		ret, _ := x.typ(f.ReturnType)
		ps := []any{}
		for _, p := range f.Parameters {
			pt, _ := x.typ(p.Type.Type)
			ps = append(ps, J{"n": san(p.Name.Literal), "t": pt, "ref": p.Type.IsReference})
		}
		var b []any
		if body == nil {
			b = []any{x.unsupS("function-without-body")}
		} else {
			b = x.stmts(body.Statements)
		}
		x.funcs = append(x.funcs, J{"n": x.funcName[f], "params": ps, "ret": ret, "body": b})
	}
}

func export(req request) (ans answer) {
	ans = answer{ID: req.ID, Unsup: map[string]int{}}
	defer func() {
		if r := recover(); r != nil {
			ans.OK = false
			ans.Err = fmt.Sprintf("panic: %v", r)
		}
	}()
	mainPath := filepath.Join(req.Dir, req.Main)
	src, err := os.ReadFile(mainPath)
	if err != nil {
		ans.Err = err.Error()
		return
	}
	old, _ := os.Getwd()
	_ = os.Chdir(filepath.Dir(mainPath))
	defer os.Chdir(old)
	nerr, nother := 0, 0
	mods := map[string]*ast.Module{}
	module, perr := parser.Parse(parser.Options{FileName: mainPath, Source: src, Modules: mods,
		ErrorHandler: func(e ddperror.Error) {
			if e.Level == ddperror.LEVEL_ERROR {
				nerr++
				if e.Code < 3000 || e.Code >= 4000 {
					nother++
				}
			}
		}})
	if perr != nil || module == nil || module.Ast == nil {
		ans.Err = fmt.Sprintf("parse: %v", perr)
		return
	}
	ans.Faulty = module.Ast.Faulty || nerr > 0
	if ans.Faulty && !(req.TreeOnly && nother == 0) {
		ans.Err = "faulty"
		return
	}
	x := &exporter{mainMod: module, modIdx: map[*ast.Module]int{}, inited: map[*ast.Module]bool{module: true},
		funcName: map[*ast.FuncDecl]string{}, funcDone: map[*ast.FuncDecl]bool{}, stName: map[*ddptypes.StructType]string{},
		stDecl: map[*ddptypes.StructType]*ast.StructDecl{}, genDecl: map[*ddptypes.GenericStructType]*ast.StructDecl{}, stDone: map[*ddptypes.StructType]bool{}, usedName: map[string]bool{},
		unsup: ans.Unsup, feat: map[string]bool{}}
	x.collectStructs(module, map[*ast.Module]bool{})
	main := x.stmts(module.Ast.Statements)
	x.drainFuncs()
	// struct default expressions and function bodies may have queued more
	x.drainFuncs()
	ans.P = J{"structs": x.structs, "funcs": x.funcs, "main": main}
	if x.structs == nil {
		ans.P["structs"] = []any{}
	}
	if x.funcs == nil {
		ans.P["funcs"] = []any{}
	}
	ans.Nodes = x.nodes
	for f := range x.feat {
		ans.Features = append(ans.Features, f)
	}
	sort.Strings(ans.Features)
	ans.OK = true
	return
}

func main() {
	in := bufio.NewReaderSize(os.Stdin, 1<<20)
	out := bufio.NewWriter(os.Stdout)
	defer out.Flush()
	for {
		line, err := in.ReadBytes('\n')
		if len(line) > 0 {
			var req request
			if json.Unmarshal(line, &req) == nil {
				b, _ := json.Marshal(export(req))
				out.Write(b)
				out.WriteByte('\n')
				out.Flush()
			}
		}
		if err != nil {
			return
		}
	}
}
