// Command trie drives the REAL alias trie (src/parser/alias_trie) with the REAL key predicates
// (tokenEqual/tokenLess, exported under build tag verif) and records what it answers.
//
// stdin : one JSON job  {"names":[vocab names], "keyseqs":[[idx..]..], "queries":[[idx|0..]..],
//                        "maxops":N, "mode":"all"|"random", "count":n, "maxlen":m, "seed":s, "copy":bool}
// stdout: ndjson trace   reset / ins / has / srch   (see spec/alias/AliasTrieTrace.tla)
// A panic inside Search is recorded as "crash":true (the property says the lookup never fails).
package main

import (
	"bufio"
	"encoding/json"
	"fmt"
	"math/rand"
	"os"
	"sort"

	"github.com/DDP-Projekt/Kompilierer/src/ddptypes"
	"github.com/DDP-Projekt/Kompilierer/src/parser"
	at "github.com/DDP-Projekt/Kompilierer/src/parser/alias_trie"
	"github.com/DDP-Projekt/Kompilierer/src/token"
)

type job struct {
	Names   []string `json:"names"`
	Keyseqs [][]int  `json:"keyseqs"`
	Queries [][]int  `json:"queries"`
	MaxOps  int      `json:"maxops"`
	Mode    string   `json:"mode"`
	Count   int      `json:"count"`
	MaxLen  int      `json:"maxlen"`
	Seed    int64    `json:"seed"`
	Copy    bool     `json:"copy"`
	// vocabulary attributes as the specification states them, for the consistency check
	Vocab []struct {
		Cls   string `json:"cls"`
		Ty    int    `json:"ty"`
		Lit   int    `json:"lit"`
		Ref   bool   `json:"ref"`
		List  bool   `json:"list"`
		Tname int    `json:"tname"`
		Tid   int    `json:"tid"`
	} `json:"vocab"`
}

func mkStruct(name string) *ddptypes.StructType {
	return &ddptypes.StructType{Name: name, GramGender: ddptypes.MASKULIN, Fields: []ddptypes.StructField{{Name: "x", Type: ddptypes.ZAHL}}}
}

func realToken(name string) *token.Token {
	par := func(t ddptypes.Type, ref bool) *token.Token {
		return &token.Token{Type: token.ALIAS_PARAMETER, Literal: "<a>", AliasInfo: &ddptypes.ParameterType{Type: t, IsReference: ref}}
	}
	switch name {
	case "foo":
		return &token.Token{Type: token.IDENTIFIER, Literal: "foo"}
	case "zeige":
		return &token.Token{Type: token.IDENTIFIER, Literal: "zeige"}
	case "mit":
		return &token.Token{Type: token.MIT, Literal: "mit"}
	case "Mit":
		return &token.Token{Type: token.MIT, Literal: "Mit"}
	case "int1":
		return &token.Token{Type: token.INT, Literal: "1"}
	case "nicht":
		return &token.Token{Type: token.NICHT, Literal: "nicht"}
	case "pBy":
		return par(ddptypes.BYTE, false)
	case "pZ":
		return par(ddptypes.ZAHL, false)
	case "pT":
		return par(ddptypes.TEXT, false)
	case "pZr":
		return par(ddptypes.ZAHL, true)
	case "pA", "pB", "pC":
		return par(mkStruct("Punkt"), false)
	case "pAZ":
		return par(&ddptypes.TypeAlias{Name: "Nummer", Underlying: ddptypes.ZAHL, GramGender: ddptypes.FEMININ}, false)
	case "pZL":
		return par(ddptypes.ListType{ElementType: ddptypes.ZAHL}, false)
	case "pVL":
		return par(&ddptypes.TypeAlias{Name: "Vektor", Underlying: ddptypes.ListType{ElementType: ddptypes.ZAHL}, GramGender: ddptypes.MASKULIN}, false)
	}
	fmt.Fprintf(os.Stderr, "unknown vocabulary name %q\n", name)
	os.Exit(2)
	return nil
}

func sgn(b1, b2 bool) int {
	if b1 {
		return -1
	}
	if b2 {
		return 1
	}
	return 0
}
func cmpInt(a, b int) int {
	if a < b {
		return -1
	}
	if a > b {
		return 1
	}
	return 0
}
func cmpStr(a, b string) int {
	if a < b {
		return -1
	}
	if a > b {
		return 1
	}
	return 0
}

var out *bufio.Writer

func emit(v any) {
	b, _ := json.Marshal(v)
	out.Write(b)
	out.WriteByte('\n')
}

func main() {
	var j job
	if err := json.NewDecoder(os.Stdin).Decode(&j); err != nil {
		fmt.Fprintln(os.Stderr, "bad job:", err)
		os.Exit(2)
	}
	out = bufio.NewWriterSize(os.Stdout, 1<<20)
	defer out.Flush()

	// a fresh token object per use site would also be legitimate; the parser inserts pointers into
	// the token slices of the declarations, so distinct pointers with equal content are the norm.
	proto := make([]*token.Token, len(j.Names)+1)
	for i, n := range j.Names {
		proto[i+1] = realToken(n)
	}
	// consistency of the real tokens with the attributes the specification assumes (data, not logic)
	if len(j.Vocab) == len(j.Names) {
		for a := 1; a <= len(j.Names); a++ {
			for b := 1; b <= len(j.Names); b++ {
				va, vb, ta, tb := j.Vocab[a-1], j.Vocab[b-1], proto[a], proto[b]
				if cmpInt(va.Ty, vb.Ty) != cmpInt(int(ta.Type), int(tb.Type)) {
					fmt.Fprintf(os.Stderr, "vocabulary drift: token type order of %s/%s\n", j.Names[a-1], j.Names[b-1])
					os.Exit(2)
				}
				if va.Cls == "lit" && vb.Cls == "lit" && va.Ty == vb.Ty && cmpInt(va.Lit, vb.Lit) != cmpStr(ta.Literal, tb.Literal) {
					fmt.Fprintf(os.Stderr, "vocabulary drift: literal order of %s/%s\n", j.Names[a-1], j.Names[b-1])
					os.Exit(2)
				}
				if va.Cls == "param" && vb.Cls == "param" {
					sa, sb := ddptypes.GetUnderlying(ta.AliasInfo.Type).String(), ddptypes.GetUnderlying(tb.AliasInfo.Type).String()
					if cmpInt(va.Tname, vb.Tname) != cmpStr(sa, sb) {
						fmt.Fprintf(os.Stderr, "vocabulary drift: printed type name order of %s/%s (%q,%q)\n", j.Names[a-1], j.Names[b-1], sa, sb)
						os.Exit(2)
					}
				}
			}
		}
	}
	mk := func(idx int) *token.Token { c := *proto[idx]; return &c }
	toks := func(ks []int) []*token.Token {
		r := make([]*token.Token, len(ks))
		for i, k := range ks {
			r[i] = mk(k)
		}
		return r
	}

	runHistory := func(hist [][]int) {
		emit(map[string]any{"e": "reset"})
		trie := at.New[*token.Token, int](parser.VerifTokenEqual, parser.VerifTokenLess)
		for i, ks := range hist {
			trie.Insert(toks(ks), i+1)
			emit(map[string]any{"e": "ins", "k": ks})
			if j.Copy && i == len(hist)/2 {
				// Copy must be observationally the same trie; later inserts go to the copy only
				trie = at.Copy(trie)
			}
		}
		for _, ks := range j.Keyseqs {
			ok, val := trie.Contains(toks(ks))
			emit(map[string]any{"e": "has", "k": ks, "ok": ok, "val": val})
		}
		for _, q := range j.Queries {
			vals, crash := search(trie, q, mk)
			emit(map[string]any{"e": "srch", "q": q, "crash": crash, "vals": vals})
		}
	}

	switch j.Mode {
	case "all":
		var rec func(prefix [][]int)
		rec = func(prefix [][]int) {
			runHistory(prefix)
			if len(prefix) == j.MaxOps {
				return
			}
			for _, ks := range j.Keyseqs {
				rec(append(prefix[:len(prefix):len(prefix)], ks))
			}
		}
		rec(nil)
	case "random":
		r := rand.New(rand.NewSource(j.Seed))
		for c := 0; c < j.Count; c++ {
			n := 1 + r.Intn(j.MaxLen)
			h := make([][]int, n)
			for i := range h {
				h[i] = j.Keyseqs[r.Intn(len(j.Keyseqs))]
			}
			runHistory(h)
		}
	}
}

// search mirrors the key generator of parser.alias(): positions are tracked per node index;
// a placeholder child is answered with itself when the query holds an argument there.
func search(trie *at.Trie[*token.Token, int], q []int, mk func(int) *token.Token) (vals []int, crash bool) {
	defer func() {
		if r := recover(); r != nil {
			vals, crash = []int{}, true
		}
	}()
	cur := 0
	start := make([]int, 0, 8)
	res := trie.Search(func(nodeIndex int, child *token.Token) (*token.Token, bool) {
		if nodeIndex < len(start) {
			if i := start[nodeIndex]; i == -1 {
				start[nodeIndex] = cur
			} else {
				cur = i
			}
		} else {
			for len(start) <= nodeIndex {
				start = append(start, -1)
			}
			start[nodeIndex] = cur
		}
		if cur >= len(q) {
			return nil, false
		}
		t := q[cur]
		cur++
		if t == 0 { // an argument
			if child.Type == token.ALIAS_PARAMETER {
				return child, true
			}
			return nil, false
		}
		return mk(t), true
	})
	if res == nil {
		res = []int{}
	}
	_ = sort.Ints
	return res, false
}
