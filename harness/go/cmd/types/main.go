// Command types builds REAL ddptypes values from type terms and reports what the exported predicates
// answer.  stdin: JSON list of terms (spec/types/DDPTypes.tla shapes); stdout: ndjson "eq" events for
// every ordered pair.
package main

import (
	"bufio"
	"encoding/json"
	"fmt"
	"os"

	"github.com/DDP-Projekt/Kompilierer/src/ddptypes"
)

type term struct {
	K string `json:"k"`
	N string `json:"n,omitempty"`
	E *term  `json:"e,omitempty"`
	U *term  `json:"u,omitempty"`
}

var named = map[string]ddptypes.Type{}

func build(t *term) ddptypes.Type {
	switch t.K {
	case "p":
		switch t.N {
		case "Z":
			return ddptypes.ZAHL
		case "K":
			return ddptypes.KOMMAZAHL
		case "B":
			return ddptypes.BYTE
		case "W":
			return ddptypes.WAHRHEITSWERT
		case "C":
			return ddptypes.BUCHSTABE
		case "T":
			return ddptypes.TEXT
		}
	case "v":
		return ddptypes.VARIABLE
	case "s":
		if x, ok := named["s:"+t.N]; ok {
			return x
		}
		x := &ddptypes.StructType{Name: t.N, GramGender: ddptypes.MASKULIN, Fields: []ddptypes.StructField{{Name: "x", Type: ddptypes.ZAHL}}}
		named["s:"+t.N] = x
		return x
	case "l":
		return ddptypes.ListType{ElementType: build(t.E)}
	case "a":
		if x, ok := named["a:"+t.N]; ok {
			return x
		}
		x := &ddptypes.TypeAlias{Name: t.N, Underlying: build(t.U), GramGender: ddptypes.FEMININ}
		named["a:"+t.N] = x
		return x
	case "d":
		if x, ok := named["d:"+t.N]; ok {
			return x
		}
		x := &ddptypes.TypeDef{Name: t.N, Underlying: build(t.U), GramGender: ddptypes.FEMININ}
		named["d:"+t.N] = x
		return x
	}
	fmt.Fprintln(os.Stderr, "bad term", t.K)
	os.Exit(2)
	return nil
}

func main() {
	var terms []*term
	if err := json.NewDecoder(os.Stdin).Decode(&terms); err != nil {
		fmt.Fprintln(os.Stderr, err)
		os.Exit(2)
	}
	types := make([]ddptypes.Type, len(terms))
	for i, t := range terms {
		types[i] = build(t)
	}
	out := bufio.NewWriterSize(os.Stdout, 1<<20)
	defer out.Flush()
	enc := json.NewEncoder(out)
	for i := range terms {
		for j := range terms {
			enc.Encode(map[string]any{"e": "eq", "a": terms[i], "b": terms[j], "equal": ddptypes.Equal(types[i], types[j])})
		}
	}
}
