// Command fe is the in-process frontend worker: it drives the REAL scanner/parser/resolver/typechecker
// (parser.Parse) on files materialised by the supervisor and reports what the property observables are:
// verdict, delivered diagnostics (in order), faulty flags of every module, panics, the calls resolved
// in the AST.  One JSON request per line on stdin, one JSON answer per line on stdout.
// A fatal runtime error kills the process; the supervisor restarts it and records the request.
package main

import (
	"bufio"
	"encoding/json"
	"fmt"
	"io"
	"os"
	"path/filepath"
	"runtime/debug"
	"sort"
	"strings"

	"github.com/DDP-Projekt/Kompilierer/src/ast"
	"github.com/DDP-Projekt/Kompilierer/src/ddperror"
	"github.com/DDP-Projekt/Kompilierer/src/ddptypes"
	"github.com/DDP-Projekt/Kompilierer/src/parser"
	"github.com/DDP-Projekt/Kompilierer/src/token"
)

type request struct {
	ID     string `json:"id"`
	Dir    string `json:"dir"`
	Main   string `json:"main"`
	Calls  bool   `json:"calls"`
	Render bool   `json:"render"`
	Dump   bool   `json:"dump"`
	Repeat int    `json:"repeat"`
	Stack  bool   `json:"stack"`
	Trace  bool   `json:"trace"`
	Types  bool   `json:"types"`
}

type vartype struct {
	Name string `json:"name"`
	Line int    `json:"line"`
	Decl string `json:"decl"`
	Init string `json:"init"`
}

type diag struct {
	Lvl  string `json:"lvl"`
	Code int    `json:"code"`
	File string `json:"file"`
	R    [4]int `json:"r"`
	Msg  string `json:"msg,omitempty"`
	Sub  []diag `json:"sub,omitempty"`
}

type call struct {
	Kind   string            `json:"kind"` // "func" | "struct"
	Pos    [2]int            `json:"pos"`
	File   string            `json:"file"`
	Name   string            `json:"name"`
	Mod    string            `json:"mod"`
	Neg    bool              `json:"neg"`
	Args   map[string]string `json:"args"`
	Params []string          `json:"params,omitempty"`
	Inst   bool              `json:"inst,omitempty"`
}

type modinfo struct {
	File   string `json:"file"`
	Nil    bool   `json:"nil"`
	Faulty bool   `json:"faulty"`
}

type run struct {
	Err         string    `json:"err,omitempty"`
	Panic       string    `json:"panic,omitempty"`
	Stack       string    `json:"stack,omitempty"`
	Faulty      bool      `json:"faulty"`
	NoModule    bool      `json:"nomodule"`
	Diags       []diag    `json:"diags"`
	Modules     []modinfo `json:"modules"`
	RenderPanic []string  `json:"render_panic,omitempty"`
	Calls       []call    `json:"calls,omitempty"`
	Dump        string    `json:"dump,omitempty"`
	Iters       int       `json:"iters"`
	Stall       bool      `json:"stall"`
	Finish      [][3]int  `json:"finish,omitempty"`
	Deliver     [][3]int  `json:"deliver,omitempty"`
	VarTypes    []vartype `json:"vartypes,omitempty"`
	Inst        []instev  `json:"inst,omitempty"`
}

// one step of the instantiation cache of generic functions (hook H4)
type instev struct {
	Kind  string   `json:"kind"`
	Fn    string   `json:"fn"`
	Mod   string   `json:"mod"`
	Key   string   `json:"key"`
	Nerr  int      `json:"nerr"`
	Cache []string `json:"cache"`
}

type answer struct {
	ID   string `json:"id"`
	Runs []run  `json:"runs"`
}

func rel(dir, f string) string {
	if r, err := filepath.Rel(dir, f); err == nil && !strings.HasPrefix(r, "..") {
		return r
	}
	return f
}

func lvl(l ddperror.Level) string {
	switch l {
	case ddperror.LEVEL_ERROR:
		return "err"
	case ddperror.LEVEL_WARN:
		return "warn"
	}
	return "invalid"
}

func mkdiag(dir string, e ddperror.Error) diag {
	d := diag{Lvl: lvl(e.Level), Code: int(e.Code), File: rel(dir, e.File),
		R: [4]int{int(e.Range.Start.Line), int(e.Range.Start.Column), int(e.Range.End.Line), int(e.Range.End.Column)}, Msg: e.Msg}
	for _, w := range e.WrappedGenericErrors {
		d.Sub = append(d.Sub, mkdiag(dir, w))
	}
	return d
}

func exprText(e ast.Expression) string {
	switch x := e.(type) {
	case nil:
		return "<nil>"
	case *ast.IntLit:
		return x.Literal.Literal
	case *ast.FloatLit:
		return x.Literal.Literal
	case *ast.StringLit:
		return x.Literal.Literal
	case *ast.CharLit:
		return x.Literal.Literal
	case *ast.BoolLit:
		return x.Literal.Literal
	case *ast.Ident:
		return x.Literal.Literal
	case *ast.Grouping:
		return "(" + exprText(x.Expr) + ")"
	case *ast.UnaryExpr:
		return x.Operator.String() + " " + exprText(x.Rhs)
	case *ast.BinaryExpr:
		return exprText(x.Lhs) + " " + x.Operator.String() + " " + exprText(x.Rhs)
	case *ast.FuncCall:
		return "call:" + x.Name
	case *ast.CastExpr:
		return exprText(x.Lhs) + " als " + x.TargetType.String()
	case *ast.Indexing:
		return exprText(x.Lhs) + " an der Stelle " + exprText(x.Index)
	case *ast.FieldAccess:
		return x.Field.Literal.Literal + " von " + exprText(x.Rhs)
	}
	return e.String()
}

type callVisitor struct {
	dir   string
	file  string
	calls []call
}

func (*callVisitor) Visitor() {}
func (v *callVisitor) SetModule(m *ast.Module) { v.file = rel(v.dir, m.FileName) }
func (v *callVisitor) add(kind string, tok token.Token, name, mod string, args map[string]ast.Expression, params []string, inst bool) {
	c := call{Kind: kind, Pos: [2]int{int(tok.Range.Start.Line), int(tok.Range.Start.Column)}, File: v.file, Name: name, Mod: mod, Args: map[string]string{}, Params: params, Inst: inst}
	for k, a := range args {
		c.Args[k] = exprText(a)
	}
	v.calls = append(v.calls, c)
}
func (v *callVisitor) VisitFuncCall(c *ast.FuncCall) ast.VisitResult {
	mod, params, inst := "", []string(nil), false
	if c.Func != nil {
		if c.Func.Mod != nil {
			mod = rel(v.dir, c.Func.Mod.FileName)
		}
		for _, p := range c.Func.Parameters {
			params = append(params, p.Name.Literal+":"+p.Type.String())
		}
		inst = c.Func.GenericInstantiation != nil
	}
	v.add("func", c.Tok, c.Name, mod, c.Args, params, inst)
	return ast.VisitRecurse
}
func (v *callVisitor) VisitStructLiteral(c *ast.StructLiteral) ast.VisitResult {
	name, mod := "", ""
	if c.Struct != nil {
		name = c.Struct.Name()
		if c.Struct.Mod != nil {
			mod = rel(v.dir, c.Struct.Mod.FileName)
		}
	}
	v.add("struct", c.Tok, name, mod, c.Args, nil, false)
	return ast.VisitRecurse
}

func (v *callVisitor) overload(tok token.Token, o *ast.OperatorOverload, op string) {
	if o == nil || o.Decl == nil {
		v.calls = append(v.calls, call{Kind: "builtin", Pos: [2]int{int(tok.Range.Start.Line), int(tok.Range.Start.Column)}, File: v.file, Name: op})
		return
	}
	v.calls = append(v.calls, call{Kind: "overload", Pos: [2]int{int(tok.Range.Start.Line), int(tok.Range.Start.Column)}, File: v.file, Name: o.Decl.Name()})
}
func (v *callVisitor) VisitBinaryExpr(b *ast.BinaryExpr) ast.VisitResult {
	v.overload(b.Tok, b.OverloadedBy, b.Operator.String())
	return ast.VisitRecurse
}
func (v *callVisitor) VisitCastExpr(b *ast.CastExpr) ast.VisitResult {
	v.overload(b.Lhs.Token(), b.OverloadedBy, "als")
	return ast.VisitRecurse
}

// negated calls: UnaryExpr{UN_NOT, FuncCall} with identical range and token is how alias negation is encoded
func (v *callVisitor) VisitUnaryExpr(u *ast.UnaryExpr) ast.VisitResult {
	if fc, ok := u.Rhs.(*ast.FuncCall); ok && u.Operator == ast.UN_NOT && u.Range == fc.Range {
		v.calls = append(v.calls, call{Kind: "not", Pos: [2]int{int(fc.Tok.Range.Start.Line), int(fc.Tok.Range.Start.Column)}, File: v.file, Name: fc.Name, Neg: true})
	} else {
		v.overload(u.Tok, u.OverloadedBy, u.Operator.String())
	}
	return ast.VisitRecurse
}

var _ = ddptypes.ZAHL

func once(req *request) (r run) {
	r.Diags = []diag{}
	main := filepath.Join(req.Dir, req.Main)
	src, err := os.ReadFile(main)
	if err != nil {
		r.Err = "read: " + err.Error()
		return
	}
	var collected []ddperror.Error
	mods := map[string]*ast.Module{}
	if req.Trace {
		parser.VerifReset()
		var last [4]int
		lastKind := ""
		rep := 0
		parser.VerifHook = func(kind string, pid, a, b int) {
			switch kind {
			case "main", "block":
				r.Iters++
				cur := [4]int{pid, a, b, 0}
				if kind == lastKind && cur == last {
					rep++
					if rep >= 3 {
						r.Stall = true
						panic("verif: parser loop made no progress (" + kind + ")")
					}
				} else {
					rep = 0
				}
				last, lastKind = cur, kind
			case "finish":
				r.Finish = append(r.Finish, [3]int{pid, a, b})
			case "deliver":
				if len(r.Deliver) < 200 {
					r.Deliver = append(r.Deliver, [3]int{pid, a, b})
				}
			}
		}
		defer func() { parser.VerifHook = nil }()
		parser.VerifInstHook = func(kind, fn, module, key string, nerr int, cache []string) {
			if len(r.Inst) < 4000 {
				r.Inst = append(r.Inst, instev{Kind: kind, Fn: fn, Mod: rel(req.Dir, module), Key: key, Nerr: nerr, Cache: append([]string{}, cache...)})
			}
		}
		defer func() { parser.VerifInstHook = nil }()
	}
	var module *ast.Module
	func() {
		defer func() {
			if p := recover(); p != nil {
				r.Panic = fmt.Sprint(p)
				if len(r.Panic) > 6000 {
					r.Panic = r.Panic[:6000]
				}
				if req.Stack {
					r.Stack = string(debug.Stack())
				}
			}
		}()
		var perr error
		module, perr = parser.Parse(parser.Options{FileName: main, Source: src, Modules: mods,
			ErrorHandler: func(e ddperror.Error) { collected = append(collected, e) }})
		if perr != nil {
			r.Err = perr.Error()
			if len(r.Err) > 600 {
				r.Err = r.Err[:600]
			}
		}
	}()
	for _, e := range collected {
		r.Diags = append(r.Diags, mkdiag(req.Dir, e))
	}
	if module == nil || module.Ast == nil {
		r.NoModule = true
	} else {
		r.Faulty = module.Ast.Faulty
	}
	keys := make([]string, 0, len(mods))
	for k := range mods {
		keys = append(keys, k)
	}
	sort.Strings(keys)
	for _, k := range keys {
		m := mods[k]
		mi := modinfo{File: rel(req.Dir, k), Nil: m == nil}
		if m != nil && m.Ast != nil {
			mi.Faulty = m.Ast.Faulty
		}
		r.Modules = append(r.Modules, mi)
	}
	if req.Render {
		srcs := map[string][]byte{filepath.Clean(main): src}
		for _, e := range collected {
			func() {
				defer func() {
					if p := recover(); p != nil {
						r.RenderPanic = append(r.RenderPanic, fmt.Sprintf("%s %v: %v", rel(req.Dir, e.File), e.Range, p))
					}
				}()
				f := filepath.Clean(e.File)
				s, ok := srcs[f]
				if !ok {
					b, err := os.ReadFile(f)
					if err != nil {
						return
					}
					srcs[f], s = b, b
				}
				ddperror.MakeAdvancedHandler(f, s, io.Discard)(e)
			}()
		}
	}
	if req.Calls && module != nil && module.Ast != nil && r.Panic == "" {
		func() {
			defer func() {
				if p := recover(); p != nil {
					r.Panic = "visitor: " + fmt.Sprint(p)
				}
			}()
			cv := &callVisitor{dir: req.Dir}
			ast.VisitModule(module, cv)
			r.Calls = cv.calls
		}()
	}
	if req.Types && module != nil && module.Ast != nil && r.Panic == "" {
		for _, st := range module.Ast.Statements {
			if ds, ok := st.(*ast.DeclStmt); ok {
				if vd, ok := ds.Decl.(*ast.VarDecl); ok {
					vt := vartype{Name: vd.Name(), Line: int(vd.NameTok.Range.Start.Line)}
					if vd.Type != nil {
						vt.Decl = vd.Type.String()
					}
					if vd.InitType != nil {
						vt.Init = vd.InitType.String()
					}
					r.VarTypes = append(r.VarTypes, vt)
				}
			}
		}
	}
	if req.Dump && module != nil && module.Ast != nil && r.Panic == "" {
		func() {
			defer func() { recover() }()
			r.Dump = module.Ast.String()
		}()
	}
	return
}

func main() {
	debug.SetMaxStack(256 << 20)
	in := bufio.NewReaderSize(os.Stdin, 1<<20)
	out := bufio.NewWriter(os.Stdout)
	for {
		line, err := in.ReadBytes('\n')
		if len(line) > 0 {
			var req request
			if e := json.Unmarshal(line, &req); e != nil {
				fmt.Fprintln(os.Stderr, "bad request:", e)
				os.Exit(2)
			}
			n := req.Repeat
			if n < 1 {
				n = 1
			}
			a := answer{ID: req.ID}
			for i := 0; i < n; i++ {
				a.Runs = append(a.Runs, once(&req))
			}
			b, _ := json.Marshal(a)
			out.Write(b)
			out.WriteByte('\n')
			out.Flush()
		}
		if err != nil {
			return
		}
	}
}
