/* Replacement for lib/runtime/source/main.c used by the checks for cases that are expected to end in a
 * Laufzeitfehler: the DDP file holds each case as an `extern sichtbar` function fall_<k>; for every case a child
 * process is forked that does exactly what the normal main does (init runtime, run the module's top level, end
 * runtime) with the case function called after the top level, so one compilation serves many process runs.
 * Output framing on the parent's stdout:  "@@case <k> <exit status or -signal> <nout> <nerr>\n" <out bytes> <err bytes> */
#include <stdio.h>
#include <stdlib.h>
#include <string.h>
#include <unistd.h>
#include <sys/wait.h>
#include "DDP/runtime.h"
extern int ddp_ddpmain(void);
extern void (*VERIF_CASES[])(void);
extern int VERIF_NCASES;
/* Cases that need the globals of imported modules alive run INSIDE the module's top level: the DDP program ends with
 * "Wenn verif_fall_nr gleich k ist, fall_k." for every k (VERIF_CASES[k] is then a no-op). */
static long long verif_current_case = -1;
long long verif_fall_nr(void) { return verif_current_case; }
void verif_noop(void) {}

static size_t slurp(int fd, char **buf) {
	size_t cap = 4096, n = 0;
	*buf = malloc(cap);
	for (;;) {
		if (n == cap) { cap *= 2; *buf = realloc(*buf, cap); }
		ssize_t r = read(fd, *buf + n, cap - n);
		if (r <= 0) break;
		n += (size_t)r;
	}
	return n;
}

int main(int argc, char **argv) {
	for (int k = 0; k < VERIF_NCASES; k++) {
		int po[2], pe[2];
		if (pipe(po) || pipe(pe)) return 3;
		fflush(stdout);
		pid_t pid = fork();
		if (pid == 0) {
			dup2(po[1], 1); dup2(pe[1], 2);
			close(po[0]); close(po[1]); close(pe[0]); close(pe[1]);
			alarm(10);
			verif_current_case = k;
			ddp_init_runtime(argc, argv);
			int ret = ddp_ddpmain();
			VERIF_CASES[k]();
			ddp_end_runtime();
			exit(ret);
		}
		close(po[1]); close(pe[1]);
		char *out, *err;
		size_t no = slurp(po[0], &out), ne = slurp(pe[0], &err);
		close(po[0]); close(pe[0]);
		int st = 0;
		waitpid(pid, &st, 0);
		int code = WIFEXITED(st) ? WEXITSTATUS(st) : -WTERMSIG(st);
		printf("@@case %d %d %zu %zu\n", k, code, no, ne);
		fwrite(out, 1, no, stdout);
		fwrite(err, 1, ne, stdout);
		free(out); free(err);
	}
	return 0;
}
