/* Link with -Wl,--wrap=setlocale. The sandbox only has the C/C.utf8/POSIX locales; the runtime
 * asks for de_DE.UTF-8 and c32rtomb then rejects every non-ASCII code point. Fall back to C.utf8.
 * Consequence (stated in DESIGN.md): the decimal separator is '.', not ','. */
#include <locale.h>
#include <stddef.h>
char *__real_setlocale(int category, const char *locale);
char *__wrap_setlocale(int category, const char *locale) {
	char *r = __real_setlocale(category, locale);
	if (r == NULL && locale != NULL) {
		r = __real_setlocale(category, "C.utf8");
	}
	return r;
}
