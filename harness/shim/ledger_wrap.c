/* Link with -Wl,--wrap=ddp_reallocate. Records every call of the allocator protocol as one
 * ndjson line on the file descriptor named by VERIF_LEDGER_FD (default: off). Pointers are
 * renamed to small integers in order of first appearance so that the trace fits TLC's integers;
 * a pointer that is not live gets a fresh negative id (the spec has no action for it).
 * An "exit" record is written from an atexit handler registered on first use. */
#include <stdio.h>
#include <stdlib.h>
#include <string.h>
#include <stdint.h>
#include <unistd.h>
void *__real_ddp_reallocate(void *pointer, size_t oldSize, size_t newSize);

static int led_fd = -2;
static FILE *led;
#define MAXLIVE (1 << 20)
static struct { void *p; long id; } *tab;
static long ntab, nextid = 1, nextbad = -1;

static void led_exit(void) {
	if (led) { fprintf(led, "{\"e\":\"hexit\"}\n"); fflush(led); }
}
static void led_init(void) {
	const char *s = getenv("VERIF_LEDGER_FD");
	led_fd = s ? atoi(s) : -1;
	if (led_fd >= 0) {
		led = fdopen(led_fd, "w");
		tab = calloc(MAXLIVE, sizeof *tab);
		atexit(led_exit);
	}
}
static long lookup(void *p, int remove) {
	for (long i = ntab - 1; i >= 0; i--) {
		if (tab[i].p == p) {
			long id = tab[i].id;
			if (remove) { tab[i] = tab[ntab - 1]; ntab--; }
			return id;
		}
	}
	return 0;
}
static long add(void *p) {
	if (ntab >= MAXLIVE) return 0;
	tab[ntab].p = p; tab[ntab].id = nextid; ntab++;
	return nextid++;
}
static long clampsz(size_t n) { return n > 2000000000u ? 2000000000 : (long)n; }

void *__wrap_ddp_reallocate(void *pointer, size_t oldSize, size_t newSize) {
	if (led_fd == -2) led_init();
	if (!led) return __real_ddp_reallocate(pointer, oldSize, newSize);
	long pid = 0;
	if (pointer != NULL) {
		/* a changing or releasing call consumes the old identity */
		int consumes = (newSize == 0) || (oldSize != newSize);
		pid = lookup(pointer, consumes);
		if (pid == 0) pid = nextbad--;
	}
	void *r = __real_ddp_reallocate(pointer, oldSize, newSize);
	long rid = 0;
	if (r != NULL) {
		if (r == pointer && oldSize == newSize) rid = pid;
		else rid = add(r);
	}
	fprintf(led, "{\"e\":\"h\",\"p\":%ld,\"o\":%ld,\"n\":%ld,\"r\":%ld}\n", pid, clampsz(oldSize), clampsz(newSize), rid);
	return r;
}
