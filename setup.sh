#!/bin/bash
# Run once after a fresh restore (offline): warms the Go build cache / SUT build and checks the tools.
set -e
cd "$(dirname "$0")"
command -v java >/dev/null && command -v tlc >/dev/null
S=$(./harness/build_sut.sh)
python3 - <<'P'
import sys; sys.path.insert(0, "lib"); import vlib
for b in ("trie", "fe", "scan", "types"):
    vlib.harness_bin(b)
print("setup ok:", vlib.sut())
P
