#!/bin/bash
# usage: try_mutant.sh <patch.diff> <ID> [tier]  -- applies the patch to /repo, runs the check, reverts. Prints rc.
P=$1; ID=$2; T=${3:-quick}
cd /repo && git apply "$P" || { echo "patch does not apply"; exit 3; }
cd /verif && ./check $ID --tier $T > /tmp/try_mutant.$ID.out 2>&1; rc=$?
cd /repo && git checkout -- . && git clean -fdq
echo "rc=$rc"; grep -c VIOLATION /tmp/try_mutant.$ID.out; grep -m3 -A1 "VIOLATION\|INFRA" /tmp/try_mutant.$ID.out | cut -c1-400
# restore evidence of the unchanged tree is the caller's business
