#!/bin/bash
# usage: build.sh <worktree>   builds kddp + runtime + stdlib of <worktree> into <worktree>/_inst (offline)
set -e
WT=$(cd "$1" && pwd); I=$WT/_inst
export GOFLAGS=-mod=mod GOPROXY=off GOSUMDB=off GOTOOLCHAIN=local
GO=/root/go/pkg/mod/golang.org/toolchain@v0.0.1-go1.24.0.linux-amd64/bin/go
[ -x $GO ] || GO=go1.26
export CGO_CPPFLAGS="$(llvm-config-14 --cppflags)" CGO_CXXFLAGS=-std=c++14
export CGO_LDFLAGS="$(llvm-config-14 --ldflags --libs --system-libs all)"
mkdir -p $I/bin $I/lib $I/obj
(cd $WT/cmd/kddp && $GO build -tags "byollvm" -o $I/bin/kddp .)
make -C $WT/lib/runtime -j16 libddpruntime.a source/main.o >/dev/null
cp $WT/lib/runtime/libddpruntime.a $WT/lib/runtime/source/main.o $I/lib/
CF="-c -Wall -Wextra -Wno-format -O2 -std=c11 -pedantic -D_POSIX_C_SOURCE=200809L"
for f in $WT/lib/stdlib/source/DDP/*.c; do b=$(basename $f .c); case $b in compression|regex) continue;; esac
  gcc $CF -I$WT/lib/stdlib/include -I$WT/lib/runtime/include -o $I/obj/$b.o $f & done; wait
rm -f $I/lib/libddpstdlib.a; ar rcs $I/lib/libddpstdlib.a $I/obj/*.o
rm -rf $I/Duden; cp -r $WT/lib/stdlib/Duden $I/Duden
DDPPATH=$I $I/bin/kddp dump-list-defs -o $I/lib/ddp_list_types_defs --llvm-ir --object
gcc -c -O1 -o $I/lib/setlocale_wrap.o /tmp/mutkit/shim/setlocale_wrap.c
gcc -c -O1 -I$WT/lib/runtime/include -o $I/lib/ledger_wrap.o /tmp/mutkit/shim/ledger_wrap.c
mkdir -p $I/include; cp -r $WT/lib/runtime/include/* $I/include/; cp -r $WT/lib/stdlib/include/* $I/include/ 2>/dev/null || true
echo "built $I"
