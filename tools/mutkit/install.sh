#!/bin/bash
# copies the kit (and the link shims) to /tmp/mutkit so that sub-agents never need to look into /verif
rm -rf /tmp/mutkit; mkdir -p /tmp/mutkit/shim
cp "$(dirname "$0")"/*.sh /tmp/mutkit/; cp /verif/harness/shim/*.c /tmp/mutkit/shim/
