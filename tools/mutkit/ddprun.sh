#!/bin/bash
# usage: ddprun.sh <inst> <file.ddp> [-O n] [extra .c/.o files...]   compiles, links and runs; prints stdout+stderr and "exit=<rc>"
I=$1; F=$2; shift 2
OPT=""; EXTRA=""
while [ $# -gt 0 ]; do case "$1" in -O) OPT="-O $2"; shift 2;; *) EXTRA="$EXTRA $1"; shift;; esac; done
T=$(mktemp -d /tmp/ddprun.XXXXXX); trap "rm -rf $T" EXIT
( cd "$(dirname "$F")" && DDPPATH=$I $I/bin/kddp kompiliere "$(basename "$F")" -o $T/x.o $OPT ) > $T/cout 2>&1; rc=$?
if [ $rc -ne 0 ] || [ ! -f $T/x.o ]; then cat $T/cout; echo "compile-exit=$rc"; exit 0; fi
cat $T/cout
gcc $T/x.o $EXTRA -I$I/include -L$I/lib -lddpstdlib -lddpruntime -lm $I/lib/main.o $I/lib/ddp_list_types_defs.o $I/lib/setlocale_wrap.o -Wl,--wrap=setlocale -o $T/x > $T/lout 2>&1 || \
gcc $T/x.o $EXTRA -I$I/include -L$I/lib -lddpstdlib -lddpruntime -lm $I/lib/main.o $I/lib/setlocale_wrap.o -Wl,--wrap=setlocale -o $T/x > $T/lout 2>&1 || { cat $T/lout; echo "link failed"; exit 0; }
( cd "$(dirname "$F")" && timeout 20 $T/x ) 2>&1; echo "exit=$?"
