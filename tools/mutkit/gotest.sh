#!/bin/bash
# usage: gotest.sh <worktree>   runs the pinned suite (go test ./src/...) of the worktree
export GOFLAGS=-mod=mod GOPROXY=off GOSUMDB=off GOTOOLCHAIN=local
GO=/root/go/pkg/mod/golang.org/toolchain@v0.0.1-go1.24.0.linux-amd64/bin/go
[ -x $GO ] || GO=go1.26
cd $1 && $GO test -vet=off -count=1 ./src/... 2>&1
