#!/bin/bash
# usage: try_mutant_copy.sh <patch.diff> <ID> [tier]
# Like try_mutant.sh, but leaves /repo alone: the patch is applied to a scratch worktree of /repo's HEAD and the check runs
# against that tree (VERIF_REPO). For use while other checks are running on /repo. The evidence file is restored afterwards.
P=$1; ID=$2; T=${3:-quick}
WT=/tmp/mutrepo.$$
git -C /repo worktree add --detach $WT HEAD >/dev/null 2>&1 || { echo "cannot create worktree"; exit 3; }
trap 'git -C /repo worktree remove --force $WT >/dev/null 2>&1' EXIT
git -C $WT apply "$P" || { echo "patch does not apply"; exit 3; }
cd /verif && cp evidence/$ID.json /tmp/evidence.$ID.$$ 2>/dev/null
VERIF_REPO=$WT ./check $ID --tier $T > /tmp/try_mutant.$ID.out 2>&1; rc=$?
cp /tmp/evidence.$ID.$$ evidence/$ID.json 2>/dev/null; rm -f /tmp/evidence.$ID.$$
echo "rc=$rc"; grep -c VIOLATION /tmp/try_mutant.$ID.out; grep -m3 -A1 "VIOLATION\|INFRA" /tmp/try_mutant.$ID.out | cut -c1-400
