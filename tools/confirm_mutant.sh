#!/bin/bash
# usage: confirm_mutant.sh <srcdir with patch.diff + demo.ddp> <PROP> <name> "<needs>" [ddprun flags]
# Confirms in a scratch worktree: patch applies to the pinned tree (+ our commits), builds, repo tests pass,
# demo differs with/without the change. Then stores it as /verif/seeded/<PROP>-<name>/.
set -u
SRC=$1; PROP=$2; NAME=$3; NEEDS=$4; shift 4; FLAGS="$*"
WT=/tmp/mut/confirm.$$; OUT=/verif/seeded/$PROP-$NAME
git -C /repo worktree add --detach $WT HEAD >/dev/null 2>&1 || exit 3
trap 'git -C /repo worktree remove --force $WT >/dev/null 2>&1' EXIT
/tmp/mutkit/build.sh $WT >/dev/null 2>&1 || { echo "baseline build failed"; exit 3; }
rundemo() { if [ -x $SRC/run.sh ]; then $SRC/run.sh $WT/_inst $WT $SRC $FLAGS 2>&1; else /tmp/mutkit/ddprun.sh $WT/_inst $SRC/demo.ddp $FLAGS 2>&1; fi | sed "s#$SRC/##g"; }
NREP=${NREP:-1}
repdemo() { if [ "$NREP" = "1" ]; then rundemo; else for i in $(seq $NREP); do rundemo | md5sum; done | sort | uniq -c | awk '{print $1" runs -> output "$2}'; echo "(one output:)"; rundemo; fi; }
ndistinct() { echo "$1" | grep -c "runs -> output"; }
base=$(repdemo)
git -C $WT apply $SRC/patch.diff || { echo "patch does not apply"; exit 3; }
/tmp/mutkit/build.sh $WT >/dev/null 2>&1 || { echo "mutant build failed"; exit 3; }
mut=$(repdemo)
tests=$(/tmp/mutkit/gotest.sh $WT 2>&1 | grep -E "^(ok|FAIL|---)" | grep -v "build failed")
nfail=$(echo "$tests" | grep -c "^FAIL\s\|^--- FAIL")
if [ "$NREP" != "1" ]; then
  if [ "$(ndistinct "$base")" != "1" ] || [ "$(ndistinct "$mut")" -lt 2 ]; then echo "repeated demo does not distinguish: base=$(ndistinct "$base") mut=$(ndistinct "$mut") distinct outputs"; exit 4; fi
elif [ "$base" = "$mut" ]; then echo "demo does not distinguish"; exit 4; fi
if [ "$nfail" != "0" ]; then echo "repo tests fail with the mutant:"; echo "$tests"; exit 5; fi
mkdir -p $OUT; cp $SRC/patch.diff $OUT/; cp $SRC/demo* $SRC/*.ddp $SRC/run.sh $OUT/ 2>/dev/null; cp $SRC/README.txt $OUT/ 2>/dev/null
python3 - "$OUT" "$PROP" "$NEEDS" "$base" "$mut" "$tests" "$FLAGS" <<'P'
import json,sys,os
out,prop,needs,base,mut,tests,flags=[os.fsencode(a).decode('utf-8','replace') for a in sys.argv[1:8]]
json.dump(dict(property=prop, needs_to_manifest=needs, demo="demo.ddp", demo_flags=flags,
  confirmed=dict(how="scratch worktree of /repo HEAD: build, demo; git apply patch.diff, build, demo, go test ./src/...",
                 demo_output_without_change=base[-1500:], demo_output_with_change=mut[-1500:], repo_tests_with_change=tests.splitlines())),
  open(out+"/meta.json","w"), indent=1, ensure_ascii=False)
P
echo "confirmed -> $OUT"
