#!/usr/bin/env python3
"""Writes /verif/MANIFEST.json from the table below (single source; run after editing)."""
import json, os
V = os.path.dirname(os.path.dirname(os.path.abspath(__file__)))
props = [json.loads(l) for l in open(os.path.join(V, "properties.jsonl"))]
REPO_HOOKS = ["7e029ae", "0df1db7", "8132497", "16e39b1", "e144ece", "649bab8", "2429a1b", "f3ef150"]  # commits in /repo that add guarded hooks

CHECKS = {
 "C20": dict(
   text="TLC explores every insertion history (bounded) of an implementation-shaped model of ordered_map/alias_trie with the transcribed "
        "key predicates and checks the map contract; every history of that domain is replayed on the real trie with the real predicates "
        "and the recorded answers are validated by a TLA+ trace specification against the abstract contract; end-to-end alias populations "
        "(incl. distinct types that print alike, from imported modules) go through parser.Parse in every declaration order.",
   note="Bounded: key sequences over a 12-token vocabulary, histories <=3 (quick) / <=4 (thorough) insertions plus seeded random histories of length <=8. "
        "Trusted: TLC, the harness token constructors (checked against the spec's vocabulary attributes at start).",
   technique="TLA+ model (OrderedMap/AliasTrie/TokenKeys) + TLC exhaustive exploration + replay on real trie + TLC trace validation",
   ref="§4 C20"),
 "C13": dict(
   text="The scanner is specified as a code-point state machine (Scanner.tla: one NextToken step per token, blank skipping with the indent rule, "
        "identifiers/keywords, numbers, text and character literals with escapes, nested comments, alias placeholders) with UTF-8 validity from Utf8.tla; "
        "the real scanner's output for every string up to a small length over class alphabets (normal and alias mode), every short byte string over "
        "11 critical bytes, every keyword in 7 spellings, seeded long strings and the repository's .ddp files is validated token by token by TLC "
        "(ScannerTrace.tla) against the state machine and against the partition invariants (literal = source substring at the reported positions, order, "
        "blanks-only gaps, single final EOF).",
   note="Exhaustive only up to the stated lengths (3 full alphabet / 5 focused alphabets quick; 4 / 6-7 thorough; 4 / 5 over code points that Unicode counts as white space but DDP does not, next to real blanks). The keyword table is a committed "
        "snapshot (spec/scanner/Keywords.tla). Capitalisation and alias-parameter complaints are not modelled. Positions after a line feed inside an alias "
        "placeholder are left unspecified.",
   technique="TLA+ scanner state machine + TLC trace validation of real scanner output over exhaustively enumerated inputs",
   ref="§4 C13"),
 "C14": dict(
   text="DDPTypes.tla states equivalence (strip aliases everywhere, structural, definitions/Kombinationen nominal), Assignable, ArgOK, RetOK and the cast rule for "
        "definitions; TLC checks the laws (reflexive, symmetric, transitive on all triples, alias transparency under every constructor, opacity of definitions, "
        "congruence of Assignable) on every pair of the universe; ddptypes.Equal on really constructed types for every ordered pair, and acceptance by parser.Parse "
        "of initialisation / assignment / cast / argument / return for every ordered (target, value) pair of the DDP-expressible universe are validated by a TLA+ trace specification.",
   note="Positions now include conversions in a reference context (assignment target `x als T`, Referenz argument): DDPTypes!RefCastOK. Universe: closure of {6 primitives, Variable, 2 Kombinationen} under list/alias/definition to depth 2 plus lists of named depth-2 types (quick; positions for all base "
        "targets + 40 seed-chosen others) / depth 3 (thorough; positions for all expressible depth-2 targets). Nested list types are not writable in DDP source. Casts are compared only where a definition is involved.",
   technique="TLA+ type algebra + TLC law checking + TLC trace validation of real predicates and real frontend verdicts",
   ref="§4 C14"),
 "C01": dict(
   text="DDPSem.tla is a big-step evaluation semantics of the core language in TLA+ (64-bit integers as byte limbs, a dyadic Kommazahl fragment, Text as code points, lists, "
        "Kombinationen, Variable, Referenz parameters through a store of locations, loops with break/continue/return). Generated programs (operator table: every operator x "
        "admissible operand types x boundary values; statement skeletons: loop bounds/steps, break/continue/return placement, for-each, recursion; copy/alias matrix) are compiled "
        "with the tree's kddp, linked with the tree's runtime, run, and TLC (DDPRunTrace) checks stdout and exit status of each run against the semantics. "
        "The repository's own programs (tests/testdata/kddp, stdlib tests, examples) are judged the same way: harness/go/cmd/astx exports the tree the REAL parser built into the "
        "specification's program shape, the original source is compiled and run, TLC compares (constructs the exporter does not translate have no meaning: output is compared up to "
        "that point). ParseTrace.tla: the real parser's tree of every pair / sampled triples and longer chains of the 17 binary operators (with prefix operators), written without "
        "parentheses, must have the shape Precedence!Tree assigns.",
   note="Bounded to the modelled subset, the generated programs and the repository's corpus (quick: the 69 language tests at -O1; thorough: all 100 programs at -O0..2); corners DDP leaves open evaluate to 'unspec' in the specification and are not compared (counted in the evidence). "
        "quick: -O1 (table) and -O1/-O2 (statements); thorough: -O0/-O1/-O2. Trusted: TLC, the renderer (a rejected rendering is reported, never judged).",
   technique="TLA+ executable semantics + TLC trace validation of compiled-program observations",
   ref="§4 C01"),
 "C06": dict(
   text="The partial operations of DDPSem (indexing for reading, as assignment target and as Referenz argument, nested indexing, the three slice forms with clamping, Variable "
        "conversions, '...') define which cases end in a Laufzeitfehler; every (length, index) pair incl. 64-bit extremes x element type x access form is compiled and run, and TLC "
        "checks in both directions: out of domain => 'Laufzeitfehler' on stderr and exit status 1 with the output so far; in domain => no error and the right value.",
   note="Incl. index expressions that change the length of the indexed (global) list. Lengths 0..3 (quick) / 0..4 (thorough), -O1 (quick) / all levels (thorough). Cases expected to fail run one process per case through a forking driver linked in place of "
        "main.o (same init/top-level/end sequence); a seeded sample also runs as stand-alone executables.",
   technique="TLA+ executable semantics (domain predicates) + TLC trace validation of compiled-program observations",
   ref="§4 C06"),
 "C08": dict(
   text="DDPSem is value-semantic by construction: the store maps locations to values and only Referenz bindings alias. The copy-introducing construct x mutation form x "
        "non-primitive type matrix (plus Referenz aliasing of variable/element/field, the same variable by value and by Referenz, globals touched by the callee, for-each over a "
        "mutated source) is compiled at -O0/-O1/-O2 and TLC validates every run against the semantics.",
   note="Bounded to the enumerated matrix (incl. the frame family: assignments whose right-hand side concatenates / slices the holders, the target among them, every holder printed afterwards). Two genuine -O2 violations (copy elision) are recorded as known findings.",
   technique="TLA+ executable semantics + TLC trace validation of compiled-program observations at all optimisation levels",
   ref="§4 C08"),
 "C12": dict(
   text="Text values are sequences of code points in DDPSem; Utf8.tla states the encoding. (a) every Text built from 6 initial literals by every sequence of <=2 (quick, half of "
        "the length-2 ones) / <=3 (thorough, sampled) production steps - concatenation on both sides, slices, in-place replacement by shorter/equal/longer characters, through a "
        "Referenz, copies - followed by all observers (length, for-each with index, every index, both open slices, equality in both orders with a character-wise rebuilt text) is "
        "compiled, run and validated by TLC against the semantics; (b) a C driver linked against the tree's ASan-built libddpruntime.a records encode/decode/index/replace/equal "
        "for code points (quick: boundaries + strided sample, thorough: all 1 112 064 scalar values) and TLC validates each record against Utf8.tla.",
   note="U+0000 is outside (NUL-terminated texts). The byte-level ddpstring{str,cap} representation is observed through behaviour and ASan only.",
   technique="TLA+ executable semantics + Utf8 specification, TLC trace validation of compiled programs and of direct runtime calls",
   ref="§4 C12"),
 "C19": dict(
   text="Literals.tla states what a written literal denotes (integers up to 2^63-1 else rejected; text and character literals with the escape set a b n r t \\ and the quote, "
        "unknown escapes and malformed bodies rejected; decimal-comma literals in the exactly representable fragment). Every generated literal is parsed by the real frontend "
        "(accepted/rejected) and, if accepted, printed by a compiled program; TLC validates each (source, verdict, output) record against the specification. Every literal that "
        "denotes no value (and every out-of-range integer, plus a sample of valid ones) is also placed in the other positions a literal may stand in (21 for integers: repetition counts, "
        "loop bounds and steps, index, list fill, default value, argument, ...; 5 for characters; 5 for texts): LiteralTrace!Ctx requires rejection there as well.",
   note="Decimal literals that are not exactly representable are not compared (correct rounding of the 17th digit is not decided here). Text bodies are exhaustive up to 2 symbols, "
        "sampled at 3 (quick) and exhaustive to 3, sampled at 4 (thorough).",
   technique="TLA+ literal denotation + TLC trace validation of frontend verdicts and compiled output",
   ref="§4 C19"),
 "C05": dict(
   text="Heap.tla states the allocator protocol (alloc / realloc / free / noop over a map of live blocks with their sizes; every other call - a block that is not live, a wrong "
        "old size - is not an action; at normal termination no block is live). The ledger of every ddp_reallocate call of generated programs (ownership role x exit path programs, "
        "copy matrix, statement skeletons, text histories, structural operator cases; -O0/-O2 quick, all levels thorough), recorded by a link-time --wrap shim, is validated call by "
        "call by TLC (HeapTrace); the same programs run against the ASan/LSan-built runtime and stdlib, where any sanitizer report is an event the specification has no action for. "
        "The ledgers of the repository's own test programs and examples (compiled from their original source) are validated by the same trace specification.",
   note="Executed paths of the generated programs only. Loads/stores of generated code that go through neither libc nor the runtime are invisible to ASan (the object is not "
        "instrumented). Programs ending in a Laufzeitfehler are exempt from the leak requirement (the runtime exits without unwinding).",
   technique="TLA+ allocator protocol + TLC trace validation of recorded allocation ledgers + sanitizer runs",
   ref="§4 C05"),
 "C11": dict(
   text="The semantics (DDPSem/DDPRun) has no notion of optimisation level or link mode: it assigns one behaviour per program. Generated core-language programs are built under "
        "{-O0,-O1,-O2} x {modules linked into one LLVM module, compiled separately} x {list definitions linked, separate object}; TLC validates the observation (stdout, "
        "Laufzeitfehler, exit status) of every configuration against that one behaviour, so all configurations agree with the specification and hence with each other. "
        "The repository's own programs (tree exported from the real parser by astx, evaluated by DDPSem) are compared at -O0 and -O2 (thorough: all levels) in the same way.",
   note="'modules not linked' is realised outside kddp (Duden/Ausgabe compiled on its own, its ddp_ddpmain localised with objcopy, all objects linked): at -O0 this arrangement "
        "does not link (clashing names of unnamed constants) and is counted as unrealisable, not judged. The combination modules-unlinked + list-defs-linked defines the list "
        "functions once per object and cannot be linked for programs with imports. The -O2 copy-elision defect is a known finding.",
   technique="TLA+ executable semantics as the single reference behaviour + TLC trace validation of every build configuration",
   ref="§4 C11"),
 "C03": dict(
   text="Frontend.tla states the frontend as a total function: one call of parser.Parse ends in Returned(module | error); Panic, a fatal runtime error, a kill by a resource limit, "
        "a timeout and a parser-loop iteration without progress (hook H2 in the main and block loops) are not actions of the module. Seed programs (the repository's corpus, "
        "examples, generated programs, import arrangements with missing files, directories, self- and mutual imports, clashes between imports) and all their single token mutants "
        "(delete, duplicate, swap, splice, substitution by a token of the same type, a literal of another type or an undeclared name, a transplanted statement; seeded pairs) and seeded "
        "byte mutants are parsed in sacrificial workers; hand-written feature seeds (alias declarations, list-type aliases, generic Kombinationen, every declaration kind) and one seed "
        "per operator name x declared arity cover grammar the corpus does not use; TLC validates one event per input. A failing input is re-run "
        "alone before it counts.",
   note="Mutation distance <= 2, quick samples 60 mutants (a quota per mutant kind) + 8 byte mutants per seed and takes all mutants of the feature seeds, thorough takes all single mutants. 'Unbounded memory growth' is only observed as the 8 GiB limit. "
        "Findings are keyed by the crash site (innermost repository frames), so another input reaching a new site is still reported.",
   technique="TLA+ totality/progress specification + TLC trace validation of the real frontend over enumerated mutants",
   ref="§4 C03"),
 "C07": dict(
   text="Frontend.tla states the diagnostics protocol over what a parse exposes: failed (Ast.Faulty of the root, of any module, the errored flag of every nested parser - hook H2) "
        "<=> an error-level diagnostic was delivered, warnings alone never fail; every diagnostic names an input file and a range inside that file's text with start <= end; the "
        "excerpt renderer prints every diagnostic; kddp exits 0 and leaves an artefact exactly when the compilation did not fail (seeded sample through the CLI). The inputs are "
        "those of C03; TLC evaluates the invariants on every recorded parse.",
   note="Same bounds as C03. Message texts are not compared. Open findings (ranges that start after they end, the renderer panicking on them, alias-local coordinates with the pseudo file "
        "'Alias') are keyed by invariant, failure kind and diagnostic code.",
   technique="TLA+ diagnostics-protocol invariants + TLC trace validation of the real frontend and CLI",
   ref="§4 C07"),
 "C02": dict(
   text="Pipeline.tla states the compilation pipeline (frontend, codegen, LLVM parse+verify, object emission, link) with the property that once the frontend accepts, every later "
        "stage ends ok. Cells = every unary/binary/ternary/cast/type-check operator x tuples over 20 operand type classes (primitives, lists of each, Kombination, its list, Variable, "
        "type aliases, type definitions); the real checker decides acceptance and the result type; every accepted cell is placed in every value context that type admits (boxing, "
        "initialiser, assignment, value argument, return, condition, list element, numeric coercions, print) and driven through kddp -> .ll, llvm-as, kddp -> .o at -O1/-O2 and the "
        "gcc link; TLC validates one pipeline trace per (cell, context). Failing batches are bisected to single cells.",
   note="quick: all cells; every accepted cell boxed plus two seed-chosen contexts, all contexts for numeric results and a seeded 20 % of the rest; thorough: all contexts. "
        "The contexts are built from the checker's own result type (the property is about lowering vs. assigned type).",
   technique="TLA+ pipeline invariant + TLC trace validation over the exhaustive operator x type-class x context table",
   ref="§4 C02"),
 "C09": dict(
   text="AliasResolve.tla states the resolution rule: among the aliases whose pattern matches the call-site items and whose parameter types equal the argument types (Referenz only "
        "for assignables, one binding per type parameter) the longest wins, then the non-generic one, then the one with more Referenz parameters; arguments bind by placeholder name; "
        "a negated alias yields the negation; without a type-matching alias the call is diagnosed. Populations of 1-3 functions over 7 patterns x 10 parameter typings (declaration "
        "order shuffled, every third with an imported function) and call sites for every pattern shape in 8 argument forms (literal, negative literal, group, name, parenthesised name, list element, field, character of a Text) are parsed by the real frontend; callee, binding and "
        "negation wrapper read from the AST are validated by TLC. Operator overloads (exact operand types, else built in) are checked on a fixed program.",
   note="Bounded to the vocabulary {foo, bar, mit, nicht, <a>, <b>} (with a variable named `bar`: where it stands it is the word AND a possible argument) and parameter types Zahl/Text/Buchstabe/type parameter. Where the rule leaves a tie the specification accepts any tied alias.",
   technique="TLA+ resolution rule + TLC trace validation of the real parser's AST over enumerated alias populations and call sites",
   ref="§4 C09"),
 "C10": dict(
   text="Modules.tla states the loader (a module is rejected iff a loaded module transitively imports itself), the run (an import statement initialises the target unless done: its "
        "imports in textual order first, then its own global initialisers; imported top-level statements never run) with the derived facts 'initialised exactly once' and 'after its "
        "imports', and visibility (exactly the public names, exactly the listed ones for selective imports, never names the target only imported). All import graphs on <=3 modules "
        "in every textual import order, cyclic arrangements incl. the main module, a seeded sample of 4-module graphs, each with whole-module and selective imports, and arrangements with a directory import (in the main module, in an imported module, both) are materialised; "
        "the frontend's verdict, the run-time order of initialiser side effects and main statements, and per-name visibility probes are validated by TLC.",
   note="Also: imports that do not stand at the top level (function body, loop body: the initialiser must run at most once - two known findings), cycles closed by a directory import (with and without use of the imported names), private types reachable from public ones. Every module follows one declaration scheme (same-named private function, public variable with an effectful initialiser, private variable, public function, a top-level "
        "print). A directory import means the whole-module import of each module of the directory in name order.",
   technique="TLA+ module-loading/initialisation/visibility specification + TLC trace validation of frontend verdicts and compiled-program output",
   ref="§4 C10"),
 "C15": dict(
   text="Every generated program exists in four variants: generic functions declared once and called at several types (G), one textually specialised function per instantiation (S), "
        "and both with the functions in an imported module (Glib, Slib). All four, at the tier's -O levels, are validated by TLC against DDPSem's evaluation of the SPECIALISED "
        "program, so generic = specialised = specification. Well-typedness of generic calls (one binding per type parameter, aliases transparent, definitions opaque) for all "
        "argument-type tuples of 5 signatures, and identity of generic-Kombination instantiations for 625 pairs of type-argument tuples, are validated against Generics.tla. "
        "GenericsCache.tla states the cache of instantiations (per generic function and module a list of keys; Hit / New / Done, a failed instantiation is removed again, nothing else "
        "changes a list); hook H4 reports every step with the list the implementation holds afterwards, and GenericsCacheTrace validates the steps recorded while the real frontend parses "
        "the generic programs, the repository's generic tests, a failing variant of every generic function (also failing only for some bindings of the type parameter) and seeded mutants.",
   note="23 templates (incl. two generic functions behind one alias, a function that instantiates itself with another type) x 7 argument types; instantiations of extern generic functions "
        "are outside the cache contract (the model adopts the implementation's list).",
   technique="TLA+ executable semantics of the specialised program + unification specification + implementation-shaped cache model (hook H4), TLC trace validation",
   ref="§4 C15"),
 "C16": dict(
   text="Determinism.tla makes the choice points explicit: the iteration order of a module's public-declaration map followed by the position sort with its comparator and Go's insertion "
        "sort; TLC enumerates every population of <=3 declaration positions and every iteration order and reports the populations whose processing order depends on the choice (13 for "
        "the pinned comparator 'line< or column<', none for the lexicographic one). Each such population is materialised (module + importer with clashing names) and, like all seed "
        "programs, import arrangements and a seeded sample of mutants, compiled N times in one process and K times in fresh processes; TLC validates that all observations (verdict, "
        "diagnostics in order with texts, resolved calls, module flags; exit status, stderr, behaviour of the executable) are equal and that the first reported clash is the first in source order.",
   note="Includes a program with generic functions of two and three type parameters instantiated with every arrangement of types that share one representation. Go cannot be told which map order to use, so repetition samples the orders (N = 20 / K = 6 quick, 200 / 30 thorough). The text of the emitted IR is not compared (only behaviour).",
   technique="TLA+ model of the nondeterministic choice points checked by TLC over all orders + TLC trace validation of repeated real compilations",
   ref="§4 C16"),
 "C17": dict(
   text="Every covered Duden function (117 call forms over Listen, Texte, Sortierung, Mathe, Zahlen, Statistik, Zeichen: value and Referenz variants) is called from generated driver programs with every combination of an argument "
        "vocabulary (lists of length 0..4 over Zahl/Text/Buchstabe, texts with multi-byte characters, indices and counts -1..7; seeded sample per function when the product is large), one "
        "process per call; result, arguments afterwards and failure are one event each, validated by TLC against DudenSeq.tla (sequence operations, documented-domain guards).",
   note="Sorting also on lists of 17 / 60 / 200 elements in structured orders (ascending, descending, organ pipe, saw tooth, many equal keys, a median-of-three adversary, random). Kommazahl-valued functions (most of Mathe, Statistik, Zahlen) are not covered; calls run inside the module's top level (imported globals alive), one process each; 'sorted' is checked as sorted permutation, 'compare' by sign; outside the documented "
        "domain nothing is compared.",
   technique="TLA+ specification of the functions as sequence operations + TLC trace validation of calls made by compiled driver programs",
   ref="§4 C17"),
 "C18": dict(
   text="FFI.tla states the C prototype of every generated extern signature (all of arity 0..1 over 11 parameter kinds x {value, Referenz} x 12 result kinds, moved results, arity 2 sampled/all, "
        "a seeded sample of arity 3..6); the harness writes the C callee against exactly that prototype and the tree's headers. Callee observations (what it saw through the header structs), "
        "the result and the caller's variables afterwards are one event per call (variables and temporaries as arguments, declaring and importing module, -O0/-O2, +-O1 thorough) validated by TLC "
        "against FFI!Expected; the allocation ledger of whole driver runs is validated against Heap.tla (each argument released exactly once by the caller, results owned by the caller).",
   note="Kinds: Zahl, Kommazahl, Byte, Wahrheitswert, Buchstabe, Text, Zahlen Liste, Text Liste, a Kombination with padding, Variable holding Zahl / Text. No Byte/Kommazahl/Variable lists, no generic externs. A by-value Zahl argument behind a non-primitive by-value argument may itself be the result of another extern call (24 / all such cases).",
   technique="TLA+ specification of the calling convention (prototype, visible effects, ownership) + TLC trace validation of generated C callees and DDP callers + ledger validation",
   ref="§4 C18"),
 "C04": dict(
   text="DDPStatic.tla states the static rules over the shared JSON AST (scope chain, redeclaration, the type rule of every expression and statement position, transparent aliases and opaque type "
        "definitions, Konstanten, loop depth, final return, visibility of imported declarations and fields, article agreement). Base programs (generated semantic cases, a statement zoo with "
        "nesting depth 3, a block using every public declaration of an imported module, every prelude function) are cut into units; exactly one fault is injected at every applicable site "
        "(45 fault classes incl. names that exist only at the call site of a function; capped per class by a seeded sample). TLC classifies every mutant (still well-formed: dropped), the real frontend and, for a sample, kddp give the verdict; "
        "StaticTrace.tla requires ill-formed => at least one error diagnostic, non-zero exit and no artefact; every base unit must be well-formed, accepted and compiled.",
   note="Generic functions are units of their own (DDPStatic sees the textual specialisation - C15 - the frontend the generic spelling with two call sites); the body of a generic "
        "function using a later global of its module is a known finding. Operator overloads do not occur in the base programs. A crash of the frontend counts as rejection here (C03 reports crashes).",
   technique="TLA+ static semantics (WellFormed) + fault injection classified by TLC + TLC trace validation of the real frontend's and kddp's verdicts",
   ref="§4 C04"),
}
PENDING = {}

checks, na = [], []
for p in props:
    pid = p["id"]
    if pid in CHECKS:
        c = CHECKS[pid]
        checks.append(dict(property_id=pid, quick_cmd="./check %s --tier quick" % pid, thorough_cmd="./check %s --tier thorough" % pid,
                           evidence_file="evidence/%s.json" % pid, replay_cmd_template="./check %s --replay {path}" % pid,
                           engine="tlc", level_claimed=dict(category="model_checking", text=c["text"], design_ref=c["ref"]),
                           level_note=c["note"], technique=c["technique"]))
    else:
        na.append(dict(property_id=pid, reason=PENDING.get(pid, "check not built yet in this revision (planned, see DESIGN.md §4/§9); nothing is claimed for it")))
m = dict(version=1,
         setup_cmd="./setup.sh",
         hooks=dict(guard="verif (Go build tag)", enable="go build -tags 'byollvm verif' (harness/build_sut.sh builds a copy of /repo's working tree with the tag on)",
                    baseline_off_cmd="cd /repo && go test -vet=off -count=1 ./src/... ; true",
                    source_commits=REPO_HOOKS, add_only=True),
         engines=[dict(name="tlc", path="spec/", serves_properties=sorted(CHECKS), kind_free_text="TLA+ specifications checked with TLC 1.8 (exhaustive configs, simulation, trace validation); Go/C/Python harnesses bind them to the code")],
         checks=checks, not_applicable=na,
         notes="All checks: ./check <ID> --tier quick|thorough; exit 0 held / 1 VIOLATION / 2 infrastructure. Known findings: known_findings.json.")
json.dump(m, open(os.path.join(V, "MANIFEST.json"), "w"), indent=1, ensure_ascii=False)
print("checks:", len(checks), "not_applicable:", len(na))
