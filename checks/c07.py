"""C07 - Failure is reported faithfully: flag, exit status and source ranges.   DESIGN.md §4 C07"""
import json
import vlib, frontend_common as fc
from vlib import Check

INV = {"flag": "failed <=> an error-level diagnostic was delivered (faulty flags of the root and of every module, errored = Faulty per parser)",
       "range": "every diagnostic names an input file and a range inside its text with start <= end",
       "render": "the source-excerpt renderer printed every diagnostic",
       "cli": "kddp exits 0 and leaves an artefact exactly when no error-level diagnostic was delivered"}


def range_bad(d):
    if not d["known"]:
        return "unknown-file"
    if not (1 <= d["l1"] <= d["nlines"] and 1 <= d["l2"] <= d["nlines"] and 1 <= d["c1"] <= d["len1"] + 1 and 1 <= d["c2"] <= d["len2"] + 1):
        return "outside-text"
    if d["l1"] > d["l2"] or (d["l1"] == d["l2"] and d["c1"] > d["c2"]):
        return "start-after-end"
    return None


def diag_class(r, inv):
    """canonical class of a failing input: the invariant, the way it fails and the diagnostic codes involved"""
    if inv == "range":
        kinds = sorted(set("%s:code=%d" % (range_bad(d), d["code"]) for d in r["diags"] if range_bad(d)))
        return kinds[0] if kinds else "?"
    if inv == "flag":
        errs = sorted(set(d["code"] for d in r["diags"] if d["lvl"] == "err"))
        if errs and not r["faulty"]:
            return "error-delivered-but-not-faulty:codes=%s" % ",".join(map(str, errs[:4]))
        if r["faulty"] and not errs:
            return "faulty-without-error"
        if r["anymodfaulty"] and not errs:
            return "module-faulty-without-error"
        return "errored-differs-from-faulty"
    if inv == "render":
        bad = [d for d in r["diags"] if range_bad(d)]
        return "code=%s" % (bad[0]["code"] if bad else "?")
    return "exit0=%s,artefact=%s,errors=%s" % (r["cli"]["exit0"], r["cli"]["artefact"], any(d["lvl"] == "err" for d in r["diags"]))


def run(tier):
    ck = Check("C07", tier)
    rng = vlib.rng("c07")
    inputs = fc.build_inputs(tier, rng)
    recs = fc.observe(inputs, cli_sample=150 if tier == "quick" else 2000, rng=rng)
    res = fc.validate(ck, recs)
    ck.cov["traces_validated_against_impl"] = len(recs)
    ck.cov["evaluations"] = len(recs)
    ck.cov["distinct_nontrivial"] = sum(1 for r in recs if r["diags"])
    ck.cov["diagnostics_checked"] = sum(len(r["diags"]) for r in recs)
    ck.cov["cli_runs"] = sum(1 for r in recs if r["cli"]["ran"])
    for inv in ("flag", "range", "render", "cli"):
        seen = {}
        for i in res[inv]:
            key, files, main = inputs[i]
            cls = diag_class(recs[i], inv)
            if cls in seen:
                seen[cls] += 1
                continue
            seen[cls] = 1
            ck.fail("C07:%s:%s" % (inv, cls), "input %s violates: %s; observed %s" % (key, INV[inv], json.dumps({k: recs[i].get(k) for k in ("faulty", "anymodfaulty", "codes", "renderdetail", "clidetail")}, ensure_ascii=False)[:500] + " diags=" + json.dumps(recs[i]["diags"][:2])),
                    dict(input=key, main=main, files={k: v.decode("utf-8", "replace") for k, v in files.items()}, invariant=inv, event={k: v for k, v in recs[i].items() if k != "detail"}))
        ck.cov.setdefault("failing_inputs_per_class", {}).update({"%s:%s" % (inv, k): v for k, v in seen.items()})
    k = next((i for i, r in enumerate(recs) if r["diags"]), 0)
    ck.sample(dict(input=inputs[k][0], diags=recs[k]["diags"][:2], faulty=recs[k]["faulty"]))
    ck.cov["rule"] = "the inputs of C03 (seeds, token and byte mutants, import arrangements); an input is non-trivial when at least one diagnostic was delivered; kddp itself runs on a seeded sample"
    return ck.finish(exhaustive=False)
