"""C03 - The frontend is total: no input crashes or hangs it.   DESIGN.md §4 C03"""
import json
import vlib, frontend_common as fc
from vlib import Check


def confirm(ck, key, files, main):
    """re-run one input alone; only a reproduced crash/hang counts"""
    recs = fc.observe([(key, files, main)], workers=1)
    return recs[0]


def run(tier):
    ck = Check("C03", tier)
    rng = vlib.rng("c03")
    inputs = fc.build_inputs(tier, rng)
    recs = fc.observe(inputs)
    res = fc.validate(ck, recs)
    ck.cov["traces_validated_against_impl"] = len(recs)
    ck.cov["evaluations"] = len(recs)
    ck.cov["distinct_nontrivial"] = len(set((m, tuple(sorted((k, v) for k, v in f.items()))) for _, f, m in inputs))
    ck.cov["outcomes"] = {}
    for r in recs:
        ck.cov["outcomes"][r["outcome"]] = ck.cov["outcomes"].get(r["outcome"], 0) + 1
    ck.cov["loop_iterations_observed"] = 0
    seen = set()
    for i in res["total"]:
        key, files, main = inputs[i]
        again = confirm(ck, key, files, main)
        if again["outcome"] in ("module", "error") and not again["stall"]:
            ck.cov.setdefault("not_reproduced", []).append(key)
            continue
        site = again.get("site") or "?"
        k2 = "C03:%s:%s" % (again["outcome"], site)
        if k2 in seen:
            ck.cov.setdefault("more_inputs_per_site", {}).setdefault(site, []).append(key)
            continue
        seen.add(k2)
        ck.fail(k2, "the frontend did not return normally on input %s: %s %s" % (key, again["outcome"], (again.get("detail") or "")[:400]),
                dict(input=key, main=main, files={k: v.decode("utf-8", "replace") for k, v in files.items()}, outcome=again["outcome"], detail=again.get("detail")))
    ck.sample(dict(input=inputs[len(inputs) // 2][0], outcome=recs[len(inputs) // 2]["outcome"], diags=len(recs[len(inputs) // 2]["diags"])))
    ck.cov["rule"] = "seed programs (repository corpus, examples, generated programs, import arrangements incl. missing files, directories, self/mutual imports) and their token-level mutants (delete, duplicate, swap, splice; seeded pairs) and byte-level mutants; each distinct input is one trace"
    ck.assumptions += ["worker limits: 8 GiB address space, 20 s per input; a hang is also detected as three identical consecutive loop iterations (hook H2)"]
    return ck.finish(exhaustive=(tier == "thorough"))
