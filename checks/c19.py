"""C19 - Every literal denotes its written value.   DESIGN.md §4 C19"""
import itertools, json, os, re
import vlib, ddp
from vlib import Check, Infra, FEPool, validate_monitor

T_CFG = """SPECIFICATION Spec
CONSTANTS
  TraceFile = "trace.ndjson"
  DecSep = 46
INVARIANTS Report
POSTCONDITION Accepted
CHECK_DEADLOCK FALSE
"""
SYM = ['"', "'", "\\", "a", "n", "t", "r", "b", "q", "\n", "ö", "€", "😀", " ", "0"]


def single_text_literal(body):
    i = 0
    while i < len(body):
        if body[i] == "\\":
            i += 2
        elif body[i] == '"':
            return False
        else:
            i += 1
    return True


def gen(tier, rng):
    lits = []
    M = (1 << 63) - 1
    ints = set()
    for v in (0, 1, 7, 10, 255, 256, 65535, 2 ** 31 - 1, 2 ** 31, 2 ** 32, 2 ** 53, M - 1, M, M + 1, M + 2, 2 ** 64 - 1, 2 ** 64, 2 ** 64 + 1, 10 ** 19, 10 ** 20, 99999999999999999999):
        ints.add(str(v)); ints.add("00" + str(v))
    for n in range(1, 23):
        ints.add("9" * n); ints.add("1" + "0" * (n - 1)); ints.add("".join(rng.choice("0123456789") for _ in range(n)))
    for s in sorted(ints):
        lits.append(("int", s))
    for ip in ("0", "1", "3", "12", "255", "1024", "007"):
        for fp in ("0", "5", "25", "75", "125", "0625", "50", "500", "1", "3", "10", "9999"):
            lits.append(("dec", ip + "," + fp))
    n = 3 if tier == "quick" else 4
    for k in range(0, n + 1):
        for t in itertools.product(SYM, repeat=k):
            body = "".join(t)
            if single_text_literal(body) or (body.endswith("\\") and single_text_literal(body[:-1])):
                if tier == "quick" and k == 3 and rng.random() < 0.6:
                    continue
                if tier == "thorough" and k == 4 and rng.random() < 0.85:
                    continue
                lits.append(("text", '"' + body + '"'))
    # sequences of whole units (an escape sequence or one raw symbol, now also a raw carriage return): adjacent escapes such as \r\n
    units = ["\\" + c for c in ('"', "\\", "a", "n", "t", "r", "b", "q")] + [c for c in SYM if c not in ('"', "\\")] + ["\r"]
    have = set(x[1] for x in lits)
    for k in (2, 3):
        for t in itertools.product(units, repeat=k):
            if k == 3 and rng.random() < (0.9 if tier == "quick" else 0.0):
                continue
            lit = '"' + "".join(t) + '"'
            if lit not in have:
                have.add(lit); lits.append(("text", lit))
    for k in range(0, 3):
        for t in itertools.product(SYM, repeat=k):
            body = "".join(t)
            if "'" in body.replace("\\'", ""):
                continue
            lits.append(("char", "'" + body + "'"))
    return lits


# positions other than `Schreibe <literal>.` in which a literal may stand: a literal that denotes no value must be rejected in every one
CONTEXTS = {
    "int": {
        "postfix-repetition": 'Schreibe "b" %s Mal.', "repetition": 'Wiederhole:\n\tSchreibe "a".\n%s Mal.', "list-fill-count": "Die Zahlen Liste l ist %s Mal 0.",
        "list-fill-value": "Die Zahlen Liste l ist 2 Mal %s.", "for-from": "Für jede Zahl i von %s bis 1, mache:\n\tVerlasse die Schleife.",
        "for-to": "Für jede Zahl i von 1 bis %s, mache:\n\tVerlasse die Schleife.", "for-step": "Für jede Zahl i von 1 bis 2 mit Schrittgröße %s, mache:\n\tVerlasse die Schleife.",
        "index": "Die Zahl x ist (eine Liste, die aus 1, 2 besteht) an der Stelle %s.", "constant": "Die Konstante K ist %s.", "list-element": "Die Zahlen Liste l ist eine Liste, die aus 1, %s besteht.",
        "operand": "Die Zahl x ist 1 plus %s.", "condition": "Wenn 1 gleich %s ist, Schreibe 1.", "shift": "Die Zahl x ist 5 um %s Bit nach links verschoben.",
        "return": 'Die Funktion f mit dem Parameter a vom Typ Zahl, gibt eine Zahl zurück, macht:\n\tGib %s zurück.\nUnd kann so benutzt werden:\n\t"f <a>"',
        "field-default": 'Wir nennen die Kombination aus\n\tder Zahl x mit Standardwert %s,\neinen P, und erstellen sie so:\n\t"ein P"',
        "argument": 'Die Funktion f mit dem Parameter a vom Typ Zahl, gibt eine Zahl zurück, macht:\n\tGib a zurück.\nUnd kann so benutzt werden:\n\t"f <a>"\nDie Zahl x ist f %s.',
        "slice": "Die Zahlen Liste l ist (eine Liste, die aus 1, 2 besteht) bis zum %s. Element.", "assignment": "Die Zahl x ist 0.\nSpeichere %s in x.", "compound": "Die Zahl x ist 0.\nErhöhe x um %s.",
        "cast": "Der Text t ist %s als Text.", "while": "Solange 1 größer als %s ist, Verlasse die Schleife.",
    },
    "char": {"declaration": "Der Buchstabe c ist %s.", "concat": 'Der Text t ist "a" verkettet mit %s.', "list-element": "Die Buchstaben Liste l ist eine Liste, die aus 'a', %s besteht.",
             "comparison": "Wenn 'a' gleich %s ist, Schreibe 1.", "index-assign": 'Der Text t ist "abc".\nSpeichere %s in t an der Stelle 1.'},
    "text": {"declaration": "Der Text t ist %s.", "concat": 'Der Text t ist "a" verkettet mit %s.', "comparison": 'Wenn "a" gleich %s ist, Schreibe 1.',
             "list-element": 'Die Text Liste l ist eine Liste, die aus "a", %s besteht.', "constant": "Die Konstante K ist %s."},
}


def run(tier):
    ck = Check("C19", tier)
    rng = vlib.rng("c19")
    lits = gen(tier, rng)
    pool = FEPool(14)
    jobs = [dict(files={"m.ddp": 'Binde "Duden/Ausgabe" ein.\nSchreibe %s.\n' % s}, main="m.ddp") for _, s in lits]
    answers = pool.run(jobs)
    accepted = []
    for (kind, s), a in zip(lits, answers):
        if not a["runs"] or a["runs"][0].get("panic") or a["runs"][0].get("err"):
            ck.fail("C19:crash:%s:%s" % (kind, s.encode().hex()[:60]), "frontend crashed on literal %r: %s" % (s, json.dumps(a)[:300]), dict(kind=kind, src=s))
            accepted.append(False)
            continue
        accepted.append(not any(d["lvl"] == "err" for d in a["runs"][0]["diags"]))
    # run the accepted ones in batches
    runner = ddp.Runner()
    acc_idx = [i for i, ok in enumerate(accepted) if ok]
    per = 60
    batches = [acc_idx[i:i + per] for i in range(0, len(acc_idx), per)]
    srcs = []
    for b in batches:
        lines = ['Binde "Duden/Ausgabe" ein.']
        for i in b:
            lines += ['Schreibe "#%d:".' % i, "Schreibe %s." % lits[i][1], 'Schreibe "~\\n".']
        srcs.append("\n".join(lines) + "\n")
    results = runner.run_sources(srcs, opts=(1,))
    outs = {}
    for b, r, src in zip(batches, results, srcs):
        if r["fail"] or 1 not in r["runs"]:
            for i in b:
                ck.fail("C19:not-compiled:%s" % lits[i][1].encode().hex()[:60], "a batch of accepted literals did not compile/link: %s" % (str(r["fail"])[:300]), dict(src=src))
            continue
        text = r["runs"][1]["out"].decode("utf-8", "replace")
        for m in re.finditer(r"#(\d+):(.*?)~\n(?=#\d+:|$)", text, re.S):
            outs[int(m.group(1))] = m.group(2)
    recs = []
    for i, (kind, s) in enumerate(lits):
        recs.append(dict(e="lit", kind=kind, src=[ord(c) for c in s], accepted=bool(accepted[i] and i in outs), out=[ord(c) for c in outs.get(i, "")]))
    # the same literals in the other positions: every literal the plain position rejected (and every out-of-range integer), a few accepted ones
    ctx_items = []
    for i, (kind, s_) in enumerate(lits):
        if kind not in CONTEXTS:
            continue
        suspicious = (not accepted[i]) or (kind == "int" and int(s_) >= 2 ** 63)
        if suspicious or (kind == "int" and s_ in ("0", "3", "007", "255")) or rng.random() < 0.01:
            if kind != "int" and not suspicious and rng.random() < 0.5:
                continue
            for cn, tpl in CONTEXTS[kind].items():
                if kind != "int" and tier == "quick" and rng.random() < 0.5:
                    continue
                ctx_items.append((i, cn, 'Binde "Duden/Ausgabe" ein.\n' + tpl % s_ + "\n"))
    cans = pool.run([dict(files={"m.ddp": src}, main="m.ddp") for _, _, src in ctx_items])
    nctx = 0
    for (i, cn, src), a in zip(ctx_items, cans):
        kind, s_ = lits[i]
        if not a["runs"] or a["runs"][0].get("panic") or a["runs"][0].get("err"):
            ck.fail("C19:crash:%s:%s:%s" % (kind, cn, s_.encode().hex()[:60]), "frontend crashed on literal %r in position %s: %s" % (s_, cn, json.dumps(a)[:300]), dict(kind=kind, src=s_, source=src))
            continue
        acc = not any(d["lvl"] == "err" for d in a["runs"][0]["diags"]) and not a["runs"][0].get("faulty")
        recs.append(dict(e="ctx", kind=kind, src=[ord(c) for c in s_], ctx=cn, accepted=acc))
        lits.append((kind + "@" + cn, s_))
        outs[len(lits) - 1] = None
        nctx += 1
    ck.cov["literals_in_other_positions"] = nctx
    ck.cov["positions"] = {k: sorted(v) for k, v in CONTEXTS.items()}
    orig = vlib.split_chunks
    try:
        vlib.split_chunks = lambda records, n, is_start=None: [(i, records[i:i + max(1, len(records) // n + 1)]) for i in range(0, len(records), max(1, len(records) // n + 1))]
        res, st = validate_monitor("LiteralTrace", "t.cfg", ["syntax", "sem", "common"], recs, procs=14, sets=("bad",), extra_files={"t.cfg": T_CFG})
    finally:
        vlib.split_chunks = orig
    ck.cov["states"] = st["distinct"]; ck.cov["transitions"] = st["generated"]
    ck.cov["traces_validated_against_impl"] = len(recs)
    ck.cov["evaluations"] = len(recs)
    ck.cov["distinct_nontrivial"] = len(set(lits))
    ck.cov["accepted"] = sum(accepted)
    ck.cov["by_kind"] = {k: sum(1 for x in lits if x[0] == k) for k in ("int", "dec", "char", "text")}
    ck.cov["tlc_runs"].append(dict(name="LiteralTrace", lines=st["lines"], wall_s=round(st["wall"], 1)))
    for i in res["bad"]:
        kind, s = lits[i]
        if "@" in kind:
            ck.fail("C19:%s:%s" % (kind, s.encode().hex()[:80]), "literal %r denotes no value (Literals.tla) but is accepted in the position %s" % (s, kind.split("@")[1]),
                    dict(kind=kind, src=s, source='Binde "Duden/Ausgabe" ein.\n' + CONTEXTS[kind.split("@")[0]][kind.split("@")[1]] % s + "\n"))
            continue
        ck.fail("C19:%s:%s" % (kind, s.encode().hex()[:80]), "literal %r (%s): accepted=%s printed %r contradicts Literals.tla" % (s, kind, recs[i]["accepted"], outs.get(i)), dict(kind=kind, src=s, accepted=recs[i]["accepted"], out=outs.get(i)))
    ck.sample(dict(kind=lits[5][0], src=lits[5][1], accepted=accepted[5], out=outs.get(5)))
    ck.sample(dict(kind=lits[-5][0], src=lits[-5][1], accepted=accepted[-5], out=outs.get(len(lits) - 5)))
    ck.cov["rule"] = "integer literals at every boundary and every length 1..22, decimal literals (compared when exactly representable), all character literals with bodies of <=2 symbols and all single text literals with bodies of <=3 (quick, sampled at 3) / <=4 (thorough, sampled at 4) symbols over a 15-symbol alphabet (quotes, backslash, escape letters, a non-escape letter, line feed, 2/3/4-byte characters); all text literals of 2 and (quick: a 10% sample of) 3 units, a unit being an escape sequence or a raw symbol incl. a raw carriage return (adjacent escapes such as \\r\\n)"
    ck.assumptions.append("decimal literals outside the dyadic fragment are not compared (correct rounding is not decided)")
    return ck.finish(exhaustive=False)
