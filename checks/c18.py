"""C18 - Foreign C functions see the published value representation.   DESIGN.md §4 C18
For generated extern signatures TLC (spec/ffi/FFI.tla) states the C prototype; the harness writes a C callee against exactly that prototype
(it prints what it sees through the header structs, scribbles over its by-value arguments, writes through Referenz parameters, returns a known
value or moves its first argument into the result) and a DDP caller that prints result and variables afterwards.  Every call is one event for
FFITrace.tla; the allocation ledger of whole driver runs is validated by HeapTrace.tla (caller frees each argument once, owns the result)."""
import json, os, re, subprocess, itertools
import vlib, ddp
from vlib import Check, Infra, validate_monitor
from concurrent.futures import ThreadPoolExecutor

T_CFG = """SPECIFICATION Spec
CONSTANTS
  TraceFile = "trace.ndjson"
INVARIANTS Report
POSTCONDITION Accepted
CHECK_DEADLOCK FALSE
"""
KINDS = ["Z", "K", "B", "W", "C", "T", "LZ", "LT", "LB", "LK", "LW", "LC", "S", "VZ", "VT"]
PRIM = {"Z", "K", "B", "W", "C"}
TY = {"Z": ("Zahl", "Die", "eine Zahl", "Zahlen Referenz"), "K": ("Kommazahl", "Die", "eine Kommazahl", "Kommazahlen Referenz"), "B": ("Byte", "Der", "einen Byte", "Byte Referenz"),
      "W": ("Wahrheitswert", "Der", "einen Wahrheitswert", "Wahrheitswert Referenz"), "C": ("Buchstabe", "Der", "einen Buchstaben", "Buchstaben Referenz"),
      "T": ("Text", "Der", "einen Text", "Text Referenz"), "LZ": ("Zahlen Liste", "Die", "eine Zahlen Liste", "Zahlen Listen Referenz"),
      "LT": ("Text Liste", "Die", "eine Text Liste", "Text Listen Referenz"), "LB": ("Byte Liste", "Die", "eine Byte Liste", "Byte Listen Referenz"),
      "LK": ("Kommazahlen Liste", "Die", "eine Kommazahlen Liste", "Kommazahlen Listen Referenz"), "LW": ("Wahrheitswert Liste", "Die", "eine Wahrheitswert Liste", "Wahrheitswert Listen Referenz"),
      "LC": ("Buchstaben Liste", "Die", "eine Buchstaben Liste", "Buchstaben Listen Referenz"), "S": ("Misch", "Der", "einen Misch", "Misch Referenz"),
      "VZ": ("Variable", "Die", "eine Variable", "Variablen Referenz"), "VT": ("Variable", "Die", "eine Variable", "Variablen Referenz")}
MAXI, MINI = (1 << 63) - 1, -(1 << 63)
cp = lambda s: [ord(c) for c in s]
VALUES = {
    "Z": [0, -1, 42, MAXI, MINI, 1 << 32, -(1 << 31) - 5],
    "K": [0, -48, 160, 64 * 1000 + 32],          # 64 * value
    "B": [0, 255, 128, 7],
    "W": [True, False],
    "C": [97, 223, 8364, 128512],
    "T": [cp(""), cp("a"), cp("zwölf €"), cp("ein längerer Text mit 😀 und mehr als sechzehn Bytes"), cp("Ä")],
    "LZ": [[], [MAXI, MINI, 0], [1, 2, 3, 4, 5, 6, 7, 8, 9]],
    "LT": [[], [cp(""), cp("ä")], [cp("x"), cp("yy"), cp("zzz")]],
    "LB": [[], [0, 255, 7], [1, 2, 3, 4, 5, 6, 7, 8, 9]],
    "LK": [[], [160, -48], [0, 64, 128, 192]],
    "LW": [[], [True], [True, False, False, True, True, False, True, False, True]],
    "LC": [[], [97, 223], [8364, 128512, 120]],
    "S": [[97, 5, 255, cp("feld"), True, 160], [128512, MINI, 0, cp(""), False, -48]],
    "VZ": [5, MINI],
    "VT": [cp("in der Variable"), cp("")],
}

PRELUDE_TYPES = '''Wir nennen die öffentliche Kombination aus
	dem öffentlichen Buchstabe buchst mit Standardwert 'q',
	der öffentlichen Zahl zahl mit Standardwert 1,
	dem öffentlichen Byte bite mit Standardwert (2 als Byte),
	dem öffentlichen Text wort mit Standardwert "",
	dem öffentlichen Wahrheitswert flag mit Standardwert falsch,
	der öffentlichen Kommazahl bruch mit Standardwert 0,5,
einen Misch, und erstellen sie so:
	"ein Misch aus <buchst>, <zahl>, <bite>, <wort>, <flag> und <bruch>"
'''
PRELUDE_SHOW = '''Die Funktion zt mit dem Parameter t vom Typ Text, gibt nichts zurück, macht:
	Schreibe "T( ".
	Für jeden Buchstaben c in t, mache:
		Schreibe (c als Zahl).
		Schreibe " ".
	Schreibe ") ".
Und kann so benutzt werden:
	"zeige den text <t>"
Die Funktion zz mit dem Parameter z vom Typ Zahl, gibt nichts zurück, macht:
	Schreibe "Z( ".
	Schreibe z.
	Schreibe " ) ".
Und kann so benutzt werden:
	"zeige die zahl <z>"
Die Funktion zk mit dem Parameter k vom Typ Kommazahl, gibt nichts zurück, macht:
	Schreibe "K( ".
	Schreibe ((k mal 64) als Zahl).
	Schreibe " ) ".
Und kann so benutzt werden:
	"zeige die kommazahl <k>"
Die Funktion zlz mit dem Parameter l vom Typ Zahlen Liste, gibt nichts zurück, macht:
	Schreibe "L[ ".
	Für jede Zahl z in l, mache:
		zeige die zahl z.
	Schreibe "] ".
Und kann so benutzt werden:
	"zeige die zahlen <l>"
Die Funktion zlt mit dem Parameter l vom Typ Text Liste, gibt nichts zurück, macht:
	Schreibe "L[ ".
	Für jeden Text t in l, mache:
		zeige den text t.
	Schreibe "] ".
Und kann so benutzt werden:
	"zeige die texte <l>"
Die Funktion zlb mit dem Parameter l vom Typ Byte Liste, gibt nichts zurück, macht:
	Schreibe "L[ ".
	Für jeden Byte b in l, mache:
		Schreibe "B( ".
		Schreibe (b als Zahl).
		Schreibe " ) ".
	Schreibe "] ".
Und kann so benutzt werden:
	"zeige die bytes <l>"
Die Funktion zlk mit dem Parameter l vom Typ Kommazahlen Liste, gibt nichts zurück, macht:
	Schreibe "L[ ".
	Für jede Kommazahl k in l, mache:
		zeige die kommazahl k.
	Schreibe "] ".
Und kann so benutzt werden:
	"zeige die kommazahlen <l>"
Die Funktion zlw mit dem Parameter l vom Typ Wahrheitswert Liste, gibt nichts zurück, macht:
	Schreibe "L[ ".
	Für jeden Wahrheitswert w in l, mache:
		Schreibe "W( ".
		Schreibe (w als Zahl).
		Schreibe " ) ".
	Schreibe "] ".
Und kann so benutzt werden:
	"zeige die wahrheitswerte <l>"
Die Funktion zlc mit dem Parameter l vom Typ Buchstaben Liste, gibt nichts zurück, macht:
	Schreibe "L[ ".
	Für jeden Buchstaben c in l, mache:
		Schreibe "C( ".
		Schreibe (c als Zahl).
		Schreibe " ) ".
	Schreibe "] ".
Und kann so benutzt werden:
	"zeige die buchstaben <l>"
Die Funktion zm mit dem Parameter m vom Typ Misch, gibt nichts zurück, macht:
	Schreibe "S{ C( ".
	Schreibe ((buchst von m) als Zahl).
	Schreibe " ) ".
	zeige die zahl (zahl von m).
	Schreibe "B( ".
	Schreibe ((bite von m) als Zahl).
	Schreibe " ) ".
	zeige den text (wort von m).
	Schreibe "W( ".
	Schreibe ((flag von m) als Zahl).
	Schreibe " ) ".
	zeige die kommazahl (bruch von m).
	Schreibe "} ".
Und kann so benutzt werden:
	"zeige den misch <m>"
Die Funktion zv mit dem Parameter v vom Typ Variable, gibt nichts zurück, macht:
	Schreibe "V{ ".
	Wenn v eine Zahl ist, dann:
		zeige die zahl (v als Zahl).
	Wenn aber v ein Text ist, dann:
		zeige den text (v als Text).
	Sonst:
		Schreibe "? ".
	Schreibe "} ".
Und kann so benutzt werden:
	"zeige die variable <v>"
'''
C_PRELUDE = r'''#include "DDP/ddptypes.h"
#include <stdio.h>
#include <stdlib.h>
#include <string.h>
typedef struct { ddpchar buchst; ddpint zahl; ddpbyte bite; ddpstring wort; ddpbool flag; ddpfloat bruch; } Misch;
extern ddpvtable ddpint_vtable, ddpstring_vtable;
static void sh_Z(ddpint v) { printf("Z( %lld ) ", (long long)v); }
static void sh_K(ddpfloat v) { printf("K( %.17g ) ", v * 64.0); }
static void sh_B(ddpbyte v) { printf("B( %u ) ", (unsigned)v); }
static void sh_W(ddpbool v) { unsigned char c; memcpy(&c, &v, 1); printf("W( %u ) ", (unsigned)c); }
static void sh_C(ddpchar v) { printf("C( %d ) ", (int)v); }
static void sh_T(ddpstring *t) { printf("T( "); if (t->str) { int n = 0; for (unsigned char *p = (unsigned char *)t->str; *p && n < 400; p++, n++) printf("x%u ", (unsigned)*p); } printf(") "); }
static void sh_LZ(ddpintlist *l) { printf("L[ "); for (ddpint i = 0; i < l->len && i < 64; i++) sh_Z(l->arr[i]); printf("] "); }
static void sh_LT(ddpstringlist *l) { printf("L[ "); for (ddpint i = 0; i < l->len && i < 64; i++) sh_T(&l->arr[i]); printf("] "); }
static void sh_LB(ddpbytelist *l) { printf("L[ "); for (ddpint i = 0; i < l->len && i < 64; i++) sh_B(l->arr[i]); printf("] "); }
static void sh_LK(ddpfloatlist *l) { printf("L[ "); for (ddpint i = 0; i < l->len && i < 64; i++) sh_K(l->arr[i]); printf("] "); }
static void sh_LW(ddpboollist *l) { printf("L[ "); for (ddpint i = 0; i < l->len && i < 64; i++) sh_W(l->arr[i]); printf("] "); }
static void sh_LC(ddpcharlist *l) { printf("L[ "); for (ddpint i = 0; i < l->len && i < 64; i++) sh_C(l->arr[i]); printf("] "); }
static void sh_S(Misch *s) { printf("S{ "); sh_C(s->buchst); sh_Z(s->zahl); sh_B(s->bite); sh_T(&s->wort); sh_W(s->flag); sh_K(s->bruch); printf("} "); }
static void sh_V(ddpany *a) { printf("V{ "); if (a->vtable_ptr == &ddpint_vtable) sh_Z(*(ddpint *)(DDP_ANY_VALUE_PTR(a))); else if (a->vtable_ptr == &ddpstring_vtable) sh_T((ddpstring *)(DDP_ANY_VALUE_PTR(a))); else printf("? "); printf("} "); }
#define sh_VZ sh_V
#define sh_VT sh_V
/* the callee's private value: overwrite it in place (no allocation changes) */
static void sc_T(ddpstring *t) { if (t->str && t->str[0] && (unsigned char)t->str[0] < 0x80) t->str[0] = '#'; }
static void sc_LZ(ddpintlist *l) { if (l->len > 0) l->arr[0] = 4711; }
static void sc_LT(ddpstringlist *l) { if (l->len > 0) sc_T(&l->arr[0]); }
static void sc_LB(ddpbytelist *l) { if (l->len > 0) l->arr[0] = 99; }
static void sc_LK(ddpfloatlist *l) { if (l->len > 0) l->arr[0] = 4711.0; }
static void sc_LW(ddpboollist *l) { if (l->len > 0) l->arr[0] = !l->arr[0]; }
static void sc_LC(ddpcharlist *l) { if (l->len > 0) l->arr[0] = '#'; }
static void sc_S(Misch *s) { s->zahl = 4711; sc_T(&s->wort); s->flag = !s->flag; s->buchst = 'S'; }
static void sc_V(ddpany *a) { if (a->vtable_ptr == &ddpint_vtable) *(ddpint *)(DDP_ANY_VALUE_PTR(a)) = 4711; else if (a->vtable_ptr == &ddpstring_vtable) sc_T((ddpstring *)(DDP_ANY_VALUE_PTR(a))); }
#define sc_VZ sc_V
#define sc_VT sc_V
/* writing through a Referenz: FFI!Written */
static void wr_Z(ddpint *p) { *p = ~*p; }
static void wr_K(ddpfloat *p) { *p += 1.0; }
static void wr_B(ddpbyte *p) { *p = (ddpbyte)(*p + 1); }
static void wr_W(ddpbool *p) { *p = !*p; }
static void wr_C(ddpchar *p) { *p += 1; }
static void wr_T(ddpstring *t) { size_t n = t->str ? strlen(t->str) : 0; char *b = malloc(n + 2); if (n) memcpy(b, t->str, n); b[n] = '!'; b[n + 1] = 0; ddp_free_string(t); ddp_string_from_constant(t, b); free(b); }
static void wr_LZ(ddpintlist *l) { ddpint n = l->len; ddp_free_ddpintlist(l); ddp_ddpintlist_from_constants(l, 1); l->arr[0] = n; }
static void wr_LT(ddpstringlist *l) { ddp_free_ddpstringlist(l); *l = (ddpstringlist){NULL, 0, 0}; }
static void wr_LB(ddpbytelist *l) { for (ddpint i = 0; i < l->len; i++) l->arr[i] = (ddpbyte)(l->arr[i] + 1); }
static void wr_LK(ddpfloatlist *l) { for (ddpint i = 0; i < l->len; i++) l->arr[i] += 1.0; }
static void wr_LW(ddpboollist *l) { for (ddpint i = 0; i < l->len; i++) l->arr[i] = !l->arr[i]; }
static void wr_LC(ddpcharlist *l) { ddpint n = l->len; ddp_free_ddpcharlist(l); ddp_ddpcharlist_from_constants(l, 1); l->arr[0] = (ddpchar)(n + 65); }
static void wr_S(Misch *s) { s->zahl = ~s->zahl; wr_T(&s->wort); s->flag = !s->flag; }
static void wr_V(ddpany *a) { if (a->vtable_ptr == &ddpint_vtable) wr_Z((ddpint *)(DDP_ANY_VALUE_PTR(a))); else if (a->vtable_ptr == &ddpstring_vtable) wr_T((ddpstring *)(DDP_ANY_VALUE_PTR(a))); }
#define wr_VZ wr_V
#define wr_VT wr_V
/* results: FFI!Known */
static void kn_T(ddpstring *r) { ddp_string_from_constant(r, "zur\xc3\xbc" "ck"); }
static void kn_LZ(ddpintlist *r) { ddp_ddpintlist_from_constants(r, 2); r->arr[0] = 3; r->arr[1] = ~(ddpint)3; }
static void kn_LT(ddpstringlist *r) { ddp_ddpstringlist_from_constants(r, 3); ddp_string_from_constant(&r->arr[0], "a"); r->arr[1] = DDP_EMPTY_STRING; ddp_string_from_constant(&r->arr[2], "\xc3\xa4\xe2\x82\xac"); }
static void kn_LB(ddpbytelist *r) { ddp_ddpbytelist_from_constants(r, 3); r->arr[0] = 0; r->arr[1] = 255; r->arr[2] = 128; }
static void kn_LK(ddpfloatlist *r) { ddp_ddpfloatlist_from_constants(r, 2); r->arr[0] = 2.5; r->arr[1] = -0.75; }
static void kn_LW(ddpboollist *r) { ddp_ddpboollist_from_constants(r, 3); r->arr[0] = true; r->arr[1] = false; r->arr[2] = true; }
static void kn_LC(ddpcharlist *r) { ddp_ddpcharlist_from_constants(r, 3); r->arr[0] = 'a'; r->arr[1] = 8364; r->arr[2] = 128512; }
static void kn_S(Misch *r) { memset(r, 0, sizeof *r); r->buchst = 'x'; r->zahl = 77; r->bite = 9; ddp_string_from_constant(&r->wort, "st"); r->flag = true; r->bruch = 1.5; }
static void kn_VZ(ddpany *r) { memset(r, 0, sizeof *r); r->vtable_ptr = &ddpint_vtable; *(ddpint *)r->value = 5; }
static void kn_VT(ddpany *r) { memset(r, 0, sizeof *r); r->vtable_ptr = &ddpstring_vtable; ddp_string_from_constant((ddpstring *)r->value, "var"); }
'''
KNOWN_PRIM = {"Z": "-2", "K": "2.5", "B": "200", "W": "true", "C": "8364"}


# ------------------------------------------------------------------------------------------ signatures
def signatures(tier, rng):
    pk = [(k, r) for k in KINDS for r in (False, True)]
    rets = ["none"] + KINDS
    sigs = [dict(params=[], ret=r, steal=False) for r in rets]
    for (k, r) in pk:                                   # arity 1: all
        for ret in rets:
            sigs.append(dict(params=[dict(k=k, ref=r)], ret=ret, steal=False))
    for k in KINDS:                                     # moved results
        if k not in PRIM:
            sigs.append(dict(params=[dict(k=k, ref=False)], ret=k, steal=True))
            sigs.append(dict(params=[dict(k=k, ref=False), dict(k="Z", ref=True)], ret=k, steal=True))
    for k in KINDS:                                     # a by-value Zahl behind a non-primitive by-value parameter (the Zahl may come from another extern call)
        if k not in PRIM:
            sigs.append(dict(params=[dict(k=k, ref=False), dict(k="Z", ref=False)], ret="Z", steal=False))
            sigs.append(dict(params=[dict(k=k, ref=False), dict(k="Z", ref=False), dict(k=k, ref=False)], ret="none", steal=False))
    pairs = list(itertools.product(pk, pk))
    if tier == "quick":
        pairs = rng.sample(pairs, 60)
    for a, b in pairs:
        sigs.append(dict(params=[dict(k=a[0], ref=a[1]), dict(k=b[0], ref=b[1])], ret=rng.choice(rets), steal=False))
    for _ in range(60 if tier == "quick" else 500):
        n = rng.randint(3, 6)
        sigs.append(dict(params=[dict(k=k, ref=r) for k, r in (rng.choice(pk) for _ in range(n))], ret=rng.choice(rets), steal=False))
    return sigs


# ------------------------------------------------------------------------------------------ values
def limbs(v):
    return list((v & ((1 << 64) - 1)).to_bytes(8, "little"))


def enc(k, v):
    """python value -> JSON value of FFI.tla"""
    if k in ("Z", "VZ"):
        return limbs(v)
    if k == "LZ":
        return [limbs(x) for x in v]
    if k == "S":
        return [v[0], limbs(v[1]), v[2], v[3], v[4], v[5]]
    return v


def zlit(v):
    if v == MINI:
        return "(-9223372036854775807 minus 1)"
    return str(v) if v >= 0 else "(-%d)" % -v


def klit(v):
    s = ("%.6f" % (abs(v) / 64.0)).rstrip("0")
    s = s + "0" if s.endswith(".") else s
    s = s.replace(".", ",")
    return s if v >= 0 else "(-%s)" % s


def tlit(v):
    return '"' + "".join(ddp.esc_char(c, '"') for c in v) + '"'


def dlit(k, v):
    if k == "Z":
        return zlit(v)
    if k == "K":
        return klit(v)
    if k == "B":
        return "(%d als Byte)" % v
    if k == "W":
        return "wahr" if v else "falsch"
    if k == "C":
        return "'" + ddp.esc_char(v, "'") + "'"
    if k == "T":
        return tlit(v)
    if k == "LZ":
        return "(eine Liste, die aus %s besteht)" % ", ".join(zlit(x) for x in v) if v else "(eine leere Zahlen Liste)"
    if k == "LT":
        return "(eine Liste, die aus %s besteht)" % ", ".join(tlit(x) for x in v) if v else "(eine leere Text Liste)"
    if k in ("LB", "LK", "LW", "LC"):
        name = {"LB": "Byte Liste", "LK": "Kommazahlen Liste", "LW": "Wahrheitswert Liste", "LC": "Buchstaben Liste"}[k]
        return "(eine Liste, die aus %s besteht)" % ", ".join(dlit(k[1], x) for x in v) if v else "(eine leere %s)" % name
    if k == "S":
        return "(ein Misch aus %s, %s, %s, %s, %s und %s)" % (dlit("C", v[0]), zlit(v[1]), dlit("B", v[2]), tlit(v[3]), dlit("W", v[4]), klit(v[5]))
    if k == "VZ":
        return "(%s als Variable)" % zlit(v)
    if k == "VT":
        return "(%s als Variable)" % tlit(v)
    raise ValueError(k)


SHOW = {"Z": "zeige die zahl %s.", "K": "zeige die kommazahl %s.", "T": "zeige den text %s.", "LZ": "zeige die zahlen %s.", "LT": "zeige die texte %s.", "S": "zeige den misch %s.",
        "LB": "zeige die bytes %s.", "LK": "zeige die kommazahlen %s.", "LW": "zeige die wahrheitswerte %s.", "LC": "zeige die buchstaben %s.",
        "VZ": "zeige die variable %s.", "VT": "zeige die variable %s."}


def show(k, e):
    if k in SHOW:
        return [SHOW[k] % e]
    return ['Schreibe "%s( ".' % k, "Schreibe (%s als Zahl)." % e, 'Schreibe " ) ".']


# ------------------------------------------------------------------------------------------ rendering
def ddp_decl(name, sig, public):
    ps = sig["params"]
    pt = [TY[p["k"]][3] if p["ref"] else TY[p["k"]][0] for p in ps]
    ret = "nichts" if sig["ret"] == "none" else TY[sig["ret"]][2]
    pub = "öffentliche " if public else ""
    if not ps:
        head = "Die %sFunktion %s gibt %s zurück," % (pub, name, ret)
    elif len(ps) == 1:
        head = "Die %sFunktion %s mit dem Parameter p1 vom Typ %s, gibt %s zurück," % (pub, name, pt[0], ret)
    else:
        names = ", ".join("p%d" % (i + 1) for i in range(len(ps) - 1)) + " und p%d" % len(ps)
        head = "Die %sFunktion %s mit den Parametern %s vom Typ %s, gibt %s zurück," % (pub, name, names, ", ".join(pt[:-1]) + " und " + pt[-1], ret)
    return [head, 'ist in "callee.c" definiert', "Und kann so benutzt werden:", '\t"%s"' % " ".join([name] + ["<p%d>" % (i + 1) for i in range(len(ps))]), ""]


def ddp_case(k, name, sig, args, temps, nest=None):
    """nest = (parameter index, inner function name, inner signature, inner arguments): that Zahl argument is the result of another extern call"""
    body = []
    call = [name]
    for i, (p, v) in enumerate(zip(sig["params"], args)):
        kind = p["k"]
        body.append("%s %s v%d ist %s." % (TY[kind][1], TY[kind][0], i + 1, dlit(kind, v)))
        if nest and nest[0] == i:
            call.append("(" + " ".join([nest[1]] + [dlit(q["k"], w) for q, w in zip(nest[2]["params"], nest[3])]) + ")")
            continue
        call.append(dlit(kind, v) if (temps and not p["ref"]) else "v%d" % (i + 1))
    call = " ".join(call)
    if sig["ret"] == "none":
        body.append(call + ".")
        body.append('Schreibe "R ".')
    else:
        rk = sig["ret"]
        body.append("%s %s erg ist %s." % (TY[rk][1], TY[rk][0], "(" + call + ")"))
        body.append('Schreibe "R ".')
        body += show(rk, "erg")
    body.append('Schreibe "A ".')
    for i, p in enumerate(sig["params"]):
        body += show(p["k"], "v%d" % (i + 1))
    return ["Die Funktion fall_%d gibt nichts zurück, ist extern sichtbar, macht:" % k] + ["\t" + l for l in body] + ["Und kann so benutzt werden:", '\t"fall_%d"' % k, ""]


def c_callee(name, sig, proto):
    lines = [proto + " {", '\tprintf("P ");']
    for i, p in enumerate(sig["params"]):
        n = "p%d" % (i + 1)
        byptr = p["ref"] or p["k"] not in PRIM
        if p["k"] in PRIM:
            lines.append("\tsh_%s(%s%s);" % (p["k"], "*" if byptr else "", n))
        else:
            lines.append("\tsh_%s(%s);" % (p["k"], n))
    lines.append("\tfflush(stdout);")
    if sig["steal"]:
        empty = {"T": "DDP_EMPTY_STRING", "LZ": "(ddpintlist){NULL, 0, 0}", "LT": "(ddpstringlist){NULL, 0, 0}", "LB": "(ddpbytelist){NULL, 0, 0}", "LK": "(ddpfloatlist){NULL, 0, 0}",
                 "LW": "(ddpboollist){NULL, 0, 0}", "LC": "(ddpcharlist){NULL, 0, 0}", "S": "(Misch){0}", "VZ": "DDP_EMPTY_ANY", "VT": "DDP_EMPTY_ANY"}[sig["ret"]]
        lines.append("\t*ret = *p1; *p1 = %s;" % empty)
    for i, p in enumerate(sig["params"]):
        n = "p%d" % (i + 1)
        if p["ref"]:
            lines.append("\twr_%s(%s);" % (p["k"], n))
        elif p["k"] not in PRIM and not (sig["steal"] and i == 0):
            lines.append("\tsc_%s(%s);" % (p["k"], n))
        elif p["k"] in PRIM:
            lines.append("\t%s = 0; (void)%s;" % (n, n))
    if sig["ret"] != "none" and not sig["steal"]:
        if sig["ret"] in PRIM:
            lines.append("\treturn %s;" % KNOWN_PRIM[sig["ret"]])
        else:
            lines.append("\tkn_%s(ret);" % sig["ret"])
    lines.append("}")
    return lines


# ------------------------------------------------------------------------------------------ output
TOK = re.compile(r"T\(|L\[|Z\(|W\(|C\(|B\(|K\(|S\{|V\{|\)|\]|\}|\?|x?-?[0-9][0-9.e+]*|-?inf|-?nan")


class Garbled(Exception):
    pass


def parse_stream(text):
    toks = TOK.findall(text)
    pos = [0]

    def need(t):
        if pos[0] >= len(toks) or toks[pos[0]] != t:
            raise Garbled("expected %r" % t)
        pos[0] += 1

    def num():
        if pos[0] >= len(toks):
            raise Garbled("number")
        t = toks[pos[0]]
        pos[0] += 1
        try:
            return float(t) if any(c in t for c in ".einf") else int(t)
        except ValueError:
            raise Garbled(t)

    def val():
        if pos[0] >= len(toks):
            raise Garbled("eof")
        t = toks[pos[0]]
        pos[0] += 1
        if t == "T(":
            bs, cps = [], []
            while pos[0] < len(toks) and toks[pos[0]] != ")":
                x = toks[pos[0]]
                pos[0] += 1
                if x.startswith("x"):
                    bs.append(int(x[1:]))
                else:
                    cps.append(int(x))
            need(")")
            if bs:
                try:
                    return ("T", [ord(c) for c in bytes(bs).decode("utf-8")])
                except (UnicodeDecodeError, ValueError):
                    raise Garbled("text bytes")
            return ("T", cps)
        if t in ("Z(", "C(", "B(", "W(", "K("):
            v = num()
            need(")")
            return (t[0], v)
        if t == "L[":
            r = []
            while pos[0] < len(toks) and toks[pos[0]] != "]":
                r.append(val())
            need("]")
            return ("L", r)
        if t == "S{":
            r = []
            while pos[0] < len(toks) and toks[pos[0]] != "}":
                r.append(val())
            need("}")
            return ("S", r)
        if t == "V{":
            if pos[0] < len(toks) and toks[pos[0]] == "?":
                raise Garbled("variable of another type")
            r = val()
            need("}")
            return ("V", r)
        raise Garbled("token %r" % t)
    out = []
    while pos[0] < len(toks):
        out.append(val())
    return out


def conv(kind, pv):
    """parsed value -> JSON value of FFI.tla, for the expected kind; Garbled if the shape is another one"""
    tag, v = pv
    if kind == "Z":
        if tag != "Z" or not isinstance(v, int) or not (MINI <= v <= MAXI):
            raise Garbled("Zahl")
        return limbs(v)
    if kind == "K":
        if tag != "K":
            raise Garbled("Kommazahl")
        f = float(v)
        if f != f or abs(f) > 1e8 or f != int(f):
            return 99999999
        return int(f)
    if kind in ("B", "C"):
        if tag != kind or not isinstance(v, int):
            raise Garbled(kind)
        return v if abs(v) < (1 << 30) else 999999999
    if kind == "W":
        if tag != "W" or v not in (0, 1):
            raise Garbled("Wahrheitswert %r" % (v,))
        return bool(v)
    if kind == "T":
        if tag != "T":
            raise Garbled("Text")
        return v
    if kind in ("LZ", "LT", "LB", "LK", "LW", "LC"):
        if tag != "L":
            raise Garbled("Liste")
        return [conv(kind[1], x) for x in v]
    if kind == "S":
        if tag != "S" or len(v) != 6:
            raise Garbled("Misch")
        return [conv(k, x) for k, x in zip(["C", "Z", "B", "T", "W", "K"], v)]
    if kind in ("VZ", "VT"):
        if tag != "V":
            raise Garbled("Variable")
        return conv(kind[1], v)
    raise ValueError(kind)


def observe(sig, text):
    m = re.match(r"P (.*)R (.*)A (.*)$", text, re.S)
    if not m:
        raise Garbled("frame")
    saw, res, aft = (parse_stream(m.group(i)) for i in (1, 2, 3))
    n = len(sig["params"])
    if len(saw) != n or len(aft) != n or len(res) != (0 if sig["ret"] == "none" else 1):
        raise Garbled("arity")
    return ([conv(p["k"], x) for p, x in zip(sig["params"], saw)], conv(sig["ret"], res[0]) if res else "-", [conv(p["k"], x) for p, x in zip(sig["params"], aft)])


# ------------------------------------------------------------------------------------------ the check
def sigkey(sig):
    return "%s->%s%s" % (",".join(p["k"] + ("&" if p["ref"] else "") for p in sig["params"]) or "()", sig["ret"], "/moved" if sig["steal"] else "")


def run(tier):
    ck = Check("C18", tier)
    rng = vlib.rng("c18")
    sigs = signatures(tier, rng)
    # 1. the specification states the C prototypes
    plan = [dict(e="proto", name="ffi_%d" % i, sig=s) for i, s in enumerate(sigs)]
    res, st = validate_monitor("FFITrace", "t.cfg", ["ffi"], plan, procs=1, sets=("bad",), extra_files={"t.cfg": T_CFG}, is_start=lambda r: False)
    if res["bad"]:
        raise Infra("ill-formed signatures generated: %r" % [sigs[i] for i in res["bad"][:3]])
    protos = {}
    for txt in st.get("marks", {}).get("proto", []):
        m = re.match(r'\s*(\d+),\s*"(.*)"\s*$', txt, re.S)
        protos[int(m.group(1)) - 1] = re.sub(r"\s+", " ", m.group(2))
    if len(protos) != len(sigs):
        raise Infra("TLC stated %d prototypes for %d signatures" % (len(protos), len(sigs)))
    # 2. cases: every signature with seeded boundary values, arguments as variables and (non-primitive value parameters) as temporaries
    cases = []
    for i, s in enumerate(sigs):
        nvals = 2 if tier == "quick" else 4
        for j in range(nvals):
            args = [rng.choice(VALUES[p["k"]]) for p in s["params"]]
            temps = (j % 2 == 1) and any((not p["ref"]) and p["k"] not in PRIM for p in s["params"])
            if j > 0 and not s["params"]:
                break
            cases.append((i, args, temps))
    # an argument that is itself the result of an extern call: a by-value Zahl parameter behind a non-primitive by-value parameter gets
    # `(ffi_j ...)` with non-primitive by-value arguments of its own (the copies made for the outer call are alive across the inner call)
    inner = [j for j, t in enumerate(sigs) if t["ret"] == "Z" and not t["steal"] and t["params"] and not any(q["ref"] for q in t["params"]) and any(q["k"] not in PRIM for q in t["params"])]
    nested = []
    for i, s_ in enumerate(sigs):
        ps = s_["params"]
        pos = [n for n, q in enumerate(ps) if q["k"] == "Z" and not q["ref"] and any((not r["ref"]) and r["k"] not in PRIM for r in ps[:n])]
        if pos and inner and not s_["steal"]:
            nested.append((i, pos[0]))
    for i, n in (nested if tier == "thorough" else rng.sample(nested, min(len(nested), 40))):
        j = rng.choice(inner)
        args = [rng.choice(VALUES[q["k"]]) for q in sigs[i]["params"]]
        args[n] = int(KNOWN_PRIM["Z"])
        cases.append((i, args, bool(rng.getrandbits(1)), (n, "ffi_%d" % j, sigs[j], [rng.choice(VALUES[q["k"]]) for q in sigs[j]["params"]], j)))
    cases = [c if len(c) == 4 else c + (None,) for c in cases]
    ck.cov["nested_extern_calls"] = sum(1 for c in cases if c[3])
    per = 40
    groups = [cases[a:a + per] for a in range(0, len(cases), per)]
    runner = ddp.Runner()
    opts = (0, 2) if tier == "quick" else (0, 1, 2)
    inc = os.path.join(runner.sut, "src", "lib", "runtime", "include")  # the copy of the tree the SUT was built from
    if not os.path.isdir(inc):
        inc = "/repo/lib/runtime/include"

    def one(gi_g):
        gi, g = gi_g
        used = sorted(set(c[0] for c in g) | set(c[3][4] for c in g if c[3]))
        csrc = C_PRELUDE + "\n" + "\n".join("\n".join(c_callee("ffi_%d" % i, sigs[i], protos[i])) for i in used) + "\n"
        imported = gi % 2 == 1          # odd groups: the extern functions are declared in an imported module
        decls = sum((ddp_decl("ffi_%d" % i, sigs[i], imported) for i in used), [])
        falls = sum((ddp_case(k, "ffi_%d" % c[0], sigs[c[0]], c[1], c[2], c[3][:4] if c[3] else None) for k, c in enumerate(g)), [])
        if imported:
            files = {"ffilib.ddp": PRELUDE_TYPES + "\n" + "\n".join(decls) + "\n",
                     "m.ddp": 'Binde "Duden/Ausgabe" ein.\nBinde "ffilib" ein.\n\n' + PRELUDE_SHOW + "\n" + "\n".join(falls) + "\n"}
        else:
            files = {"m.ddp": 'Binde "Duden/Ausgabe" ein.\n\n' + PRELUDE_TYPES + "\n" + PRELUDE_SHOW + "\n" + "\n".join(decls) + "\n" + "\n".join(falls) + "\n"}
        files["callee.c"] = csrc
        files["m_seq.ddp"] = files["m.ddp"] + "\n" + "\n".join("fall_%d." % k for k in range(len(g))) + "\n"
        d = runner.newdir()
        for f, t in files.items():
            with open(os.path.join(d, f), "w") as fh:
                fh.write(t)
        with open(os.path.join(d, "cases.c"), "w") as f:
            f.write("".join("extern void fall_%d(void);\n" % k for k in range(len(g))))
            f.write("void (*VERIF_CASES[])(void) = {%s};\nint VERIF_NCASES = %d;\n" % (", ".join("fall_%d" % k for k in range(len(g))), len(g)))
        out = dict(dir=d, files=files, fail=None, runs={}, ledgers={})
        for src, obj in (("callee.c", "callee.o"), ("cases.c", "cases.o")):
            p = subprocess.run(["gcc", "-c", "-O1", "-I", inc, src, "-o", obj], cwd=d, stdout=subprocess.PIPE, stderr=subprocess.STDOUT, text=True)
            if p.returncode != 0:
                raise Infra("generated C does not compile (%s): %s" % (src, p.stdout[-1500:]))
        for o in opts:
            ok, stage, msg, exe = runner.build(d, "m.ddp", opt=o, extra_objs=[os.path.join(d, "callee.o"), os.path.join(d, "cases.o")], forkmain=True)
            if not ok:
                out["fail"] = (o, stage, msg)
                return g, gi, out
            try:
                pr_ = subprocess.run([exe], stdin=subprocess.DEVNULL, stdout=subprocess.PIPE, stderr=subprocess.PIPE, timeout=20 + 11 * len(g))
            except subprocess.TimeoutExpired:
                raise Infra("forking driver timed out")
            data, pos, rr = pr_.stdout, 0, []
            while pos < len(data):
                nl = data.index(b"\n", pos)
                hdr = data[pos:nl].decode().split()
                if hdr[0] != "@@case":
                    break
                code, no, ne = int(hdr[2]), int(hdr[3]), int(hdr[4])
                rr.append(dict(code=code, out=data[nl + 1:nl + 1 + no].decode("utf-8", "replace"), err=data[nl + 1 + no:nl + 1 + no + ne].decode("utf-8", "replace")))
                pos = nl + 1 + no + ne
            if len(rr) != len(g):
                raise Infra("forking driver answered %d of %d cases: %s" % (len(rr), len(g), pr_.stderr[-300:]))
            out["runs"][o] = rr
            # whole-run ledger (sequential main)
            ok, stage, msg, exe2 = runner.build(d, "m_seq.ddp", opt=o, extra_objs=[os.path.join(d, "callee.o")])
            if not ok:
                out["fail"] = (o, stage, msg)
                return g, gi, out
            out["ledgers"][o] = runner.execute(exe2, ledger=True, timeout=60)
            if out["ledgers"][o]["code"] != 0 or out["ledgers"][o]["timeout"]:
                out["seqfail"] = (o, out["ledgers"][o]["code"], out["ledgers"][o]["err"][-300:])
        return g, gi, out

    with ThreadPoolExecutor(max_workers=12) as ex:
        done = list(ex.map(one, list(enumerate(groups))))
    recs, meta, heap, hmeta = [], [], [], []
    for g, gi, out in done:
        if out["fail"]:
            o, stage, msg = out["fail"]
            ck.fail("C18:build:%s" % stage, "driver group %d does not build at -O%d (%s): %s" % (gi, o, stage, msg[-600:]), dict(files=out["files"]))
            continue
        if out.get("seqfail"):
            o_, code_, err_ = out["seqfail"]
            ck.fail("C18:seq:abnormal-end:g%d:O%d" % (gi, o_), "driver group %d run as one program ends abnormally at -O%d (exit %s): %s" % (gi, o_, code_, err_), dict(files=out["files"], opt=o_))
        for o in opts:
            for k, c in enumerate(g):
                sig = sigs[c[0]]
                rr = out["runs"][o][k]
                ev = dict(e="ffi", sig=sig, args=[enc(p["k"], v) for p, v in zip(sig["params"], c[1])], saw=[], after=[], res="-", failed=False)
                note = ""
                if rr["code"] != 0:
                    ev["failed"], note = True, "exit %d %s" % (rr["code"], rr["err"][:200])
                else:
                    try:
                        text = rr["out"]
                        if c[3] and "R " in text:      # the inner callee printed its own frame first: the outer frame starts at the last "P " before "R "
                            text = text[text.rindex("P ", 0, text.index("R ")):]
                        ev["saw"], ev["res"], ev["after"] = observe(sig, text)
                    except Garbled as e:
                        ev["failed"], note = True, "unreadable output (%s): %s" % (e, rr["out"][:300])
                meta.append((c, o, gi, k, note, out["files"], rr["out"]))
                recs.append(ev)
            led = out["ledgers"][o]
            hmeta.append((len(heap), gi, o, out["files"]))
            heap.append(dict(e="reset", id="C18-%d-O%d" % (gi, o)))
            heap += vlib.read_ledger(led["ledger"])
            heap.append(dict(e="end", normal=(led["code"] == 0 and not led["timeout"])))
    # extern calls in loop headers and other contexts that are evaluated repeatedly or left early: only the ledger is judged
    ctx_sigs = [i for i, s_ in enumerate(sigs) if s_["ret"] == "Z" and not s_["steal"] and s_["params"] and not any(p["ref"] for p in s_["params"])
                and any(p["k"] not in PRIM for p in s_["params"])][:8]
    if ctx_sigs:
        lines, n = [], 0
        for i in ctx_sigs:
            s_ = sigs[i]
            args = [VALUES[p["k"]][-1] for p in s_["params"]]
            for j, (p, v) in enumerate(zip(s_["params"], args)):
                lines.append("%s %s c%d_%d ist %s." % (TY[p["k"]][1], TY[p["k"]][0], n, j, dlit(p["k"], v)))
            callv = "(ffi_%d %s)" % (i, " ".join("c%d_%d" % (n, j) for j in range(len(args))))
            callt = "(ffi_%d %s)" % (i, " ".join(dlit(p["k"], v) for p, v in zip(s_["params"], args)))
            # the callee returns -2: "(call plus ci) kleiner als 1" holds for ci = 0, 1, 2
            lines += ["Die Zahl ci%d ist 0." % n,
                      "Solange (%s plus ci%d) kleiner als 1 ist, mache:" % (callv, n), "\tErhöhe ci%d um 1." % n,
                      "Speichere 0 in ci%d." % n,
                      "Mache:", "\tErhöhe ci%d um 1." % n, "Solange (%s plus ci%d) kleiner als 1 ist." % (callt, n),
                      "Speichere 0 in ci%d." % n,
                      "Solange ci%d kleiner als 3 ist und %s ungleich 12345 ist, mache:" % (n, callv), "\tErhöhe ci%d um 1." % n,
                      "Wenn %s kleiner als 0 ist, dann:" % callv, "\tSpeichere 7 in ci%d." % n,
                      "Für jede Zahl cj%d von 1 bis (%s plus 4), mache:" % (n, callv), "\tSpeichere cj%d in ci%d." % (n, n),
                      "Für jede Zahl ck%d von 1 bis 2 mit Schrittgröße (%s plus 3), mache:" % (n, callt), "\tSpeichere ck%d in ci%d." % (n, n),
                      "Mache:", "\tWenn ci%d größer als 0 ist, verlasse die Schleife." % n, "\tErhöhe ci%d um 1." % n, "Solange %s ungleich 12345 ist." % callv,
                      "Wiederhole:", "\tWenn %s gleich 12345 ist, verlasse die Schleife." % callv, "(%s plus 4) Mal." % callt, ""]
            n += 1
        csrc = C_PRELUDE + "\n" + "\n".join("\n".join(c_callee("ffi_%d" % i, sigs[i], protos[i])) for i in ctx_sigs) + "\n"
        decls = sum((ddp_decl("ffi_%d" % i, sigs[i], False) for i in ctx_sigs), [])
        # once at the top level of the module and once inside a function (scopes end differently)
        body = ["Die Funktion kontexte gibt nichts zurück, macht:"] + ["\t" + l for l in lines if l] + ["Und kann so benutzt werden:", '\t"laufe durch die kontexte"', ""]
        top = [l.replace("ci", "di").replace("cj", "dj").replace("ck", "dk").replace(" c", " d").replace("(c", "(d") if not l.startswith("\t") or True else l for l in lines]
        files = {"m.ddp": 'Binde "Duden/Ausgabe" ein.\n\n' + PRELUDE_TYPES + "\n" + "\n".join(decls) + "\n" + "\n".join(body) + "\n" + "\n".join(lines) + "\nlaufe durch die kontexte.\n", "callee.c": csrc}
        d = runner.newdir()
        for f, t in files.items():
            with open(os.path.join(d, f), "w") as fh:
                fh.write(t)
        pcc = subprocess.run(["gcc", "-c", "-O1", "-I", inc, "callee.c", "-o", "callee.o"], cwd=d, stdout=subprocess.PIPE, stderr=subprocess.STDOUT, text=True)
        if pcc.returncode != 0:
            raise Infra("generated C does not compile (contexts): %s" % pcc.stdout[-1500:])
        for o in opts:
            ok, stage, msg, exe = runner.build(d, "m.ddp", opt=o, extra_objs=[os.path.join(d, "callee.o")])
            if not ok:
                raise Infra("the loop-header context program does not build (%s): %s" % (stage, msg[-800:]))
            led = runner.execute(exe, ledger=True, timeout=60)
            if led["code"] != 0 or led["timeout"]:
                ck.fail("C18:contexts:abnormal-end:O%d" % o, "the program calling extern functions from loop headers ends abnormally at -O%d (exit %s%s): %s" % (
                    o, led["code"], ", time-out" if led["timeout"] else "", led["err"][-300:]), dict(files=files, opt=o))
            hmeta.append((len(heap), "contexts", o, files))
            heap.append(dict(e="reset", id="C18-contexts-O%d" % o))
            heap += vlib.read_ledger(led["ledger"])
            heap.append(dict(e="end", normal=(led["code"] == 0 and not led["timeout"])))
        ck.cov["loop_header_contexts"] = len(ctx_sigs) * 6
    res, st = validate_monitor("FFITrace", "t.cfg", ["ffi"], recs, procs=12, sets=("bad",), extra_files={"t.cfg": T_CFG}, is_start=lambda r: True)
    ck.cov["states"] = st["distinct"]; ck.cov["transitions"] = st["generated"]
    ck.cov["tlc_runs"].append(dict(name="FFITrace", lines=st["lines"], wall_s=round(st["wall"], 1)))
    seen = {}
    for i in res["bad"]:
        c, o, gi, k, note, files, outtxt = meta[i]
        sig = sigs[c[0]]
        ev = recs[i]
        what = "failed" if ev["failed"] else ("saw" if ev["saw"] != ev["args"] else ("result" if True else ""))
        key = "C18:%s:O%d" % (sigkey(sig), o)
        if key in seen:
            continue
        seen[key] = 1
        ck.fail(key, "extern %s, arguments %r (%s), %s module, -O%d: callee saw %r, result %r, afterwards %r %s - FFI.tla says otherwise" % (
            protos[c[0]], c[1], "temporaries" if c[2] else "variables", "importing" if gi % 2 else "declaring", o, ev["saw"], ev["res"], ev["after"], note),
            dict(signature=sig, prototype=protos[c[0]], args=c[1], temps=c[2], opt=o, event=ev, output=outtxt, files=files, case="fall_%d" % k))
    # 3. ownership: the ledger of the whole runs
    import c05
    hres, hst = validate_monitor("HeapTrace", "t.cfg", ["own"], heap, procs=12, sets=("bad",), extra_files={"t.cfg": c05.T_CFG})
    ck.cov["tlc_runs"].append(dict(name="HeapTrace", lines=hst["lines"], wall_s=round(hst["wall"], 1)))
    starts = [h[0] for h in hmeta]
    import bisect
    hseen = set()
    for i in hres["bad"]:
        j = bisect.bisect_right(starts, i) - 1
        _, gi, o, files = hmeta[j]
        if (gi, o) in hseen:
            continue
        hseen.add((gi, o))
        ck.fail("C18:heap:g%s:O%d" % (gi, o), "driver group %s at -O%d: the allocation ledger is not a behaviour of Heap.tla at event %r (argument or result not released exactly once)" % (gi, o, heap[i]),
                dict(files=files, opt=o, event=heap[i]))
    ck.cov["traces_validated_against_impl"] = len(recs) + len(hmeta)
    ck.cov["evaluations"] = len(recs)
    ck.cov["distinct_nontrivial"] = len(sigs)
    ck.cov["signatures"] = len(sigs)
    ck.cov["arity_histogram"] = {str(n): sum(1 for s in sigs if len(s["params"]) == n) for n in range(0, 7)}
    ck.cov["ledger_events"] = len(heap)
    if recs:
        ck.sample(dict(prototype=protos[meta[0][0][0]], event=recs[0]))
    ck.cov["rule"] = "all signatures of arity 0 and 1 over 11 kinds x {value, Referenz} x 12 results, moved results, a seeded sample (quick) / all (thorough) of arity 2 and a seeded sample of arity 3..6; " \
                     "each with seeded boundary values, arguments passed as variables and as temporaries, declared in the calling module (even groups) or an imported one (odd groups), at the tier's -O levels"
    ck.assumptions += ["the C prototype is the one FFI!ProtoText states; the callee is compiled by gcc against lib/runtime/include of the tree",
                       "Variable lists, lists of Kombinationen and generic extern functions are not generated"]
    return ck.finish(exhaustive=False)
