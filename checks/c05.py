"""C05 - Compiled programs release every heap block exactly once.   DESIGN.md §4 C05
The allocation ledger (link-time --wrap of ddp_reallocate) of generated programs at -O0/-O1/-O2 is validated by
HeapTrace.tla (exactly-once release, true sizes, only live blocks); the same programs run against the ASan-built
runtime/stdlib: any sanitizer report is an event the specification has no action for."""
import json, os, re
import vlib, ddp, semrun, semgen, corpus
from vlib import Check, Infra, validate_monitor

T_CFG = """SPECIFICATION Spec
CONSTANTS
  TraceFile = "trace.ndjson"
INVARIANTS Report
POSTCONDITION Accepted
CHECK_DEADLOCK FALSE
"""


def path_cases(rng):
    """ownership roles x exit paths, data-driven so that the path is really taken"""
    from semgen import Case, var, setv, lvid, ident, lit, T, Z, L, TT, TZ, TL, TS, bin_, zl, call, acc_init, acc_add, as_text, if_, BRK, CONT, RET, new, idx_lv, un, TW, W
    cs = []
    LT3 = lit(L(TT, [T("eins"), T("zwei"), T("drei")]))
    for k in (0, 1, 2, 3, 9):
        body = [var("tmp", TT, bin_("cat", ident("e"), lit(T("!"))), False), if_(bin_("eq", ident("ix"), zl(k)), [BRK]), acc_add(ident("tmp"))]
        cs.append(Case("path:each-break:%d" % k, ident("acc"), TT, acc_init() + [{"k": "foreach", "v": "e", "t": TT, "idx": "ix", "in": LT3, "body": body}]))
        body = [var("tmp", TT, bin_("cat", ident("e"), lit(T("!"))), False), if_(bin_("eq", ident("ix"), zl(k)), [CONT]), acc_add(ident("tmp"))]
        cs.append(Case("path:each-continue:%d" % k, ident("acc"), TT, acc_init() + [{"k": "foreach", "v": "e", "t": TT, "idx": "ix", "in": LT3, "body": body}]))
        cs.append(Case("path:return-in-each:%d" % k, call("finde", [("l", LT3), ("x", lit(T(["zwei", "eins", "drei", "nix", ""][k % 5])))]), TZ))
        body = [var("tmp", TL(TT), bin_("cat", LT3, as_text(ident("j"))), False), if_(bin_("eq", ident("j"), zl(k)), [BRK]), acc_add(bin_("idx", ident("tmp"), zl(4)))]
        cs.append(Case("path:while-break:%d" % k, ident("acc"), TT, acc_init() + [var("j", TZ, zl(0), False), {"k": "while", "c": bin_("lt", ident("j"), zl(4)), "body": [setv(lvid("j"), bin_("plus", ident("j"), zl(1)))] + body}]))
    # short-circuited operands holding temporaries, discarded results, unused temporaries
    cs.append(Case("path:shortcircuit-and", bin_("and", lit(W(False)), bin_("eq", bin_("cat", lit(T("a")), lit(T("b"))), lit(T("ab")))), TW))
    cs.append(Case("path:shortcircuit-or", bin_("or", lit(W(True)), bin_("eq", bin_("cat", lit(T("a")), lit(T("b"))), lit(T("ab")))), TW))
    cs.append(Case("path:and-evaluated", bin_("and", lit(W(True)), bin_("eq", bin_("cat", lit(T("a")), lit(T("b"))), lit(T("ab")))), TW))
    cs.append(Case("path:discarded-call", zl(1), TZ, [{"k": "expr", "e": call("text_zurueck", [("t", lit(T("weg")))])}, {"k": "expr", "e": call("liste_zurueck", [("n", zl(3))])}]))
    cs.append(Case("path:falls-temporaries", {"k": "ter", "op": "falls", "l": bin_("cat", lit(T("ja")), lit(T("!"))), "m": lit(W(False)), "r": bin_("cat", lit(T("nein")), lit(T("?")))}, TT))
    cs.append(Case("path:concat-empty-right-temp-left", call("text_zurueck", [("t", bin_("cat", bin_("cat", lit(T("Hallo ")), lit(T("Bert"))), lit(T(""))))]), TT))
    cs.append(Case("path:concat-empty-left", bin_("cat", lit(T("")), bin_("cat", lit(T("x")), lit(T("y")))), TT))
    cs.append(Case("path:nested-struct-temp", {"k": "fld", "f": "wort", "e": {"k": "fld", "f": "paar", "e": new("Kiste", inhalt=lit(L(TZ, [Z(1)])), paar=new("Paar", zahl=zl(1), wort=lit(T("tief"))), flag=lit(W(True)))}}, TT))
    cs.append(Case("path:index-of-temp-list", bin_("idx", bin_("cat", LT3, lit(T("vier"))), zl(4)), TT))
    cs.append(Case("path:slice-of-temp", {"k": "ter", "op": "slice", "l": bin_("cat", LT3, LT3), "m": zl(2), "r": zl(5)}, TL(TT)))
    return cs


def run(tier):
    ck = Check("C05", tier)
    rng = vlib.rng("c05")
    cases = path_cases(rng) + semgen.ownership_cases(tier, rng) + semgen.copy_cases(tier, rng) + semgen.stmt_cases(tier, rng)
    th = semgen.text_history_cases("quick", rng)
    cases += rng.sample(th, 60 if tier == "quick" else len(th))
    structural = [c for c in semgen.optable(tier, rng) if c.key.split(":")[0] in ("struct", "var", "std", "cast") or ":cat:" in c.key or ":l" in c.key or "slice" in c.key]
    cases += structural if tier == "thorough" else rng.sample(structural, min(len(structural), 250))
    sigs = semrun.plan_cases(ck, cases, funcs=semgen.OWN_FUNCS, nearly=semgen.OWN_GLOBALS, label="C05 plan")
    okc = [c for c, s in zip(cases, sigs) if s == "ok"]
    ck.cov["unspecified_or_failing_skipped"] = len(cases) - len(okc)
    per = 10
    batches = [okc[i:i + per] for i in range(0, len(okc), per)]
    progs = [semgen.batch_program(b, "C05-%d" % i, funcs=semgen.OWN_FUNCS, nearly_stmts=semgen.OWN_GLOBALS) for i, b in enumerate(batches)]
    srcs = [ddp.render(p) for p in progs]
    runner = ddp.Runner()
    opts = (0, 2) if tier == "quick" else (0, 1, 2)
    results = runner.run_sources(srcs, opts=opts, ledger=True)
    asan_idx = list(range(len(srcs))) if tier == "thorough" else list(range(0, len(srcs), 2))
    asan_res = runner.run_sources([srcs[i] for i in asan_idx], opts=(2,) if tier == "quick" else (0, 2), asan=True)
    recs, meta = [], []
    for i, (b, r) in enumerate(zip(batches, results)):
        for o in opts:
            if o in r["fail"]:
                ck.cov.setdefault("not_compiled", []).append(b[0].key)
                continue
            rr = r["runs"][o]
            meta.append((len(recs), i, "O%d" % o, "ledger"))
            recs.append(dict(e="reset", id="C05-%d-O%d" % (i, o)))
            recs += vlib.read_ledger(rr["ledger"])
            recs.append(dict(e="end", normal=(rr["code"] == 0 and not rr["timeout"])))
            if rr["code"] != 0:
                ck.fail("C05:crash:%s:O%d" % (b[0].key, o), "a program expected to terminate normally ended with status %s: %s" % (rr["code"], rr["err"][-300:]), dict(cases=[c.key for c in b], source=srcs[i]))
    for j, r in zip(asan_idx, asan_res):
        for o, rr in r["runs"].items():
            meta.append((len(recs), j, "O%d" % o, "asan"))
            recs.append(dict(e="reset", id="C05-%d-asan-O%d" % (j, o)))
            m = re.search(r"ERROR: (AddressSanitizer|LeakSanitizer): ([\w-]+)", rr["err"])
            if m:
                recs.append(dict(e="asan", kind=m.group(1) + ":" + m.group(2), detail=rr["err"][:1500]))
            elif rr["code"] != 0:
                recs.append(dict(e="asan", kind="abnormal-exit:%s" % rr["code"], detail=rr["err"][:800]))
            recs.append(dict(e="end", normal=False))
    res, st = validate_monitor("HeapTrace", "t.cfg", ["own"], recs, procs=14, sets=("bad",), extra_files={"t.cfg": T_CFG})
    ck.cov["states"] += st["distinct"]; ck.cov["transitions"] += st["generated"]
    ck.cov["traces_validated_against_impl"] = len(meta)
    ck.cov["evaluations"] = len(meta)
    ck.cov["distinct_nontrivial"] = len(okc)
    ck.cov["allocator_calls_checked"] = sum(1 for r in recs if r["e"] == "h")
    ck.cov["asan_runs"] = sum(1 for m in meta if m[3] == "asan")
    ck.cov["tlc_runs"].append(dict(name="HeapTrace", lines=st["lines"], wall_s=round(st["wall"], 1)))
    import bisect
    starts = [m[0] for m in meta]
    seen = set()
    for i in res["bad"]:
        j = bisect.bisect_right(starts, i) - 1
        _, bi, cfg, mode = meta[j]
        if (bi, cfg, mode) in seen:
            continue
        seen.add((bi, cfg, mode))
        keys = [c.key for c in batches[bi]]
        ev = recs[i]
        what = {"h": "allocator call outside the protocol (double free, foreign pointer or wrong size)", "end": "blocks still live at normal termination (leak)", "asan": "sanitizer report"}[ev["e"]]
        ck.fail("C05:%s:%s:%s" % (mode, keys[0], cfg), "%s in program with cases %s (%s): %s" % (what, keys, cfg, json.dumps(ev)[:700]), dict(cases=keys, cfg=cfg, mode=mode, event=ev, source=srcs[bi]))
    ck.cov["corpus"] = corpus.check_heap(ck, (0, 2) if tier == "quick" else (0, 1, 2), subset=("kddp" if tier == "quick" else "all"))
    ck.cov["traces_validated_against_impl"] += ck.cov["corpus"]["ledgers_validated"]
    ck.sample(dict(program=batches[0][0].key, ledger_head=[r for r in recs[:8]]))
    ck.cov["rule"] = "ownership-role x exit-path programs + copy matrix + statement skeletons + text histories + structural operator cases, each specified case distinct; ledger at the tier's -O levels, ASan on every (thorough) / every second (quick) program"
    ck.assumptions += ["loads/stores of generated code that go through neither libc nor the runtime are invisible to ASan (the object is not instrumented)"]
    return ck.finish(exhaustive=False)
