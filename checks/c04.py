"""C04 - Statically ill-formed programs are never accepted.   DESIGN.md §4 C04
spec/static/DDPStatic.tla states the static rules (scopes, type rules of every position, Konstanten, loops, final returns, visibility,
articles) over the shared JSON AST.  Well-formed base programs (generated semantic cases, all statement kinds, an imported module with
public and private declarations) are cut into units; into every unit exactly one fault is injected at every applicable site.  TLC decides
for every mutant whether it is ill-formed (a mutant that is still well-formed is dropped, not sent as a fault); the real frontend
(parser.Parse in the fe worker) and, for a sample, kddp give the verdict; StaticTrace.tla requires: ill-formed => rejected, no artefact."""
import copy, json, os
import vlib, ddp, semgen
from ddp import TZ, TK, TBY, TW, TC, TT, TV, TNONE, TL, TS, Z, T, W, K, lit, ident, bin_, call
from semgen import var, setv, lvid, zl, if_, fn, Case
from vlib import Check, Infra, validate_monitor, FEPool

T_CFG = """SPECIFICATION Spec
CONSTANTS
  TraceFile = "trace.ndjson"
INVARIANTS Report
POSTCONDITION Accepted
CHECK_DEADLOCK FALSE
"""
NONE_E = {"k": "none"}

# ------------------------------------------------------------------------------------------ the imported module
LIB = dict(
    structs=[dict(n="Punkt", pub=True, fields=[dict(n="px", t=TZ, pub=True, **{"def": lit(Z(1))}), dict(n="geheim", t=TT, pub=False, **{"def": lit(T("g"))})])],
    globals=[dict(n="lib_zahl", t=TZ, pub=True, c=False, e=lit(Z(10))), dict(n="lib_privat", t=TZ, pub=False, c=False, e=lit(Z(11))),
             dict(n="LIB_K", t=TZ, pub=True, c=True, e=lit(Z(3))), dict(n="LIB_GEHEIM_K", t=TZ, pub=False, c=True, e=lit(Z(4))),
             dict(n="lib_punkt", t=TS("Punkt"), pub=True, c=False, e={"k": "new", "s": "Punkt", "args": []})],
    funcs=[dict(fn("lib_doppelt", [("z", TZ, False)], TZ, [{"k": "ret", "e": bin_("mal", ident("z"), zl(2))}]), pub=True),
           dict(fn("lib_intern", [("z", TZ, False)], TZ, [{"k": "ret", "e": bin_("plus", ident("z"), zl(1))}]), pub=False),
           dict(fn("lib_setze", [("p", TS("Punkt"), True), ("z", TZ, False)], TNONE, [setv({"k": "fld", "f": "px", "l": lvid("p")}, ident("z"))]), pub=True)])
CONSTS = [dict(var("KONST_Z", TZ, lit(Z(5))), c=True), dict(var("KONST_T", TT, lit(T("k"))), c=True)]
# type aliases (transparent) and type definitions (types of their own), declared in the main module
ANZAHL = {"a": "Anzahl", "of": TZ}
MARKE = {"a": "Marke", "of": TS("Punkt")}
HAUS = {"d": "Hausnummer", "of": TZ}
PLZ = {"d": "Postleitzahl", "of": TZ}
TYPEDECLS = ["Wir nennen eine Zahl auch eine Anzahl.", "Wir nennen einen Punkt auch eine Marke.", "Wir definieren eine Hausnummer als eine Zahl.", "Wir definieren eine Postleitzahl als eine Zahl.", ""]
cast_ = lambda to, e: {"k": "cast", "to": to, "l": e}
TYPE_GLOBALS = [var("c04_marke", MARKE, {"k": "new", "s": "Punkt", "args": []}), var("c04_haus", HAUS, cast_(HAUS, zl(5))), var("c04_plz", PLZ, cast_(PLZ, zl(12345)))]
TYPE_FUNCS = [fn("haus_doppelt", [("h", HAUS, False)], HAUS, [{"k": "ret", "e": cast_(HAUS, bin_("mal", cast_(TZ, ident("h")), zl(2)))}]),
              fn("haus_anzahl", [("hl", TL(HAUS), False)], TZ, [{"k": "ret", "e": {"k": "un", "op": "len", "r": ident("hl")}}]),
              fn("zaehle", [("n", ANZAHL, False)], TZ, [{"k": "ret", "e": bin_("plus", ident("n"), zl(1))}])]


def lib_uses_block():
    """a block of the main module that uses every public declaration of the imported module"""
    P = TS("Punkt")
    return {"k": "block", "body": [
        var("c04_p", P, {"k": "new", "s": "Punkt", "args": []}, False),
        var("c04_q", TZ, bin_("plus", bin_("plus", {"k": "fld", "f": "px", "e": ident("c04_p")}, ident("lib_zahl")), bin_("plus", call("lib_doppelt", [("z", zl(2))]), ident("LIB_K"))), False),
        setv({"k": "fld", "f": "px", "l": lvid("c04_p")}, bin_("plus", ident("KONST_Z"), zl(1))),
        {"k": "expr", "e": call("lib_setze", [("p", lvid("c04_p")), ("z", {"k": "fld", "f": "px", "e": ident("lib_punkt")})])},
        {"k": "print", "e": ident("c04_q"), "nl": True},
        {"k": "print", "e": ident("KONST_T"), "nl": True}]}


def render_struct(sd, foreign):
    lines = ["Wir nennen die %sKombination aus" % ("öffentliche " if (foreign and sd.get("pub", True)) else "")]
    for f in sd["fields"]:
        d = "" if f["def"]["k"] == "none" else " mit Standardwert %s" % ddp.rexpr(f["def"])
        pub = "öffentlichen " if (foreign and f.get("pub", True)) else ""
        lines.append("\t%s %s%s %s%s," % ({"f": "der", "m": "dem", "n": "dem"}[ddp.tgender(f["t"])], pub, ddp.tname(f["t"]), f["n"], d))
    alias = "ein %s mit %s" % (sd["n"], " und ".join("%s gleich <%s>" % (f["n"], f["n"]) for f in sd["fields"]))
    lines.append('einen %s, und erstellen sie so:\n\t"%s" oder\n\t"ein leerer %s"' % (sd["n"], alias, sd["n"]))
    lines.append("")
    return lines


def render_lib(lib):
    lines = ['Binde "Duden/Ausgabe" ein.', ""]
    for sd in lib["structs"]:
        lines += render_struct(sd, True)
    for g in lib["globals"]:
        pub = "öffentliche " if g["pub"] else ""
        if g["c"]:
            lines.append("Die %sKonstante %s ist %s." % (pub, g["n"], ddp.rexpr(g["e"])))
        else:
            lines.append("%s %s%s %s ist %s." % (ddp.article(g["t"]), pub, ddp.tname(g["t"]), g["n"], ddp.rexpr(g["e"])))
    lines.append("")
    for f in lib["funcs"]:
        lines += ddp.rfuncs([f], public=f["pub"])
    return "\n".join(lines) + "\n"


def generic_view(f):
    """the generic spelling of a function that DDPStatic sees specialised: every occurrence of the type f["genview"] in the parameter
    types, the return type and the declared types of the body is written as the type parameter T"""
    conc = f["genview"]

    def g(x):
        if isinstance(x, dict):
            if x == conc:
                return {"g": "T"}
            if x.get("k") in ("lit", "id"):
                return x
            return {k: g(v) for k, v in x.items()}
        if isinstance(x, list):
            return [g(v) for v in x]
        return x
    f2 = dict(f, generic=True)
    f2["params"] = [dict(p_, t=g(p_["t"])) for p_ in f["params"]]
    f2["ret"] = g(f["ret"])

    def body(ss):
        out = []
        for st in ss:
            st = dict(st)
            if st["k"] in ("var", "for", "foreach") and "t" in st:
                st["t"] = g(st["t"])
            for k in ("body", "then", "else"):
                if k in st:
                    st[k] = body(st[k])
            out.append(st)
        return out
    f2["body"] = body(f["body"])
    return f2


def render_main(P):
    if P.get("selective"):
        # only some names of the imported module are imported - NOT the names of their types
        names = P["selective"]
        imp = "Binde %s aus \"c04lib\" ein." % (names[0] if len(names) == 1 else ", ".join(names[:-1]) + " und " + names[-1])
        return "\n".join(['Binde "Duden/Ausgabe" ein.', imp, ""] + ddp.rstmts(P["main"], 0)) + "\n"
    P = dict(P, funcs=[generic_view(f) if f.get("genview") else f for f in P["funcs"]])
    lines = ['Binde "Duden/Ausgabe" ein.', 'Binde "c04lib" ein.', ""] + TYPEDECLS + semgen.TYPEDECLS_SEM
    for sd in P["structs"]:
        lines += render_struct(sd, False)
    n = P["nearly"]
    lines += ddp.rstmts(P["main"][:n], 0) + [""]
    lines += ddp.rfuncs(P["funcs"])
    lines += ddp.rstmts(P["main"][n:], 0)
    return "\n".join(lines) + "\n"


# ------------------------------------------------------------------------------------------ the program for TLC
def sig(f, foreign, pub):
    return dict(n=f["n"], params=[dict(n=p["n"], t=p["t"], ref=bool(p["ref"])) for p in f["params"]], ret=f["ret"], body=[], foreign=foreign, pub=pub, retart=True)


def slim(P, lib, unit):
    """the flattened program of DDPStatic: the imported module's declarations as foreign tables, functions outside the unit as signatures"""
    funcs = [sig(f, True, f["pub"]) for f in lib["funcs"]]
    uname = P["funcs"][unit[1]]["n"] if unit[0] == "func" else None
    for f in P["funcs"]:
        if f["n"] == uname:
            funcs.append(dict(sig(f, False, True), body=f["body"], retart=f.get("retart", True)))
        else:
            funcs.append(sig(f, True, True))      # unchanged and checked as a unit of its own
    structs = [dict(n=s["n"], fields=[dict(n=f["n"], t=f["t"], pub=f["pub"]) for f in s["fields"]], foreign=True, pub=s["pub"]) for s in lib["structs"]]
    structs += [dict(n=s["n"], fields=[dict(n=f["n"], t=f["t"], pub=True) for f in s["fields"]], foreign=False, pub=True) for s in P["structs"]]
    glob = [dict(n=g["n"], t=g["t"], c=bool(g["c"]), vis=bool(g["pub"])) for g in lib["globals"]]
    return dict(structs=structs, funcs=funcs, globals=glob, nearly=P["nearly"], main=P["main"])


# ------------------------------------------------------------------------------------------ sites
def get(P, path):
    x = P
    for k in path:
        x = x[k]
    return x


def put(P, path, val):
    x = get(P, path[:-1])
    x[path[-1]] = val


def sub_lists(s, path):
    """paths of the statement lists directly inside statement s (at path)"""
    for key in ("then", "else", "body"):
        if key in s and isinstance(s[key], list):
            yield path + [key]


def all_lists(P, listpath, depth=0, loops=0):
    """every statement list at and below listpath: (path, depth)"""
    yield listpath, depth
    for i, s in enumerate(get(P, listpath)):
        for lp in sub_lists(s, listpath + [i]):
            yield from all_lists(P, lp, depth + 1)


def expr_sites(e, path, role):
    """every expression node: (path, role, node)"""
    if not isinstance(e, dict) or e.get("k") in (None, "none"):
        return
    yield path, role, e
    k = e["k"]
    if k == "un":
        yield from expr_sites(e["r"], path + ["r"], "operand")
    elif k == "bin":
        yield from expr_sites(e["l"], path + ["l"], "operand")
        yield from expr_sites(e["r"], path + ["r"], "index" if e["op"] in ("idx", "sfrom", "sto") else "operand")
    elif k == "ter":
        yield from expr_sites(e["l"], path + ["l"], "operand")
        yield from expr_sites(e["m"], path + ["m"], "index" if e["op"] == "slice" else ("cond" if e["op"] == "falls" else "operand"))
        yield from expr_sites(e["r"], path + ["r"], "index" if e["op"] == "slice" else "operand")
    elif k in ("cast", "tchk"):
        yield from expr_sites(e["l"], path + ["l"], "operand")
    elif k == "fld":
        if "l" in e:
            yield from expr_sites(e["l"], path + ["l"], "target")      # the base of an assignable stays an assignable
        else:
            yield from expr_sites(e["e"], path + ["e"], "operand")
    elif k == "idx":
        yield from expr_sites(e["l"], path + ["l"], "target")
        yield from expr_sites(e["i"], path + ["i"], "index")
    elif k == "list":
        for i, v in enumerate(e["vals"]):
            yield from expr_sites(v, path + ["vals", i], "operand")
    elif k == "fill":
        yield from expr_sites(e["n"], path + ["n"], "bound")
        yield from expr_sites(e["v"], path + ["v"], "operand")
    elif k in ("call", "new"):
        for i, a in enumerate(e["args"]):
            yield from expr_sites(a["e"], path + ["args", i, "e"], "argument")


def stmt_expr_sites(P, listpath):
    for i, s in enumerate(get(P, listpath)):
        p = listpath + [i]
        k = s["k"]
        if k == "var":
            if s["e"].get("k") == "fill":
                yield from expr_sites(s["e"]["n"], p + ["e", "n"], "bound")
                yield from expr_sites(s["e"]["v"], p + ["e", "v"], "init")
            else:
                yield from expr_sites(s["e"], p + ["e"], "init")
        elif k in ("set", "cset"):
            yield from expr_sites(s["e"], p + ["e"], "assign" if k == "set" else "operand")
            yield from expr_sites(s["lv"], p + ["lv"], "target")
        elif k == "print":
            yield from expr_sites(s["e"], p + ["e"], "argument")
        elif k == "expr":
            for j, a in enumerate(s["e"].get("args", [])):
                yield from expr_sites(a["e"], p + ["e", "args", j, "e"], "argument")
        elif k in ("if", "while", "dowhile"):
            yield from expr_sites(s["c"], p + ["c"], "cond")
        elif k == "repeat":
            yield from expr_sites(s["n"], p + ["n"], "bound")
        elif k == "for":
            for key in ("from", "to", "step"):
                yield from expr_sites(s[key], p + [key], "bound")
        elif k == "foreach":
            yield from expr_sites(s["in"], p + ["in"], "bound")
        elif k == "ret":
            yield from expr_sites(s["e"], p + ["e"], "return")
        for lp in sub_lists(s, p):
            yield from stmt_expr_sites(P, lp)


WRONG = [lit(T("falscher typ")), lit(W(True)), lit(ddp.L(TZ, [Z(1), Z(2)])), zl(7), cast_(PLZ, zl(7))]


def mutants_of(P, unit, rng, lib):
    """[(class, operation)] - every fault class at every site of the unit.  operation: ("replace", path, node) | ("insert", listpath, index, stmt)
    | ("delete", listpath, index) | ("set", path, value) | ("lib", kind, index, [field index])"""
    out = []
    root = ["main"] if unit[0] == "block" else ["funcs", unit[1], "body"]
    lists = []
    if unit[0] == "block":
        blk = ["main", P["nearly"]]
        lists.append((["main"], 0))
        lists += list(all_lists(P, blk + ["body"], 1))
        sites = list(stmt_expr_sites(P, blk + ["body"]))
    else:
        fi = unit[1]
        lists += list(all_lists(P, ["funcs", fi, "body"], 1))
        sites = list(stmt_expr_sites(P, ["funcs", fi, "body"]))
    # 1. wrong type at every typed position / undeclared name at every name
    for path, role, node in sites:
        if role != "target":
            for w in WRONG:
                out.append(("type:" + role, ("replace", path, w)))
        if node["k"] == "id":
            out.append(("undeclared", ("replace", path, dict(node, n="unbekannt_" + node["n"]))))
            if unit[0] == "func":
                # declared only after the function (and, for a generic function, in the block of the call): not in the scope of the body
                gen = bool(P["funcs"][unit[1]].get("genview"))
                for later in ("SPAETER_K", "spaeter_v"):
                    out.append(("undeclared:later-global" + (":generic-body" if gen else ""), ("replace", path, dict(node, n=later))))
                if gen:
                    for later in ("LOKAL_K", "lokal_v"):
                        out.append(("undeclared:local-of-the-call-site:generic-body", ("replace", path, dict(node, n=later))))
    # 2. statements inserted at every position of every statement list
    PRIV = TS("Punkt")
    ins = [("const:assign", setv(lvid("KONST_Z"), zl(1))), ("const:assign-imported", setv(lvid("LIB_K"), zl(1))),
           ("const:referenz", {"k": "expr", "e": call("plus_eins", [("z", lvid("KONST_Z"))])}),
           ("const:referenz-text", {"k": "expr", "e": call("haenge_an", [("t", lvid("KONST_T")), ("s", lit(T("!")))])}),
           ("loop:break", {"k": "break"}), ("loop:continue", {"k": "continue"}),
           ("nonpublic:function", var("c04_tmp", TZ, call("lib_intern", [("z", zl(1))]), False)),
           ("nonpublic:variable", var("c04_tmp", TZ, ident("lib_privat"), False)),
           ("nonpublic:constant", var("c04_tmp", TZ, ident("LIB_GEHEIM_K"), False)),
           ("nonpublic:variable-assign", setv(lvid("lib_privat"), zl(1))),
           ("nonpublic:field-read", var("c04_tmp", TT, {"k": "fld", "f": "geheim", "e": ident("lib_punkt")}, False)),
           ("nonpublic:field-assign", setv({"k": "fld", "f": "geheim", "l": lvid("lib_punkt")}, lit(T("x")))),
           ("nonpublic:field-referenz", {"k": "expr", "e": call("haenge_an", [("t", {"k": "fld", "f": "geheim", "l": lvid("lib_punkt")}), ("s", lit(T("!")))])}),
           ("nonpublic:field-read-through-alias", var("c04_tmp", TT, {"k": "fld", "f": "geheim", "e": ident("c04_marke")}, False)),
           ("nonpublic:field-assign-through-alias", setv({"k": "fld", "f": "geheim", "l": lvid("c04_marke")}, lit(T("x")))),
           ("nonpublic:field-referenz-through-alias", {"k": "expr", "e": call("haenge_an", [("t", {"k": "fld", "f": "geheim", "l": lvid("c04_marke")}), ("s", lit(T("!")))])}),
           ("type:typedef-as-number", var("c04_tmp", TZ, bin_("plus", ident("c04_haus"), zl(1)), False)),
           ("type:typedef-mixed", setv(lvid("c04_haus"), ident("c04_plz"))),
           ("type:typedef-argument", var("c04_tmp", HAUS, call("haus_doppelt", [("h", ident("c04_plz"))]), False)),
           ("undeclared:statement", setv(lvid("nie_deklariert"), zl(1)))]
    for lp, depth in lists:
        n = len(get(P, lp))
        lo = P["nearly"] if lp == ["main"] else 0
        for pos in range(lo, n + 1):
            last_is_ret = pos == n and n > 0 and get(P, lp)[n - 1]["k"] == "ret"
            if last_is_ret:
                continue                 # statements after a return: not the fault under test
            for cls, st in ins:
                out.append(("%s:depth%d" % (cls, min(depth, 3)), ("insert", lp, pos, st)))
    # 3. scopes: redeclaration right after every declaration, use after the end of the declaring block
    for lp, depth in lists:
        L = get(P, lp)
        for i, s in enumerate(L):
            if lp == ["main"] and i < P["nearly"]:
                continue
            if s["k"] == "var":
                out.append(("redeclared:variable:depth%d" % min(depth, 3), ("insert", lp, i + 1, dict(copy.deepcopy(s), art=True))))
            if s["k"] in ("for", "foreach"):
                out.append(("redeclared:loop-variable", ("insert", lp + [i, "body"], 0, var(s["v"], s["t"], semgen_default(s["t"]), False))))
            inner = []
            for sl in sub_lists(s, lp + [i]):
                inner += [x for x in get(P, sl) if x["k"] == "var"]
            if s["k"] in ("for", "foreach"):
                inner.append(dict(n=s["v"], t=s["t"]))
            for d in inner[:2]:
                out.append(("out-of-scope:depth%d" % min(depth, 3), ("insert", lp, i + 1, setv(lvid(d["n"]), ident(d["n"])))))
    if unit[0] == "func":
        f = P["funcs"][unit[1]]
        for p in f["params"]:
            if not p["ref"]:
                out.append(("redeclared:parameter", ("insert", ["funcs", unit[1], "body"], 0, var(p["n"], p["t"], semgen_default(p["t"]), False))))
        # 4. final return
        if f["ret"] != TNONE and f["body"] and f["body"][-1]["k"] == "ret":
            n = len(f["body"])
            out.append(("missing-return:removed", ("delete", ["funcs", unit[1], "body"], n - 1)))
            out.append(("missing-return:conditional", ("replace", ["funcs", unit[1], "body", n - 1], if_(lit(W(True)), [f["body"][-1]]))))
            out.append(("missing-return:in-block", ("replace", ["funcs", unit[1], "body", n - 1], {"k": "block", "body": [f["body"][-1]]})))
            out.append(("missing-return:statement-after", ("insert", ["funcs", unit[1], "body"], n, {"k": "print", "e": lit(T("nach der rueckgabe")), "nl": True})))
        if f["ret"] != TNONE and not (f.get("genview") and mentions(f["ret"], f["genview"])):
            out.append(("article:return-type", ("set", ["funcs", unit[1], "retart"], False)))
        out.append(("redeclared:function", ("dupfunc", unit[1])))
    # 5. articles
    for lp, depth in lists:
        for i, s in enumerate(get(P, lp)):
            if lp == ["main"] and i < P["nearly"]:
                continue
            gv = P["funcs"][unit[1]].get("genview") if unit[0] == "func" else None
            if gv and s["k"] in ("var", "for", "foreach") and mentions(s.get("t"), gv):
                continue      # the grammatical gender of a type parameter is not defined: no article rule to break
            if s["k"] in ("var", "for", "foreach"):
                out.append(("article:%s" % ("constant" if s.get("c") else {"var": "variable", "for": "for", "foreach": "foreach"}[s["k"]]), ("set", lp + [i, "art"], False)))
    # 6. visibility of the imported declarations (only in the unit that uses them)
    if unit[0] == "block" and unit[2]:
        for i, s in enumerate(lib["structs"]):
            out.append(("nonpublic:type-flip", ("lib", "structs", i, None)))
            for j, f in enumerate(s["fields"]):
                if f["pub"]:
                    out.append(("nonpublic:field-flip", ("lib", "structs", i, j)))
        for i, g in enumerate(lib["globals"]):
            if g["pub"]:
                out.append(("nonpublic:%s-flip" % ("constant" if g["c"] else "variable"), ("lib", "globals", i, None)))
        for i, f in enumerate(lib["funcs"]):
            if f["pub"]:
                out.append(("nonpublic:function-flip", ("lib", "funcs", i, None)))
    return out


def mentions(t, conc):
    return t == conc or (isinstance(t, dict) and "l" in t and mentions(t["l"], conc))


def semgen_default(t):
    if "a" in t:
        return semgen_default(t["of"])
    if "d" in t:
        return cast_(t, semgen_default(t["of"]))
    if "l" in t:
        return lit(ddp.L(t["l"], []))
    if "s" in t:
        return {"k": "new", "s": t["s"], "args": []}
    return {"Z": zl(0), "K": lit(K(0)), "B": lit(ddp.B(0)), "W": lit(W(False)), "C": lit(ddp.C("x")), "T": lit(T("")), "V": {"k": "cast", "to": TV, "l": zl(0)}}[t["b"]]


def apply(P, lib, op):
    P, lib = copy.deepcopy(P), copy.deepcopy(lib)
    kind = op[0]
    if kind == "replace":
        put(P, op[1], copy.deepcopy(op[2]))
    elif kind == "insert":
        get(P, op[1]).insert(op[2], copy.deepcopy(op[3]))
    elif kind == "delete":
        del get(P, op[1])[op[2]]
    elif kind == "set":
        put(P, op[1], op[2])
    elif kind == "dupfunc":
        P["funcs"].insert(op[1] + 1, copy.deepcopy(P["funcs"][op[1]]))
    elif kind == "lib":
        d = lib[op[1]][op[2]]
        if op[3] is not None:
            d["fields"][op[3]]["pub"] = False
        else:
            d["pub"] = False
    return P, lib


# ------------------------------------------------------------------------------------------ base programs
def statement_zoo():
    """hand-written cases: every statement kind, nesting depth 3, declarations at every depth"""
    LZ = TL(TZ)
    deep = [var("a", TZ, zl(1), False),
            {"k": "for", "v": "i", "t": TZ, "from": zl(1), "to": zl(3), "step": NONE_E, "body": [
                var("b", TT, lit(T("x")), False),
                {"k": "while", "c": bin_("lt", ident("a"), zl(3)), "body": [
                    var("c", TW, lit(W(True)), False),
                    if_(ident("c"), [var("d", TZ, bin_("plus", ident("a"), ident("i")), False), setv(lvid("a"), bin_("plus", ident("d"), zl(1))), {"k": "continue"}],
                        [setv(lvid("b"), bin_("cat", ident("b"), lit(T("y")))), {"k": "break"}])]}]},
            {"k": "foreach", "v": "e", "t": TZ, "idx": "ix", "in": lit(ddp.L(TZ, [Z(4), Z(5)])), "body": [
                {"k": "repeat", "n": zl(2), "body": [var("r", TZ, bin_("mal", ident("e"), ident("ix")), False), setv(lvid("a"), bin_("plus", ident("a"), ident("r")))]}]},
            {"k": "dowhile", "c": bin_("lt", ident("a"), zl(0)), "body": [setv(lvid("a"), bin_("minus", ident("a"), zl(1)))]},
            {"k": "block", "body": [var("a", TT, lit(T("schatten")), False), {"k": "print", "e": ident("a"), "nl": True}]},
            {"k": "for", "v": "k", "t": TK, "from": lit(K(1, 1)), "to": zl(2), "step": lit(K(1, 1)), "body": [setv(lvid("a"), bin_("plus", ident("a"), zl(1)))]}]
    cs = [Case("zoo:nesting", ident("a"), TZ, deep)]
    cs.append(Case("zoo:lists", bin_("idx", ident("l"), zl(1)), TZ, [var("l", LZ, {"k": "fill", "n": zl(3), "v": zl(7)}, False),
                                                                    setv({"k": "idx", "l": lvid("l"), "i": zl(2)}, bin_("plus", bin_("idx", ident("l"), zl(1)), zl(1))),
                                                                    {"k": "expr", "e": call("plus_eins", [("z", {"k": "idx", "l": lvid("l"), "i": zl(3)})])}]))
    cs.append(Case("zoo:aliases-and-definitions", ident("z2"), TZ, [
        var("n1", ANZAHL, zl(5), False), var("z1", TZ, bin_("plus", ident("n1"), zl(1)), False),
        {"k": "expr", "e": call("plus_eins", [("z", lvid("n1"))])},
        var("z3", TZ, call("zaehle", [("n", ident("z1"))]), False),
        var("h2", HAUS, call("haus_doppelt", [("h", ident("c04_haus"))]), False),
        var("z2", TZ, cast_(TZ, ident("h2")), False),
        setv(lvid("c04_haus"), cast_(HAUS, ident("z2"))),
        var("lh", TL(HAUS), {"k": "list", "et": HAUS, "vals": [ident("c04_haus"), ident("h2")]}, False),
        setv(lvid("z2"), bin_("plus", call("haus_anzahl", [("hl", ident("lh"))]), {"k": "fld", "f": "px", "e": ident("c04_marke")})),
        setv({"k": "fld", "f": "px", "l": lvid("c04_marke")}, ident("z3")),
        {"k": "expr", "e": call("lib_setze", [("p", lvid("c04_marke")), ("z", zl(1))])},
        if_(bin_("eq", ident("h2"), ident("c04_haus")), [setv(lvid("z2"), zl(0))])]))
    cs.append(Case("zoo:const-local", bin_("plus", ident("LOKAL"), ident("KONST_Z")), TZ, [dict(var("LOKAL", TZ, lit(Z(9)), False), c=True)]))
    return cs


def base_programs(tier, rng):
    cases = statement_zoo() + semgen.stmt_cases(tier, rng) + semgen.copy_cases(tier, rng)
    table = semgen.optable("quick", rng)
    cases += rng.sample(table, 60 if tier == "quick" else 400)
    dom = semgen.domain_cases("quick", rng)
    cases += rng.sample(dom, 30 if tier == "quick" else 200)
    cases = [c for c in cases if not c.key.startswith("todo")]
    if tier == "quick":
        cases = statement_zoo() + rng.sample(cases[3:], 70)
    return cases


# generic functions (rendered with the type parameter T in place of `genview`)
GEN_FUNCS = [
    dict(fn("gen_versetzt", [("x", TZ, False)], TZ, [var("h", TZ, bin_("plus", ident("x"), ident("KONST_Z")), False), {"k": "ret", "e": bin_("mal", ident("h"), zl(2))}]), genview=TZ),
    dict(fn("gen_erstes", [("l", ddp.TL(TZ), False), ("ersatz", TZ, False)], TZ, [if_(bin_("gt", {"k": "un", "op": "len", "r": ident("l")}, zl(0)), [{"k": "ret", "e": bin_("idx", ident("l"), zl(1))}]),
                                                                                  var("e", TZ, ident("ersatz"), False), {"k": "ret", "e": ident("e")}]), genview=TZ),
    dict(fn("gen_zaehle", [("l", ddp.TL(TT), False), ("x", TT, False)], TZ, [var("n", TZ, ident("KONST_Z"), False),
                                                                            {"k": "foreach", "v": "e", "t": TT, "idx": "", "in": ident("l"), "body": [if_(bin_("eq", ident("e"), ident("x")), [setv(lvid("n"), bin_("plus", ident("n"), zl(1)))])]},
                                                                            {"k": "ret", "e": ident("n")}]), genview=TT),
]


def make_units(cases):
    """one full program per unit: (P, unit, key)"""
    units = []
    nearly = list(semgen.GLOBALS) + CONSTS + TYPE_GLOBALS
    funcs = [dict(f) for f in semgen.FUNCS_C06] + TYPE_FUNCS + copy.deepcopy(GEN_FUNCS)
    structs = [dict(n=s["n"], fields=[dict(f, pub=True) for f in s["fields"]]) for s in semgen.STRUCTS.values()]

    def prog(main_tail):
        return dict(structs=copy.deepcopy(structs), funcs=copy.deepcopy(funcs), nearly=len(nearly), main=copy.deepcopy(nearly) + main_tail)
    for i, c in enumerate(cases):
        body = c.setup + semgen.print_value(c.expr, c.t, "c%d" % i) + [semgen.pr(lit(T("")), True)]
        units.append((prog([{"k": "block", "body": body}]), ("block", 0, False), c.key))
    units.append((prog([lib_uses_block()]), ("block", 0, True), "zoo:imported-module"))
    # a selective import that brings in variables and functions but not the name of their Kombination: the rules about its fields hold all the same
    sel = {"k": "block", "body": [var("c04_q", TZ, bin_("plus", {"k": "fld", "f": "px", "e": ident("lib_punkt")}, ident("lib_zahl")), False),
                                  setv({"k": "fld", "f": "px", "l": lvid("lib_punkt")}, bin_("plus", ident("c04_q"), zl(1))),
                                  {"k": "expr", "e": call("lib_setze", [("p", lvid("lib_punkt")), ("z", {"k": "fld", "f": "px", "e": ident("lib_punkt")})])},
                                  {"k": "print", "e": {"k": "fld", "f": "px", "e": ident("lib_punkt")}, "nl": True}]}
    units.append((dict(structs=[], funcs=[], nearly=0, main=[sel], selective=["lib_punkt", "lib_zahl", "lib_setze"]), ("block", 0, True), "zoo:selective-import"))
    # after the functions: names that exist only from here on (the scope of a call site, not of a function declared above), and for
    # the generic functions a call from the top level and one from a block with a local Konstante (a generic body is only checked when instantiated)
    for fi, f in enumerate(funcs):
        tail = [dict(var("SPAETER_K", TZ, lit(Z(100))), c=True), var("spaeter_v", TZ, zl(5))]
        if f.get("genview"):
            args = [(p_["n"], semgen_default(p_["t"])) for p_ in f["params"]]
            use = (lambda: var("c04_erg", f["ret"], call(f["n"], args), False)) if f["ret"] != TNONE else (lambda: {"k": "expr", "e": call(f["n"], args)})
            tail += [{"k": "block", "body": [dict(var("LOKAL_K", TZ, lit(Z(7)), False), c=True), var("lokal_v", TZ, zl(8), False), use()]},
                     {"k": "block", "body": [use()]}]
        units.append((prog(tail), ("func", fi), "func:" + f["n"]))
    return units


# ------------------------------------------------------------------------------------------ the check
def accepted(a):
    if a.get("timeout") or a.get("killed") is not None or not a.get("runs"):
        return None
    r = a["runs"][0]
    if r.get("panic"):
        return None
    if r.get("err") or r.get("faulty") or r.get("nomodule") or any(m.get("faulty") for m in r.get("modules") or []):
        return False
    return not any(d["lvl"] == "err" for d in r.get("diags") or [])


def run(tier):
    ck = Check("C04", tier)
    rng = vlib.rng("c04")
    units = make_units(base_programs(tier, rng))
    progs = []       # (key, class, base?, P, lib, unit)
    percls = {}
    cap = 40 if tier == "quick" else 1500
    allm = []
    for P, unit, key in units:
        progs.append((key, "base", True, P, LIB, unit))
        for cls, op in mutants_of(P, unit, rng, LIB):
            allm.append((key, cls, op, P, unit))
    rng.shuffle(allm)
    for key, cls, op, P, unit in allm:
        base_cls = cls
        if percls.get(base_cls, 0) >= (cap * 5 if cls.startswith(("type:", "undeclared")) and ":depth" not in cls else cap):
            continue
        percls[base_cls] = percls.get(base_cls, 0) + 1
        P2, lib2 = apply(P, LIB, op)
        progs.append((key, cls, False, P2, lib2, unit))
    ck.cov["mutants_generated"] = len(allm)
    ck.cov["mutants_sent"] = len(progs) - len(units)
    # the real frontend
    pool = FEPool(12, timeout=30)
    jobs = []
    for key, cls, base, P, lib, unit in progs:
        jobs.append(dict(files={"main.ddp": render_main(P), "c04lib.ddp": render_lib(lib)}, main="main.ddp"))
    answers = pool.run(jobs)
    # kddp for a sample (and every base)
    cli_idx = set(i for i, p in enumerate(progs) if p[2]) | set(rng.sample(range(len(progs)), min(len(progs), 150 if tier == "quick" else 3000)))
    sut = vlib.sut()
    import subprocess, shutil
    from concurrent.futures import ThreadPoolExecutor

    def one(i):
        d = pool.materialize(jobs[i]["files"])
        out = os.path.join(d, "out.o")
        try:
            p = subprocess.run([os.path.join(sut, "bin", "kddp"), "kompiliere", "main.ddp", "-o", out], cwd=d, env=dict(os.environ, DDPPATH=sut), stdout=subprocess.PIPE, stderr=subprocess.PIPE, timeout=120)
            rc, err = p.returncode, p.stderr.decode("utf-8", "replace")[-800:] + p.stdout.decode("utf-8", "replace")[-800:]
        except subprocess.TimeoutExpired:
            rc, err = -99, "timeout"
        art = os.path.exists(out) and os.path.getsize(out) > 0
        shutil.rmtree(d, ignore_errors=True)
        return i, dict(ran=True, exit0=(rc == 0), artefact=art), err
    cli, clierr = {}, {}
    with ThreadPoolExecutor(max_workers=12) as ex:
        for i, c, err in ex.map(one, sorted(cli_idx)):
            cli[i], clierr[i] = c, err
    recs, meta = [], []
    crashed = 0
    for i, ((key, cls, base, P, lib, unit), a) in enumerate(zip(progs, answers)):
        acc = accepted(a)
        if acc is None:
            crashed += 1           # a crash of the frontend is C03's business; it is not an acceptance
            acc = False
        c = cli.get(i, dict(ran=False, exit0=False, artefact=False))
        if base and not (c["exit0"] and c["artefact"]):
            acc = False
        recs.append({"e": "prog", "base": base, "class": cls, "p": slim(P, lib, unit), "accepted": acc, "cli": c})
        meta.append(i)
    res, st = validate_monitor("StaticTrace", "t.cfg", ["static", "syntax"], recs, procs=14, sets=("bad", "basebad", "dropped"), extra_files={"t.cfg": T_CFG}, is_start=lambda r: True, timeout=3000)
    ck.cov["states"] = st["distinct"]; ck.cov["transitions"] = st["generated"]
    ck.cov["tlc_runs"].append(dict(name="StaticTrace", lines=st["lines"], wall_s=round(st["wall"], 1)))
    if res["basebad"]:
        i = res["basebad"][0]
        key, cls, base, P, lib, unit = progs[i]
        diags = [(d["code"], d["msg"][:160]) for d in ((answers[i].get("runs") or [{}])[0].get("diags") or [])][:4]
        rules = [m for m in st.get("marks", {}).get("baserules", [])][:3]
        raise Infra("base program %s is not well-formed for the specification or not accepted by the compiler (%d such): frontend %r, kddp %s %r; DDPStatic: %r\n%s" % (
            key, len(res["basebad"]), diags, cli.get(i), clierr.get(i, "")[-400:], rules, render_main(P)[-1500:]))
    dropped = set(res["dropped"])
    bycls, sentcls = {}, {}
    for i, (key, cls, base, P, lib, unit) in enumerate(progs):
        if base:
            continue
        c0 = cls.split(":depth")[0]
        if i in dropped:
            bycls.setdefault(c0, [0, 0])[1] += 1
        else:
            bycls.setdefault(c0, [0, 0])[0] += 1
    ck.cov["fault_classes"] = {k: dict(ill_formed=v[0], still_well_formed_dropped=v[1]) for k, v in sorted(bycls.items())}
    ck.cov["rules_triggered"] = sorted(set(x for m in st.get("marks", {}).get("rules", []) for x in __import__("re").findall(r'"([^"]+)"', m)))
    ck.cov["frontend_crashes_counted_as_rejection"] = crashed
    seen = {}
    for i in res["bad"]:
        key, cls, base, P, lib, unit = progs[i]
        c0 = cls.split(":depth")[0]
        k = "C04:%s" % c0
        seen[k] = seen.get(k, 0) + 1
        if seen[k] > 1:
            continue
        a = answers[i]
        how = "accepted by parser.Parse without an error diagnostic" if recs[i]["accepted"] else "kddp: exit0=%s artefact=%s" % (recs[i]["cli"]["exit0"], recs[i]["cli"]["artefact"])
        ck.fail(k, "an ill-formed program (fault class %s, injected into %s) is not rejected: %s" % (cls, key, how),
                dict(fault_class=cls, base=key, files=jobs[i]["files"], program=recs[i]["p"], cli=recs[i]["cli"]))
    ck.cov["failing_per_class"] = seen
    ck.cov["traces_validated_against_impl"] = len(recs)
    ck.cov["evaluations"] = len(recs)
    ck.cov["distinct_nontrivial"] = len(recs) - len(dropped) - len(units)
    ck.cov["base_units"] = len(units)
    ck.cov["kddp_runs"] = len(cli)
    ck.sample(dict(fault_class=progs[len(units)][1], base=progs[len(units)][0]) if len(progs) > len(units) else {})
    ck.cov["rule"] = "base units: every generated semantic case (statement kinds, copies, operator table and domain samples), a hand-written zoo (nesting depth 3, all loop kinds, local and global Konstanten), " \
                     "a block using every public declaration of an imported module, every function of the shared prelude; faults: wrong-typed literal at every expression position (3 types), unknown name at every name, " \
                     "14 ill-formed statements inserted at every position of every statement list (Konstante assigned / passed by Referenz, break/continue, private function / variable / constant / field of the imported module read, " \
                     "assigned, passed by Referenz), redeclaration after every declaration / of loop variables / parameters / functions, use after the end of the declaring block, final return removed / made conditional / " \
                     "nested / followed by a statement, wrong article at every declaration, loop, return type, visibility of every used imported declaration flipped; capped per class by a seeded sample"
    ck.assumptions += ["a mutant the specification finds well-formed is dropped (counted per class)", "a crash of the frontend counts as rejection here (C03 reports crashes)",
                       "generic declarations and operator overloads do not occur in the base programs"]
    return ck.finish(exhaustive=False)
