"""C02 - Every program the frontend accepts is compiled completely.   DESIGN.md §4 C02
Cells = operator x tuple of operand type classes; the real checker decides which cells are accepted and which type it assigns;
every accepted cell is placed in every value context that type admits and driven through codegen, llvm-as, object emission and
link; spec/front/Pipeline.tla (TLC) requires every later stage to end ok once the frontend accepted."""
import itertools, json, os, re, subprocess
import vlib, ddp
from vlib import Check, Infra, FEPool, validate_monitor
from concurrent.futures import ThreadPoolExecutor

T_CFG = """SPECIFICATION Spec
CONSTANTS
  TraceFile = "trace.ndjson"
INVARIANTS Report
POSTCONDITION Accepted
CHECK_DEADLOCK FALSE
"""
# type classes: (key, type expression, article nominative, dative article for Standardwert)
CLASSES = [("Z", "Zahl", "Die", "einer"), ("K", "Kommazahl", "Die", "einer"), ("B", "Byte", "Der", "einem"), ("W", "Wahrheitswert", "Der", "einem"),
           ("C", "Buchstabe", "Der", "einem"), ("T", "Text", "Der", "einem"),
           ("LZ", "Zahlen Liste", "Die", "einer"), ("LK", "Kommazahlen Liste", "Die", "einer"), ("LB", "Byte Liste", "Die", "einer"), ("LW", "Wahrheitswert Liste", "Die", "einer"),
           ("LC", "Buchstaben Liste", "Die", "einer"), ("LT", "Text Liste", "Die", "einer"), ("S", "Paar", "Der", "einem"), ("LS", "Paar Liste", "Die", "einer"), ("V", "Variable", "Die", "einer"),
           ("AZ", "Nummer", "Die", "einer"), ("AT", "Wort", "Die", "einer"), ("ALZ", "Reihe", "Die", "einer"), ("DZ", "Hausnummer", "Die", "einer"), ("DT", "Name", "Die", "einer"),
           ("DLZ", "Zahlenreihe", "Die", "einer"), ("LDZ", "Hausnummer Liste", "Die", "einer"), ("DS", "Doppel", "Das", "einem")]
PRELUDE = """Binde "Duden/Ausgabe" ein.
Wir nennen die Kombination aus
	der Zahl zahl mit Standardwert 7,
	dem Text wort mit Standardwert "w",
einen Paar, und erstellen sie so:
	"ein leerer Paar"
Wir nennen eine Zahl auch eine Nummer.
Wir nennen einen Text auch eine Wort.
Wir nennen eine Zahlen Liste auch eine Reihe.
Wir definieren eine Hausnummer als eine Zahl.
Wir definieren eine Name als einen Text.
Wir definieren eine Zahlenreihe als eine Zahlen Liste.
Wir definieren ein Doppel als einen Paar.
"""
ART = {c[1]: (c[2], c[3]) for c in CLASSES}


def operand_decls():
    return "".join("%s %s op_%s ist der Standardwert von %s %s.\n%s %s oq_%s ist der Standardwert von %s %s.\n" % (a, t, k, d, t, a, t, k, d, t) for k, t, a, d in CLASSES)


BIN = {"plus": "%s plus %s", "minus": "%s minus %s", "mal": "%s mal %s", "durch": "%s durch %s", "mod": "%s modulo %s", "hoch": "%s hoch %s",
       "log": "der Logarithmus von %s zur Basis %s", "and": "%s und %s", "or": "%s oder %s", "xor": "entweder %s, oder %s", "eq": "%s gleich %s ist", "ne": "%s ungleich %s ist",
       "lt": "%s kleiner als %s ist", "le": "%s kleiner als, oder %s ist", "gt": "%s größer als %s ist", "ge": "%s größer als, oder %s ist",
       "cat": "%s verkettet mit %s", "idx": "%s an der Stelle %s", "band": "%s logisch und %s", "bor": "%s logisch oder %s", "bxor": "%s logisch kontra %s",
       "shl": "%s um %s Bit nach links verschoben", "shr": "%s um %s Bit nach rechts verschoben", "sfrom": "%s ab dem %s. Element", "sto": "%s bis zum %s. Element"}
UN = {"neg": "-%s", "abs": "der Betrag von %s", "not": "nicht %s", "lnot": "logisch nicht %s", "len": "die Länge von %s"}


def cells(tier, rng):
    keys = [c[0] for c in CLASSES]
    out = []
    for op, f in UN.items():
        for a in keys:
            out.append(("un:%s:%s" % (op, a), "(" + f % ("op_" + a) + ")"))
    for op, f in BIN.items():
        for a, b in itertools.product(keys, keys):
            out.append(("bin:%s:%s:%s" % (op, a, b), "(" + f % ("op_" + a, "oq_" + b) + ")"))
    for a in keys:
        for i, j in itertools.product(("Z", "B", "K", "W", "AZ", "DZ"), ("Z", "B", "AZ")):
            out.append(("ter:slice:%s:%s:%s" % (a, i, j), "(op_%s im Bereich von op_%s bis oq_%s)" % (a, i, j)))
    num = ("Z", "K", "B", "W", "T", "AZ", "DZ")
    for a, b, c in itertools.product(num, num, num):
        out.append(("ter:between:%s:%s:%s" % (a, b, c), "(op_%s zwischen oq_%s und oq_%s ist)" % (a, b, c)))
    for a, b in itertools.product(keys, keys):
        for c in ("W", "Z"):
            if a == b or c == "W":
                out.append(("ter:falls:%s:%s:%s" % (a, c, b), "(op_%s, falls op_%s, ansonsten oq_%s)" % (a, c, b) if c != a else "(op_%s, falls oq_%s, ansonsten oq_%s)" % (a, c, b)))
    for a, (bk, bt, _, _) in itertools.product(keys, CLASSES):
        out.append(("cast:%s:%s" % (a, bk), "(op_%s als %s)" % (a, bt)))
    for a, (bk, bt, _, d) in itertools.product(keys, CLASSES):
        if a in ("V", "Z", "S"):
            out.append(("tchk:%s:%s" % (a, bk), "(op_%s %s %s ist)" % (a, "eine" if d == "einer" else "ein", bt)))
    # operands that are themselves lowered to several basic blocks (bounds checks, short circuits, nested conditionals)
    zf = ["op_Z", "(op_LZ an der Stelle 1)", "(op_Z, falls op_W, ansonsten oq_Z)"]
    tf = ["op_T", "(op_LT an der Stelle 1)", "(op_T verkettet mit oq_T)", "(op_T, falls oq_W, ansonsten oq_T)"]
    wf = ["op_W", "(op_W und oq_W)", "(op_LW an der Stelle 1)", "((op_LZ an der Stelle 1) gleich 1 ist)", "(op_W, falls oq_W, ansonsten op_W)"]
    n = 0
    for forms in (zf, tf):
        for l, m, r in itertools.product(forms, wf, forms):
            n += 1
            out.append(("ctl:falls:%d" % n, "(%s, falls %s, ansonsten %s)" % (l, m, r)))
    for op, word in (("and", "und"), ("or", "oder")):
        for l, r in itertools.product(wf, wf):
            n += 1
            out.append(("ctl:%s:%d" % (op, n), "(%s %s %s)" % (l, word, r)))
    for l, r in itertools.product(zf, zf):
        n += 1
        out.append(("ctl:idx:%d" % n, "(op_LZ an der Stelle (%s plus %s))" % (l, r)))
        out.append(("ctl:cmp:%d" % n, "(%s kleiner als %s ist)" % (l, r)))
    return out


def contexts(R):
    """value contexts for an expression of checker-assigned type R (a type spelling); each is (name, lines, extra prelude lines)"""
    art, dat = ART.get(R, ("Die" if R.endswith("Liste") else "Die", "einer"))
    cs = [("init", lambda e, i: ["%s %s ci%d ist %s." % (art, R, i, e)]),
          ("assign", lambda e, i: ["%s %s ca%d ist der Standardwert von %s %s." % (art, R, i, dat, R), "Speichere %s in ca%d." % (e, i)]),
          ("arg", lambda e, i: ["Die Funktion nimm%d mit dem Parameter p vom Typ %s, gibt nichts zurück, macht:" % (i, R), "\tVerlasse die Funktion.", "Und kann so benutzt werden:", '\t"nimm%d <p>"' % i, "nimm%d %s." % (i, e)]),
          ("ret", lambda e, i: ["Die Funktion gib%d gibt %s %s zurück, macht:" % (i, "eine" if dat == "einer" else "einen", "Buchstaben" if R == "Buchstabe" else R), "\tGib %s zurück." % e, "Und kann so benutzt werden:", '\t"gib%d"' % i,
                                "Die Variable cr%d ist gib%d." % (i, i)])]
    if R == "Wahrheitswert":
        cs.append(("cond", lambda e, i: ["Wenn %s, dann:" % e, "\tDie Zahl cc%d ist 1." % i, "Solange %s, mache:" % e, "\tVerlasse die Schleife."]))
    if not R.endswith("Liste") and R not in ("Reihe", "Zahlenreihe"):
        lt = {"Zahl": "Zahlen Liste", "Kommazahl": "Kommazahlen Liste", "Buchstabe": "Buchstaben Liste", "Variable": "Variablen Liste"}.get(R, R + " Liste")
        cs.append(("listelem", lambda e, i: ["Die %s cl%d ist eine Liste, die aus %s, %s besteht." % (lt, i, e, e)]))
    if R in ("Zahl", "Kommazahl", "Byte", "Nummer"):
        for t2, a2 in (("Zahl", "Die"), ("Kommazahl", "Die"), ("Byte", "Der")):
            if t2 != R:
                cs.append(("coerce-" + t2, lambda e, i, t2=t2, a2=a2: ["%s %s cn%d%s ist %s." % (a2, t2, i, t2[0], e), "Speichere %s in cn%d%s." % (e, i, t2[0])]))
    if R in ("Zahl", "Kommazahl", "Byte"):
        # loop bounds: any numeric type is admitted for start, end and step of a counting loop of any numeric counter type
        for t2, pron in (("Zahl", "jede"), ("Kommazahl", "jede"), ("Byte", "jeden")):
            cs.append(("for-to-" + t2, lambda e, i, t2=t2, pron=pron: ["Für %s %s cft%d%s von 1 bis %s, mache:" % (pron, t2, i, t2[0], e), "\tVerlasse die Schleife."]))
            cs.append(("for-from-" + t2, lambda e, i, t2=t2, pron=pron: ["Für %s %s cff%d%s von %s bis 3, mache:" % (pron, t2, i, t2[0], e), "\tVerlasse die Schleife."]))
            cs.append(("for-step-" + t2, lambda e, i, t2=t2, pron=pron: ["Für %s %s cfs%d%s von 1 bis 3 mit Schrittgröße %s, mache:" % (pron, t2, i, t2[0], e), "\tVerlasse die Schleife."]))
    if R in ("Zahl", "Byte"):
        cs.append(("repeat", lambda e, i: ["Wiederhole:", "\tVerlasse die Schleife.", "%s Mal." % e]))
    if R in ("Zahl", "Kommazahl", "Byte", "Wahrheitswert", "Buchstabe", "Text"):
        cs.append(("print", lambda e, i: ["Schreibe %s." % e]))
    return cs


def pipeline(d, src, sut, link=True):
    """runs one source through the stages; returns dict of stage outcomes + detail"""
    open(os.path.join(d, "m.ddp"), "w").write(src)
    env = dict(os.environ, DDPPATH=sut)
    res = dict(codegen="ok", verify="ok", object="ok", link="ok", detail="")
    p = subprocess.run([os.path.join(sut, "bin", "kddp"), "kompiliere", "m.ddp", "-o", "m.ll", "-O", "0"], cwd=d, env=env, stdout=subprocess.PIPE, stderr=subprocess.STDOUT, text=True, errors="replace", timeout=120)
    if p.returncode != 0 or not os.path.exists(os.path.join(d, "m.ll")):
        out = p.stdout
        res["codegen"] = "ir-rejected" if "could not parse llvm ir" in out else ("rejected-by-frontend" if "Fehlerhafter Quellcode" in out else "internal")
        res["verify"] = res["object"] = res["link"] = "skipped"
        res["detail"] = out[-1200:]
        return res
    v = subprocess.run(["llvm-as-14", "m.ll", "-o", "/dev/null"], cwd=d, stdout=subprocess.PIPE, stderr=subprocess.STDOUT, text=True, errors="replace")
    if v.returncode != 0:
        res["verify"] = "rejected"
        res["detail"] = v.stdout[-800:]
    for o in (1, 2):
        q = subprocess.run([os.path.join(sut, "bin", "kddp"), "kompiliere", "m.ddp", "-o", "m%d.o" % o, "-O", str(o)], cwd=d, env=env, stdout=subprocess.PIPE, stderr=subprocess.STDOUT, text=True, errors="replace", timeout=120)
        if q.returncode != 0:
            res["object"] = "failed"
            res["link"] = "skipped"
            res["detail"] += q.stdout[-800:]
            return res
    if link:
        lk = subprocess.run(["gcc", "m1.o", os.path.join(sut, "shim", "setlocale_wrap.o"), "-L" + os.path.join(sut, "lib"), "-lddpstdlib", "-lddpruntime", "-lm", os.path.join(sut, "lib", "main.o"),
                             "-Wl,--wrap=setlocale", "-o", "m.out"], cwd=d, stdout=subprocess.PIPE, stderr=subprocess.STDOUT, text=True, errors="replace")
        if lk.returncode != 0:
            res["link"] = "failed"
            res["detail"] += lk.stdout[-600:]
    return res


def corpus_cells(ck, tier, sut):
    """the repository's own programs and every module of the Duden through the same stages (compiled where they lie, in a scratch copy of
    their directory; the link stage is left out: it needs the C files and libraries kddp itself would add): accepted => IR, verified IR, objects"""
    import shutil, corpus
    items = [(i, d, m, True) for i, d, m in corpus.programs("kddp" if tier == "quick" else "all")]
    dud = os.path.join(sut, "Duden")
    for f in sorted(os.listdir(dud)):
        if f.endswith(".ddp"):
            items.append(("Duden/" + f[:-4], dud, f, False))
    root = vlib.subdir("c02corpus")

    def one(it):
        i, d, m, _ = it
        wd = os.path.join(root, i.replace("/", "_"))
        shutil.copytree(d, wd) if not i.startswith("Duden/") else os.makedirs(wd, exist_ok=True)
        src_dir = wd if not i.startswith("Duden/") else d
        env = dict(os.environ, DDPPATH=sut)
        res = dict(codegen="ok", verify="ok", object="ok", link="skipped", detail="")
        kd = os.path.join(sut, "bin", "kddp")
        ll = os.path.join(wd, "x.ll")
        p = subprocess.run([kd, "kompiliere", m, "-o", ll, "-O", "0"], cwd=src_dir, env=env, stdout=subprocess.PIPE, stderr=subprocess.STDOUT, text=True, errors="replace", timeout=300)
        if p.returncode != 0 or not os.path.exists(ll):
            out = p.stdout
            res["codegen"] = "ir-rejected" if "could not parse llvm ir" in out else ("rejected-by-frontend" if "Fehlerhafter Quellcode" in out else "internal")
            res["verify"] = res["object"] = "skipped"
            res["detail"] = out[-1200:]
        else:
            v = subprocess.run(["llvm-as-14", ll, "-o", "/dev/null"], cwd=wd, stdout=subprocess.PIPE, stderr=subprocess.STDOUT, text=True, errors="replace")
            if v.returncode != 0:
                res["verify"], res["detail"] = "rejected", v.stdout[-800:]
            for o in ((1, 2) if tier == "quick" else (0, 1, 2)):
                q = subprocess.run([kd, "kompiliere", m, "-o", os.path.join(wd, "x%d.o" % o), "-O", str(o)], cwd=src_dir, env=env, stdout=subprocess.PIPE, stderr=subprocess.STDOUT, text=True, errors="replace", timeout=300)
                if q.returncode != 0:
                    res["object"] = "failed"
                    res["detail"] += q.stdout[-800:]
                    break
        shutil.rmtree(wd, ignore_errors=True)
        return it, res
    with ThreadPoolExecutor(max_workers=14) as ex:
        outs = list(ex.map(one, items))
    recs, meta = [], []
    for (i, d, m, _), r in outs:
        if r["codegen"] == "rejected-by-frontend":
            ck.cov.setdefault("corpus_rejected_by_frontend", []).append(i)      # e.g. Duden modules for another operating system
            continue
        recs.append(dict(e="cell", key="corpus:" + i, ctx="program", frontend="ok", codegen=r["codegen"], verify=r["verify"], object=r["object"], link="ok"))
        meta.append((i, r))
    return recs, meta


def run(tier):
    ck = Check("C02", tier)
    rng = vlib.rng("c02")
    sut = vlib.sut()
    cl = cells(tier, rng)
    head = PRELUDE + operand_decls()
    nhead = head.count("\n")
    # stage 1: the real checker's verdict and result type for every cell
    per = 250
    files = [cl[i:i + per] for i in range(0, len(cl), per)]
    pool = FEPool(14, timeout=60)
    jobs = [dict(files={"m.ddp": head + "".join("Die Variable r%d ist %s.\n" % (j, e) for j, (_, e) in enumerate(f))}, main="m.ddp", types=True) for f in files]
    answers = pool.run(jobs)
    accepted = []      # (key, expr, R)
    for f, a in zip(files, answers):
        if not a["runs"] or a["runs"][0].get("panic") or a["runs"][0].get("err"):
            ck.fail("C02:frontend-crash:%s" % f[0][0], "the frontend crashed on a file of operator cells starting at %s: %s" % (f[0][0], json.dumps(a)[:600]), dict(first=f[0]))
            continue
        r = a["runs"][0]
        errl = set()
        for d in r["diags"]:
            if d["lvl"] == "err":
                for ln in range(d["r"][0], d["r"][2] + 1):
                    errl.add(ln)
        if any(l <= nhead for l in errl):
            raise Infra("C02 prelude is rejected: %s" % [d for d in r["diags"] if d["r"][0] <= nhead][:2])
        vt = {v["name"]: v for v in r.get("vartypes") or []}
        for j, (k, e) in enumerate(f):
            if nhead + 1 + j in errl:
                continue
            v = vt.get("r%d" % j)
            if v and v["init"]:
                accepted.append((k, e, v["init"]))
    ck.cov["cells"] = len(cl)
    ck.cov["accepted_cells"] = len(accepted)
    # stage 2: every accepted cell in every context its type admits
    items = []       # (key, ctx, lines)
    for n, (k, e, R) in enumerate(accepted):
        items.append((k, "box", R, ["Die Variable cb%d ist %s." % (n, e)]))
        for cname, mk in contexts(R):
            items.append((k, cname, R, mk(e, n)))
    if tier == "quick":
        # every cell boxed + two seed-chosen contexts each; all contexts for numeric cells and a seeded 20 % of the others
        byk = {}
        for it in items:
            byk.setdefault(it[0], []).append(it)
        items = []
        for k, its in byk.items():
            full = its[0][2] in ("Zahl", "Kommazahl", "Byte", "Nummer") or rng.random() < 0.2
            items += its if full else [its[0]] + rng.sample(its[1:], min(2, len(its) - 1))
    root = vlib.subdir("c02")
    counter = [0]

    def run_batch(batch):
        counter[0] += 1
        d = os.path.join(root, "b%06d_%d" % (counter[0], os.getpid()))
        os.makedirs(d, exist_ok=True)
        src = head + "\n".join("\n".join(ls) for _, _, _, ls in batch) + "\n"
        r = pipeline(d, src, sut)
        import shutil
        shutil.rmtree(d, ignore_errors=True)
        return r, src
    results = {}
    pending = [items[i:i + 40] for i in range(0, len(items), 40)]
    rounds = 0
    nprog = 0
    while pending and rounds < 8:
        rounds += 1
        with ThreadPoolExecutor(max_workers=14) as ex:
            outs = list(ex.map(run_batch, pending))
        nprog += len(pending)
        nxt = []
        for batch, (r, src) in zip(pending, outs):
            okall = r["codegen"] == "ok" and r["verify"] == "ok" and r["object"] == "ok" and r["link"] == "ok"
            if okall or len(batch) == 1:
                for it in batch:
                    results[(it[0], it[1])] = (r, src if len(batch) == 1 else None, it)
            else:
                h = len(batch) // 2
                nxt += [batch[:h], batch[h:]]
        pending = nxt
    recs, meta = [], []
    for (k, c), (r, src, it) in sorted(results.items()):
        fe_ok = r["codegen"] != "rejected-by-frontend"
        if not fe_ok:
            # the batch context made the frontend reject (e.g. a context the type does not admit after all): not C02's subject
            ck.cov.setdefault("context_rejected_by_frontend", []).append("%s/%s" % (k, c))
            continue
        recs.append(dict(e="cell", key=k, ctx=c, frontend="ok", codegen=r["codegen"], verify=r["verify"], object=r["object"], link=r["link"]))
        meta.append((k, c, r, src, it))
    crecs, cmeta = corpus_cells(ck, tier, sut)
    ncells = len(recs)
    recs += crecs
    ck.cov["corpus_programs_and_duden_modules"] = len(crecs)
    rej = len(cl) - len(accepted)
    orig = vlib.split_chunks
    try:
        vlib.split_chunks = lambda records, n, is_start=None: [(i, records[i:i + max(1, len(records) // n + 1)]) for i in range(0, len(records), max(1, len(records) // n + 1))]
        res, st = validate_monitor("PipelineTrace", "t.cfg", ["front"], recs, procs=8, sets=("bad",), extra_files={"t.cfg": T_CFG})
    finally:
        vlib.split_chunks = orig
    ck.cov["states"] = st["distinct"]; ck.cov["transitions"] = st["generated"]
    ck.cov["traces_validated_against_impl"] = len(recs)
    ck.cov["evaluations"] = len(recs)
    ck.cov["distinct_nontrivial"] = len(recs)
    ck.cov["rejected_cells"] = rej
    ck.cov["programs_compiled"] = nprog
    ck.cov["tlc_runs"].append(dict(name="PipelineTrace", lines=st["lines"], wall_s=round(st["wall"], 1)))
    for i in res["bad"]:
        if i >= ncells:
            name, r = cmeta[i - ncells]
            stage = "codegen:" + r["codegen"] if r["codegen"] != "ok" else "verify" if r["verify"] != "ok" else "object"
            ck.fail("C02:corpus:%s:%s" % (name, stage), "%s is accepted by the frontend but fails at %s: %s" % (name, stage, r["detail"][-500:]), dict(program=name, stage=stage, detail=r["detail"]))
            continue
        k, c, r, src, it = meta[i]
        stage = "codegen:" + r["codegen"] if r["codegen"] != "ok" else "verify" if r["verify"] != "ok" else "object" if r["object"] != "ok" else "link"
        ck.fail("C02:%s:%s" % (k, stage), "cell %s (type %s) in context %s is accepted by the frontend but fails at %s: %s" % (k, it[2], c, stage, r["detail"][-400:]),
                dict(cell=k, ctx=c, result_type=it[2], lines=it[3], stage=stage, detail=r["detail"], source=src))
    ck.sample(dict(cell=accepted[0][0], expr=accepted[0][1], checker_type=accepted[0][2]))
    ck.sample(recs[len(recs) // 2])
    ck.cov["rule"] = "cells: every unary/binary/ternary/cast/type-check operator x tuples over 20 operand type classes (plus composite operands spanning several basic blocks); accepted cells x value contexts (boxing into Variable, initialiser, assignment, value argument, return, condition, list element, numeric coercions, start / end / step of counting loops of every counter type, repetition count, print); each (cell, context) is one pipeline trace"
    ck.assumptions += ["the checker's own result type is used to build the contexts (the property is about the lowering matching the type the checker assigned)"]
    return ck.finish(exhaustive=(tier == "thorough"))
