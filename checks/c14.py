"""C14 - Type equivalence is lawful; aliases are transparent, definitions opaque.   DESIGN.md §4 C14

 M  DDPTypesMC: the oracle (spec/types/DDPTypes.tla) is itself lawful on every pair/triple of the universe.
 T  (a) ddptypes.Equal on really constructed types for every ordered pair of the universe;
    (b) acceptance by parser.Parse of initialisation / assignment / cast / argument / return for every ordered pair of
        the DDP-expressible universe; both validated by DDPTypesTrace (TLC)."""
import json, os, subprocess
import vlib
from vlib import Check, Infra, tlc, validate_monitor, FEPool

MC_CFG = """SPECIFICATION Spec
CONSTANTS
  Depth = %d
  ExportFile = "universe.json"
INVARIANT Lawful
CHECK_DEADLOCK FALSE
"""
T_CFG = """SPECIFICATION Spec
CONSTANTS
  TraceFile = "trace.ndjson"
INVARIANTS Report
POSTCONDITION Accepted
CHECK_DEADLOCK FALSE
"""
PRIM = {"Z": ("Zahl", "Zahlen", "f"), "K": ("Kommazahl", "Kommazahlen", "f"), "B": ("Byte", "Byte", "m"), "W": ("Wahrheitswert", "Wahrheitswert", "m"),
        "C": ("Buchstabe", "Buchstaben", "m"), "T": ("Text", "Text", "m")}


def enc(t):
    k = t["k"]
    return {"p": lambda: t["n"], "v": lambda: "V", "s": lambda: t["n"], "l": lambda: "L" + enc(t["e"]), "a": lambda: t["n"], "d": lambda: t["n"]}[k]()


def expressible(t):
    k = t["k"]
    if k in ("p", "v", "s"):
        return True
    if k == "l":
        return t["e"]["k"] != "l" and expressible(t["e"])
    if k == "d" and strip_kind(t["u"]) == "v":
        return False      # "Es kann kein neuer Typ als 'Variable' definiert werden": not a DDP type
    return expressible(t["u"])


def strip_kind(t):
    while t["k"] == "a":
        t = t["u"]
    return t["k"]


def texpr(t):
    k = t["k"]
    if k == "p":
        return PRIM[t["n"]][0]
    if k == "v":
        return "Variable"
    if k == "s":
        return t["n"]
    if k in ("a", "d"):
        return "Typ_" + t["n"]
    e = t["e"]
    if e["k"] == "p":
        return PRIM[e["n"]][1] + " Liste"
    if e["k"] == "v":
        return "Variablen Liste"
    return texpr(e) + " Liste"


def gender(t):
    k = t["k"]
    if k == "p":
        return PRIM[t["n"]][2]
    if k == "s":
        return "m"
    return "f"   # Variable, lists, and every alias/definition is declared feminine here


def decls(terms):
    """declarations for all named types needed by terms, in dependency order"""
    out, seen = [], set()

    def need(t):
        k = t["k"]
        if k == "l":
            need(t["e"])
        elif k == "s":
            if t["n"] not in seen:
                seen.add(t["n"])
                out.append('Wir nennen die Kombination aus\n\tder Zahl x mit Standardwert 0,\neinen %s, und erstellen sie so:\n\t"ein neuer %s"' % (t["n"], t["n"]))
        elif k in ("a", "d"):
            if t["n"] in seen:
                return
            need(t["u"])
            seen.add(t["n"])
            art = "eine" if gender(t["u"]) == "f" else "einen"
            if k == "a":
                out.append("Wir nennen %s %s auch eine Typ_%s." % (art, texpr(t["u"]), t["n"]))
            else:
                out.append("Wir definieren eine Typ_%s als %s %s." % (t["n"], art, texpr(t["u"])))
    for t in terms:
        need(t)
    return out


def refname(t):
    """spelling of `T Referenz` in a parameter list"""
    n = texpr(t)
    if t["k"] == "l":
        return n + "n Referenz"
    if t["k"] == "p":
        return {"Z": "Zahlen Referenz", "K": "Kommazahlen Referenz", "C": "Buchstaben Referenz"}.get(t["n"], n + " Referenz")
    if t["k"] == "v":
        return "Variablen Referenz"
    return n + " Referenz"


def std(v):
    return "(der Standardwert von %s %s)" % ("einer" if gender(v) == "f" else "einem", texpr(v))


def program(T, values, universe):
    art = "Die" if gender(T) == "f" else "Der"
    ret = ("eine " if gender(T) == "f" else "einen ") + ("Buchstaben" if T == {"k": "p", "n": "C"} else texpr(T))
    lines = "\n".join(decls(universe)).split("\n")
    lines += ["", "Die Funktion f_arg mit dem Parameter p vom Typ %s, gibt nichts zurück, macht:" % texpr(T), "\tVerlasse die Funktion.",
              "Und kann so benutzt werden:", '\t"nimm <p>"', "",
              "Die Funktion f_ref mit dem Parameter p vom Typ %s, gibt nichts zurück, macht:" % refname(T), "\tVerlasse die Funktion.",
              "Und kann so benutzt werden:", '\t"nimm die Referenz <p>"', ""]
    where = []
    for i, V in enumerate(values):
        m = {}
        lines.append("%s %s xi%d ist %s." % (art, texpr(T), i, std(V))); m["init"] = len(lines)
        lines.append("%s %s xa%d ist %s." % (art, texpr(T), i, std(T)))
        lines.append("Speichere %s in xa%d." % (std(V), i)); m["assign"] = len(lines)
        lines.append("%s %s xc%d ist %s als %s." % (art, texpr(T), i, std(V), texpr(T))); m["cast"] = len(lines)
        lines.append("nimm %s." % std(V)); m["arg"] = len(lines)
        # conversions in a reference context: a variable of type V re-interpreted as T in place
        artv = "Die" if gender(V) == "f" else "Der"
        lines.append("%s %s xr%d ist %s." % (artv, texpr(V), i, std(V)))
        lines.append("Speichere %s in xr%d als %s." % (std(T), i, texpr(T))); m["refassign"] = len(lines)
        lines.append("nimm die Referenz (xr%d als %s)." % (i, texpr(T))); m["refarg"] = len(lines)
        lines.append("Die Funktion g%d gibt %s zurück, macht:" % (i, ret))
        lines.append("\tGib %s zurück." % std(V)); m["ret"] = len(lines)
        lines += ["Und kann so benutzt werden:", '\t"hole%d"' % i, ""]
        where.append(m)
    return "\n".join(lines) + "\n", where


def run(tier):
    ck = Check("C14", tier)
    depth = 2 if tier == "quick" else 3
    # M
    r = tlc("DDPTypesMC", "mc.cfg", ["types"], workers=14, timeout=3000, files={"mc.cfg": MC_CFG % depth}, heap="24g")
    vlib.tlc_must_pass(r, "DDPTypesMC (laws of the oracle)")
    ck.add_tlc(r, "DDPTypesMC depth %d" % depth)
    universe = json.load(open(os.path.join(r.workdir, "universe.json")))
    # T (a): exported predicates on constructed types
    b = vlib.harness_bin("types")
    p = subprocess.run([b], input=json.dumps(universe), stdout=subprocess.PIPE, stderr=subprocess.PIPE, text=True)
    if p.returncode != 0:
        raise Infra("types harness: " + p.stderr[-1500:])
    recs = [json.loads(x) for x in p.stdout.splitlines()]
    n_eq = len(recs)
    # T (b): positions, DDP-expressible universe of depth <= 2
    u2 = universe if depth == 2 else json.load(open(os.path.join(
        tlc("DDPTypesMC", "mc.cfg", ["types"], workers=8, timeout=600, files={"mc.cfg": MC_CFG % 2}).workdir, "universe.json")))
    ex = [t for t in u2 if expressible(t)]
    ex.sort(key=enc)
    if tier == "quick":
        # quick: every target against every value for a seed-chosen third of the targets plus all base types
        rng = vlib.rng("c14")
        targets = [t for t in ex if t["k"] in ("p", "v", "s")] + rng.sample([t for t in ex if t["k"] not in ("p", "v", "s")], 40)
    else:
        targets = ex
    pool = FEPool(14, timeout=120)
    jobs, metas = [], []
    for T in targets:
        src, where = program(T, ex, ex + [T])
        jobs.append(dict(files={"m.ddp": src}, main="m.ddp"))
        metas.append((T, where, src))
    answers = pool.run(jobs)
    pos_start = len(recs)
    for a, (T, where, src) in zip(answers, metas):
        if not a["runs"] or a["runs"][0].get("panic") or a["runs"][0].get("err"):
            ck.fail("C14:frontend-crash:" + enc(T), "frontend crashed on the type-position program for target %s: %s" % (enc(T), json.dumps(a)[:500]), dict(target=T, source=src))
            continue
        errlines = {}
        for d in a["runs"][0]["diags"]:
            if d["lvl"] == "err":
                for ln in range(d["r"][0], d["r"][2] + 1):
                    errlines.setdefault(ln, d)
        hdr = min(w["init"] for w in where)
        stray = [d for ln, d in errlines.items() if ln < hdr]
        if stray:
            raise Infra("C14 renderer: error in the prelude of target %s: %s" % (enc(T), stray[0]))
        for V, w in zip(ex, where):
            ev = dict(e="pos", t=T, v=V)
            for k, ln in w.items():
                ev[k] = ln not in errlines
            recs.append(ev)
    res, st = validate_monitor("DDPTypesTrace", "t.cfg", ["types"], recs, procs=14, sets=("bad",), extra_files={"t.cfg": T_CFG})
    ck.cov["states"] += st["distinct"]; ck.cov["transitions"] += st["generated"]
    ck.cov["traces_validated_against_impl"] = len(recs)
    ck.cov["evaluations"] = len(recs)
    ck.cov["distinct_nontrivial"] = len(recs)
    ck.cov["eq_pairs"] = n_eq
    ck.cov["position_pairs"] = len(recs) - n_eq
    ck.cov["tlc_runs"].append(dict(name="DDPTypesTrace", lines=st["lines"], wall_s=round(st["wall"], 1)))
    for i in res["bad"]:
        ev = recs[i]
        if ev["e"] == "eq":
            key = "C14:eq:%s:%s" % (enc(ev["a"]), enc(ev["b"]))
            ck.fail(key, "ddptypes.Equal(%s, %s) = %s contradicts DDPTypes.Equal" % (enc(ev["a"]), enc(ev["b"]), ev["equal"]), ev)
        else:
            key = "C14:pos:%s<-%s" % (enc(ev["t"]), enc(ev["v"]))
            ck.fail(key, "positions for target %s, value %s: observed %s contradicts DDPTypes (Assignable/ArgOK/RetOK/CastOK)" % (
                texpr(ev["t"]), texpr(ev["v"]), {k: ev[k] for k in ("init", "assign", "cast", "arg", "ret", "refassign", "refarg") if k in ev}), ev)
    ck.sample(recs[0]); ck.sample(recs[-1])
    ck.cov["rule"] = ("every ordered pair of the type universe of the tier's depth for Equal on constructed types; every ordered pair (target, value) of the "
                      "DDP-expressible depth<=2 universe (quick: all base targets + 30 seed-chosen others) for the five positions; each pair is distinct")
    ck.assumptions += ["`der Standardwert von einem T` has type T", "nested list types are not expressible in DDP source and are covered at the ddptypes level only"]
    return ck.finish(exhaustive=(tier == "thorough"))


def replay(path):
    print(open(path).read()[:3000])
    return 0
