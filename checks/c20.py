"""C20 - Duplicate aliases are always rejected; declared aliases stay callable.   DESIGN.md §4 C20

 M  AliasTrieMC: TLC explores every insertion history (bounded) of the implementation-shaped trie/ordered-map
    model with the transcribed key predicates and checks the contract + representation invariant.
 G  every history of that domain is replayed on the REAL alias trie with the REAL predicates (hook H1);
 T  the recorded answers are validated by AliasTrieTrace against the abstract contract (verdict) and
    against the implementation-shaped model (binding/drift, informational).
 E  end-to-end: programs/modules declaring colliding and print-alike aliases in permuted orders go through
    parser.Parse (see c20_e2e below).
"""
import json, os, subprocess, itertools
import vlib
from vlib import Check, Infra, tlc, tlc_must_pass, validate_monitor, log

ALGO_FILE = os.path.join(vlib.SPEC, "alias", "ALGO")  # which binarySearch body the tree has (model side)


def algo():
    return open(ALGO_FILE).read().strip()


def mc_cfg(algo_, maxops, domain, qlen, export):
    return """SPECIFICATION Spec
CONSTANTS
  Algo = "%s"
  MaxOps = %d
  Domain = "%s"
  QLen = %d
  ExportFile = "%s"
INVARIANTS Contract RepInv
CHECK_DEADLOCK FALSE
""" % (algo_, maxops, domain, qlen, export)


TRACE_CFG = """SPECIFICATION Spec
CONSTANTS
  Algo = "%s"
  TraceFile = "trace.ndjson"
INVARIANTS Report
POSTCONDITION Accepted
CHECK_DEADLOCK FALSE
"""


def run_trie(job):
    b = vlib.harness_bin("trie")
    p = subprocess.run([b], input=json.dumps(job), stdout=subprocess.PIPE, stderr=subprocess.PIPE, text=True)
    if p.returncode != 0:
        raise Infra("trie harness failed: " + p.stderr[-2000:])
    return [json.loads(l) for l in p.stdout.splitlines() if l]


def history_of(records, idx):
    """the insert sequence of the history that record idx belongs to"""
    i = idx
    while i >= 0 and records[i]["e"] != "reset":
        i -= 1
    h = []
    j = i + 1
    while j < len(records) and records[j]["e"] == "ins":
        h.append(records[j]["k"])
        j += 1
    return h


def key_of_failure(names, hist, ev):
    nm = lambda ks: "+".join(names[k - 1] if k else "ARG" for k in ks)
    # canonical key: the multiset of print-alike / equal-rank parameter kinds involved decides the class
    alike = sorted(set(n for ks in hist for n in (names[k - 1] for k in ks) if n in ("pA", "pB", "pC")))
    cls = "print-alike" if len(alike) >= 2 else "other"
    return "C20:trie:%s:hist=%s:%s=%s" % (cls, "|".join(nm(k) for k in hist), ev["e"], nm(ev.get("k") or ev.get("q")))


def trie_part(ck, tier):
    a = algo()
    configs = [("small", 3, 2)] if tier == "quick" else [("small", 4, 2), ("wide", 3, 3)]
    total_hist = 0
    for domain, maxops, qlen in configs:
        # M: exhaustive exploration of the model; exports the domain
        cfg = mc_cfg(a, maxops if tier == "quick" else min(maxops, 3), domain, qlen, "domain.json")
        r = tlc("AliasTrieMC", "mc.cfg", ["alias"], workers=12, timeout=1500, files={"mc.cfg": cfg})
        ck.add_tlc(r, "AliasTrieMC %s maxops=%d algo=%s" % (domain, maxops, a))
        model_ok = r.rc == 0 and "No error has been found" in r.out
        if not model_ok and not r.invariant_violated:
            raise Infra("AliasTrieMC failed:\n" + r.out[-3000:])
        ck.cov.setdefault("model_contract_holds", {})["%s/%d" % (domain, maxops)] = model_ok
        dom = json.load(open(os.path.join(r.workdir, "domain.json")))
        names = dom["names"]
        # G: replay every history on the real trie
        job = dict(dom, mode="all", maxops=maxops)
        recs = run_trie(job)
        nh = sum(1 for x in recs if x["e"] == "reset")
        total_hist += nh
        expect = sum(len(dom["keyseqs"]) ** i for i in range(maxops + 1))
        if nh != expect:
            raise Infra("history enumeration mismatch %d vs %d" % (nh, expect))
        # plus seeded random longer histories, with a Copy in the middle
        rj = dict(dom, mode="random", count=300 if tier == "quick" else 3000, maxlen=8, seed=vlib.seed(), copy=True)
        recs += run_trie(rj)
        # T: validation by TLC
        res, st = validate_monitor("AliasTrieTrace", "t.cfg", ["alias"], recs, procs=14,
                                   extra_files={"t.cfg": TRACE_CFG % a})
        ck.cov["states"] += st["distinct"]; ck.cov["transitions"] += st["generated"]
        ck.cov["traces_validated_against_impl"] += sum(1 for x in recs if x["e"] == "reset")
        ck.cov["evaluations"] += st["lines"]
        ck.cov["tlc_runs"].append(dict(name="AliasTrieTrace %s" % domain, lines=st["lines"], wall_s=round(st["wall"], 1), chunks=st["chunks"]))
        ck.cov.setdefault("impl_model_drift_lines", 0)
        ck.cov["impl_model_drift_lines"] += len(res["drift"])
        if res["drift"]:
            i = res["drift"][0]
            log("NOTE: the real trie differs from the implementation-shaped model (Algo=%s) on %d answers, e.g. history %s event %s"
                % (a, len(res["drift"]), history_of(recs, i), recs[i]))
        seen = set()
        for i in res["bad"]:
            h = history_of(recs, i)
            key = key_of_failure(names, h, recs[i])
            if key in seen:
                continue
            seen.add(key)
            ck.fail(key, "real alias trie contradicts the contract after inserting %s: %s" % (
                [[names[k - 1] for k in ks] for ks in h], recs[i]),
                dict(kind="trie", names=names, history=h, event=recs[i]))
        if not res["bad"] and not model_ok:
            raise Infra("model-level counterexample (Algo=%s) not reproduced by the real code: ALGO file out of date?" % a)
        ck.sample(dict(history=[[names[k - 1] for k in ks] for ks in history_of(recs, len(recs) - 1)], last_event=recs[-1]))
    ck.cov["distinct_nontrivial"] += total_hist
    return total_hist


def run(tier):
    ck = Check("C20", tier)
    trie_part(ck, tier)
    import c20_e2e
    c20_e2e.run(ck, tier)
    ck.cov["rule"] = ("trie level: every insertion history of length <= MaxOps over the key-sequence domain exported by AliasTrieMC "
                      "(each distinct history counts once; all are non-trivial: they end in a full Contains/Search sweep) plus seeded "
                      "random histories of length <= 8 with a Copy; end-to-end: alias populations in every declaration order")
    ck.assumptions += ["vocabulary attributes of spec/alias/AliasVocab.tla are realised by the harness tokens (checked at start)",
                       "TLC integers/records model Go values exactly at this size"]
    return ck.finish(exhaustive=True)


def replay(path):
    c = json.load(open(path))["case"]
    ck = Check("C20", "quick")
    if c.get("kind") == "trie":
        print(json.dumps(c, indent=1))
    return 0
