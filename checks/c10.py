"""C10 - Modules expose exactly their public names and initialise once, in order.   DESIGN.md §4 C10"""
import itertools, json, os, re, bisect
import vlib, ddp
from vlib import Check, Infra, FEPool, validate_monitor

T_CFG = """SPECIFICATION Spec
CONSTANTS
  TraceFile = "trace.ndjson"
INVARIANTS Report
POSTCONDITION AcceptedTrace
CHECK_DEADLOCK FALSE
"""


DIRNAME = "teile"
SELNAME = {"pub": "wert", "fn": "zeige", "const": "KONST", "type": "Kasten"}      # what a selective import names


def mpath(t, indir):
    """import path of module t: modules listed in the graph's `dir` live in the directory teile/ (they import nothing themselves)"""
    return "%s/m%d" % (DIRNAME, t) if t in indir else "m%d" % t


def import_lines(imps, indir, marker=None, frm=None):
    """one statement per entry; a run of entries with via == "dir" is ONE directory import (its meaning: every module of the directory, in name order)"""
    lines = []
    for k, t in enumerate(imps, 1):
        if t.get("cont"):
            continue
        if marker:
            lines.append(marker % (100 + k))
        # paths are relative to the importing file: a module inside teile/ reaches the others through ../
        path = mpath(t["t"], indir)
        if frm is not None and frm in indir:
            path = ("m%d" % t["t"]) if t["t"] in indir else "../" + path
        if t.get("via") == "dir":
            lines.append('Binde alle Module aus "%s" ein.' % (DIRNAME if not (frm is not None and frm in indir) else "../" + DIRNAME))
        elif t["sel"] == "all":
            lines.append('Binde "%s" ein.' % path)
        else:
            lines.append('Binde %s%d aus "%s" ein.' % (SELNAME[t["sel"]], t["t"], path))
    return lines


def module_src(k, imps, indir=(), nouse=False):
    lines = ['Binde "Duden/Ausgabe" ein.']
    lines += import_lines(imps, indir, frm=k)
    lines += ["Die Funktion helfer gibt eine Zahl zurück, macht:", '\tSchreibe "h%d ".' % k, "\tGib %d zurück." % k, "Und kann so benutzt werden:", '\t"hilf mir"', "",
              "Die öffentliche Zahl wert%d ist hilf mir." % k, "Die Zahl geheim%d ist 100 plus %d." % (k, k),
              "Die öffentliche Funktion zeige%d gibt eine Zahl zurück, macht:" % k,
              "\tGib %s zurück." % " plus ".join(["wert%d" % k] + ([] if nouse else ["wert%d" % t["t"] for t in imps if t["t"] != k])),
              "Und kann so benutzt werden:", '\t"zeige%d"' % k, "",
              "Die öffentliche Konstante KONST%d ist %d." % (k, k),
              "Wir nennen die öffentliche Kombination aus", "\tder öffentlichen Zahl inhalt mit Standardwert wert%d," % k, "einen Kasten%d, und erstellen sie so:" % k, '\t"ein Kasten%d"' % k, "",
              # types that stay inside the module but are reachable from a public one: a private Kombination, a private definition of a list of it,
              # a public Kombination with a field of that definition - the importing module never sees their names and must compile all the same
              "Wir nennen die Kombination aus", "\tder Zahl tief mit Standardwert %d," % k, "einen Innen%d, und erstellen sie so:" % k, '\t"ein Innen%d"' % k, "",
              "Wir definieren eine Wolke%d als eine Innen%d Liste." % (k, k), "",
              "Wir nennen die öffentliche Kombination aus", "\tder Wolke%d punkte mit Standardwert (eine leere Innen%d Liste) als Wolke%d," % (k, k, k),
              "\tder öffentlichen Zahl anzahl mit Standardwert 0,", "einen Zug%d, und erstellen sie so:" % k, '\t"ein leerer Zug%d"' % k, "",
              "Die öffentliche Funktion verlaengere%d mit dem Parameter zug vom Typ Zug%d Referenz, gibt nichts zurück, macht:" % (k, k),
              "\tDie Innen%d Liste bisher ist (punkte von zug) als Innen%d Liste." % (k, k),
              "\tSpeichere (bisher verkettet mit (ein Innen%d)) als Wolke%d in punkte von zug." % (k, k), "\tErhöhe anzahl von zug um 1.",
              "Und kann so benutzt werden:", '\t"verlängere%d <zug>"' % k, "",
              'Schreibe "TOP%d ".' % k]
    return "\n".join(lines) + "\n"


def main_src(imps, probe=None, indir=()):
    lines = ['Binde "Duden/Ausgabe" ein.']
    lines += import_lines(imps, indir, marker='Schreibe "s%d ".')
    lines.append('Schreibe "s200 ".')
    expect_sum = []
    for t in imps:
        if t["sel"] in ("all", "fn"):
            lines.append("Schreibe zeige%d." % t["t"])
            lines.append('Schreibe " ".')
        if t["sel"] == "type":
            lines.append("Schreibe (inhalt von (ein Kasten%d))." % t["t"])      # the default value reads the module's global
            lines.append('Schreibe " ".')
        if t["sel"] == "const":
            lines.append("Schreibe KONST%d." % t["t"])
            lines.append('Schreibe " ".')
    if probe:
        j, name = probe[0], probe[1]
        if name == "reexp":
            lines.insert(1, 'Binde wert%d aus "%s" ein.' % (probe[2], mpath(j, indir)))
            lines.append("Die Zahl probe ist wert%d." % probe[2])
        else:
            lines.append({"pub": "Die Zahl probe ist wert%d." % j, "fn": "Die Zahl probe ist zeige%d." % j, "priv": "Die Zahl probe ist geheim%d." % j,
                          "const": "Die Zahl probe ist KONST%d." % j, "type": "Der Kasten%d probe ist ein Kasten%d." % (j, j)}[name])
    return "\n".join(lines) + "\n"


def graphs(tier, rng):
    out = []

    def options(i, n, allow_self):
        others = [j for j in range(n) if j != i and j != 0] + ([i] if allow_self and i != 0 else [])
        opts = [[]]
        for r in (1, 2, 3):
            for sub in itertools.permutations(others, r):
                opts.append(list(sub))
        return opts
    for n in (2, 3):
        per = [options(i, n, False) for i in range(n)]
        for combo in itertools.product(*per):
            out.append(list(combo))
    # self and mutual imports, also of the main module
    out += [[[1], [1]], [[1], [2], [1]], [[1], [2], [3], [1]], [[1, 2], [2], [1]], [[1], [0]]]
    # independent modules below an imported module: initialised in the textual order of that module's import statements
    out += [[[1], [2, 3], [], []], [[1], [3, 2], [], []], [[1], [4, 2, 3], [], [], []], [[1], [2, 3, 4, 5, 6], [], [], [], [], []], [[1], [6, 5, 4, 3, 2], [], [], [], [], []],
            [[2, 1], [4, 3], [5, 6, 3], [], [], [], []]]
    per4 = [options(i, 4, False) for i in range(4)]
    all4 = [list(c) for c in itertools.product(*per4)]
    out += rng.sample(all4, min(len(all4), 150 if tier == "quick" else 3000))
    # selective imports in the main module
    res = []
    for g in out:
        sels = [["all"] * len(g[0])]
        if g[0]:
            sels.append([rng.choice(["all", "pub", "fn", "const", "type"]) for _ in g[0]])
            sels.append([rng.choice(["const", "type"]) for _ in g[0]])
        for s in sels:
            res.append(dict(n=len(g), dir=[], imp=[[dict(t=t, sel=(s[k] if i == 0 else "all"), cont=False) for k, t in enumerate(imps)] for i, imps in enumerate(g)]))
    # directory imports: modules 2 and 3 live in teile/; "Binde alle Module aus" in the main module and / or in an imported module
    F = lambda t: dict(t=t, sel="all", cont=False)
    D = [dict(t=2, sel="all", cont=False, via="dir"), dict(t=3, sel="all", cont=True, via="dir")]
    for imp in ([[F(1)], D, [], []], [D, [], [], []], [[F(1)] + D, D, [], []], [[F(2), F(1)], D, [], []], [D + [F(1)], D, [], []], [[F(1), F(3)], D, [], []],
                [[dict(t=1, sel="fn", cont=False)], D, [], []]):
        res.append(dict(n=4, dir=[2, 3], imp=[[dict(e) for e in l] for l in imp]))
    # cycles through a directory: a module inside teile/ imports a module outside that imports the whole directory (the closing
    # edge of the cycle is the directory import), or the other way round
    for imp in ([[F(2)], D, [F(1)], []], [[F(3)], D, [], [F(1)]], [[F(1)], D, [F(1)], []], [[F(1)], D, [], [F(1)]], [[F(2)], D, [F(3)], [F(1)]], [[F(2)], [], [F(1)], []],
                [[F(2), F(1)], D, [F(1)], []]):
        res.append(dict(n=4, dir=[2, 3], imp=[[dict(e) for e in l] for l in imp]))
        # the same graph with modules that import but never use what they import: the import structure alone decides
        res.append(dict(n=4, dir=[2, 3], nouse=True, imp=[[dict(e) for e in l] for l in imp]))
    # duplicates out
    seen, uniq = set(), []
    for g in res:
        key = json.dumps(g, sort_keys=True)
        if key not in seen:
            seen.add(key)
            uniq.append(g)
    return uniq


def run(tier):
    ck = Check("C10", tier)
    rng = vlib.rng("c10")
    gs = graphs(tier, rng)
    pool = FEPool(14)
    files_of = []
    jobs = []
    for g in gs:
        files = {"main.ddp": main_src(g["imp"][0], indir=g["dir"])}
        for k in range(1, g["n"]):
            files[mpath(k, g["dir"]) + ".ddp"] = module_src(k, g["imp"][k], g["dir"], nouse=bool(g.get("nouse")))
        files_of.append(files)
        jobs.append(dict(files=files, main="main.ddp"))
    answers = pool.run(jobs)
    accepted = []
    for g, a, files in zip(gs, answers, files_of):
        if not a["runs"] or a["runs"][0].get("panic"):
            ck.fail("C10:frontend-crash:%s" % json.dumps(g["imp"])[:80], "frontend crashed on import graph %s: %s" % (g, json.dumps(a)[:400]), dict(graph=g, files=files))
            accepted.append(None)
            continue
        r = a["runs"][0]
        accepted.append(not r.get("err") and not any(d["lvl"] == "err" for d in r["diags"]))
    # run the accepted ones
    runner = ddp.Runner()
    run_idx = [i for i, ok in enumerate(accepted) if ok]
    dirs = []

    def build_run(i):
        d = runner.newdir()
        for rel, c in files_of[i].items():
            os.makedirs(os.path.dirname(os.path.join(d, rel)), exist_ok=True)
            open(os.path.join(d, rel), "w").write(c)
        ok, stage, msg, exe = runner.build(d, "main.ddp", opt=1)
        if not ok:
            return i, None, "%s: %s" % (stage, msg[-400:])
        return i, runner.execute(exe), None
    from concurrent.futures import ThreadPoolExecutor
    outs = {}
    with ThreadPoolExecutor(max_workers=14) as ex:
        for i, rr, err in ex.map(build_run, run_idx):
            outs[i] = (rr, err)
    # visibility probes (parse only): each name class of each non-main module, in the main module
    pj, pmeta = [], []
    for i in run_idx:
        g = gs[i]
        for j in range(1, g["n"]):
            for name in ("pub", "fn", "priv", "const", "type"):
                files = dict(files_of[i])
                files["main.ddp"] = main_src(g["imp"][0], probe=(j, name), indir=g["dir"])
                pj.append(dict(files=files, main="main.ddp"))
                pmeta.append((i, j, name))
            # a name that module j only imported must not be importable from j
            own = [t["t"] for t in g["imp"][0]]
            for u in [t["t"] for t in g["imp"][j]]:
                if u != j and u not in own and j in own:
                    files = dict(files_of[i])
                    files["main.ddp"] = main_src(g["imp"][0], probe=(j, "reexp", u), indir=g["dir"])
                    pj.append(dict(files=files, main="main.ddp"))
                    pmeta.append((i, j, "reexp"))
    pans = pool.run(pj)
    probes = {}
    for (i, j, name), a in zip(pmeta, pans):
        r = a["runs"][0] if a["runs"] else None
        vis = bool(r) and not r.get("panic") and not r.get("err") and not any(d["lvl"] == "err" for d in r["diags"])
        probes.setdefault(i, []).append((j, name, vis))
    recs, starts = [], []
    for i, g in enumerate(gs):
        if accepted[i] is None:
            continue
        starts.append((len(recs), i))
        recs.append(dict(e="graph", g=g))
        recs.append(dict(e="verdict", accepted=accepted[i]))
        if accepted[i]:
            rr, err = outs[i]
            if rr is None:
                ck.fail("C10:not-compiled:%s" % json.dumps(g["imp"])[:80], "accepted import graph does not compile/link: %s" % err, dict(graph=g, files=files_of[i]))
            else:
                text = rr["out"].decode("utf-8", "replace")
                toks = []
                for m in re.finditer(r"(h|s|TOP)(\d+) ", text):
                    toks.append(int(m.group(2)) if m.group(1) != "TOP" else 1000 + int(m.group(2)))
                recs.append(dict(e="run", out=toks, raw=text[:200], code=rr["code"]))
            for j, name, vis in probes.get(i, []):
                recs.append(dict(e="probe", j=j, name=name, visible=vis))
    # imports that do not stand at the top level: inside a function called 0..3 times, inside a loop, inside a Wenn
    once_meta = {}
    nested = {}
    for calls in (0, 1, 2, 3):
        nested["function-body:%d-calls" % calls] = ['Binde "Duden/Ausgabe" ein.', "Die Funktion lade gibt nichts zurück, macht:", '\tBinde "m1" ein.', '\tSchreibe "s1 ".', "Und kann so benutzt werden:", '\t"lade"'] + ["lade."] * calls
    nested["loop-body"] = ['Binde "Duden/Ausgabe" ein.', "Wiederhole:", '\tBinde "m1" ein.', '\tSchreibe "s1 ".', "3 Mal."]
    nested["wenn-body"] = ['Binde "Duden/Ausgabe" ein.', "Wenn wahr, dann:", '\tBinde "m1" ein.', '\tSchreibe "s1 ".', 'Binde "m1" ein.', 'Schreibe "s2 ".']
    nested["function-body-and-top-level"] = ['Binde "Duden/Ausgabe" ein.', 'Binde "m1" ein.', "Die Funktion lade gibt nichts zurück, macht:", '\tBinde "m1" ein.', '\tSchreibe "s1 ".', "Und kann so benutzt werden:", '\t"lade"', "lade.", "lade."]
    nj = [dict(files={"main.ddp": "\n".join(ls) + "\n", "m1.ddp": module_src(1, [])}, main="main.ddp") for ls in nested.values()]
    nans = pool.run(nj)

    def nested_run(item):
        (name, ls), job, a = item
        r = a["runs"][0] if a.get("runs") else None
        if not r or r.get("panic") or r.get("err") or any(d["lvl"] == "err" for d in r["diags"]):
            return name, None, job      # rejected (or crashed: C03's subject): nothing runs
        d = runner.newdir()
        for rel, c in job["files"].items():
            open(os.path.join(d, rel), "w").write(c)
        ok, stage, msg, exe = runner.build(d, "main.ddp", opt=1)
        if not ok:
            return name, "not-built", job
        return name, runner.execute(exe), job
    with ThreadPoolExecutor(max_workers=8) as ex:
        for name, rr, job in ex.map(nested_run, zip(nested.items(), nj, nans)):
            if rr is None:
                ck.cov.setdefault("nested_imports_rejected", []).append(name)
                continue
            if rr == "not-built":
                ck.fail("C10:not-compiled:nested-import:%s" % name, "a program with an import statement inside a %s is accepted but does not compile" % name, dict(files=job["files"]))
                continue
            text = rr["out"].decode("utf-8", "replace")
            once_meta[len(recs)] = (name, job["files"], text)
            recs.append(dict(e="once", inits=[int(m.group(1)) for m in re.finditer(r"h(\d+) ", text)]))
    ck.cov["nested_import_programs"] = len(once_meta)
    orig = vlib.split_chunks
    try:
        vlib.split_chunks = lambda records, n, is_start=None: orig(records, n, lambda r: r.get("e") == "graph")
        res, st = validate_monitor("ModulesTrace", "t.cfg", ["mod"], [{k: v for k, v in r.items() if k not in ("raw", "code")} for r in recs], procs=14, sets=("bad",), extra_files={"t.cfg": T_CFG})
    finally:
        vlib.split_chunks = orig
    ck.cov["states"] = st["distinct"]; ck.cov["transitions"] = st["generated"]
    ck.cov["traces_validated_against_impl"] = len(starts)
    ck.cov["evaluations"] = len(recs)
    ck.cov["distinct_nontrivial"] = len(starts)
    ck.cov["graphs"] = len(gs)
    ck.cov["accepted_graphs"] = sum(1 for a in accepted if a)
    ck.cov["rejected_graphs"] = sum(1 for a in accepted if a is False)
    ck.cov["probes"] = sum(1 for r in recs if r["e"] == "probe")
    ck.cov["tlc_runs"].append(dict(name="ModulesTrace", lines=st["lines"], wall_s=round(st["wall"], 1)))
    sidx = [s for s, _ in starts]
    for i in res["bad"]:
        if i in once_meta:
            name, files, text = once_meta[i]
            ck.fail("C10:once:import-in-%s" % name.split(":")[0], "an import statement inside a %s: the initialiser of the imported module ran more than once (output %r)" % (name, text[:120]), dict(files=files, observed=text))
            continue
        j = bisect.bisect_right(sidx, i) - 1
        gi = starts[j][1]
        g = gs[gi]
        ev = recs[i]
        shape = "imp=%s" % json.dumps([[("%d%s" % (t["t"], "" if t["sel"] == "all" else ":" + t["sel"])) for t in imps] for imps in g["imp"]]).replace('"', "").replace(" ", "")
        key = "C10:%s:%s" % (ev["e"] if ev["e"] != "probe" else "probe-%s" % ev["name"], shape)
        ck.fail(key, "import graph %s: observed %s contradicts Modules.tla" % (shape, {k: v for k, v in ev.items() if k != "g"}), dict(graph=g, event={k: v for k, v in ev.items() if k != "g"}, files=files_of[gi]))
    k = next((s for s, i in starts if accepted[i]), 0)
    ck.sample(dict(graph=recs[k]["g"], events=[{kk: vv for kk, vv in r.items() if kk != "g"} for r in recs[k + 1:k + 5]]))
    ck.cov["rule"] = "all import graphs on <=3 modules (every import subset in every textual order), self/mutual imports incl. the main module, a seeded sample of 4-module graphs, each also with selective imports in the main module; per accepted graph one run and 3 visibility probes per module"
    return ck.finish(exhaustive=False)
