"""C17 - Duden list, text, number and sorting functions meet their specification.   DESIGN.md §4 C17
Driver programs call each covered function with generated arguments and print result and arguments afterwards; every call
is one event validated by spec/duden/DudenTrace.tla against the mathematical meaning in DudenSeq.tla (inside the documented
domain only).  One process per call (forking driver), so a failing call does not hide the others."""
import itertools, json, os, re
import vlib, ddp
from vlib import Check, Infra, validate_monitor
from concurrent.futures import ThreadPoolExecutor

T_CFG = """SPECIFICATION Spec
CONSTANTS
  TraceFile = "trace.ndjson"
INVARIANTS Report
POSTCONDITION Accepted
CHECK_DEADLOCK FALSE
"""
PRELUDE = '''Binde "Duden/Ausgabe" ein.
Binde "Duden/Listen" ein.
Binde "Duden/Texte" ein.
Binde "Duden/Sortierung" ein.
Binde "Duden/Mathe" ein.
Binde "Duden/Zahlen" ein.
Binde "Duden/Statistik" ein.
Binde "Duden/Zeichen" ein.

Die Funktion zt mit dem Parameter t vom Typ Text, gibt nichts zurück, macht:
	Schreibe "T( ".
	Für jeden Buchstaben c in t, mache:
		Schreibe (c als Zahl).
		Schreibe " ".
	Schreibe ") ".
Und kann so benutzt werden:
	"zeige den text <t>"
Die Funktion zlz mit dem Parameter l vom Typ Zahlen Liste, gibt nichts zurück, macht:
	Schreibe "L[ ".
	Für jede Zahl z in l, mache:
		Schreibe "Z( ".
		Schreibe z.
		Schreibe " ) ".
	Schreibe "] ".
Und kann so benutzt werden:
	"zeige die zahlen <l>"
Die Funktion zlt mit dem Parameter l vom Typ Text Liste, gibt nichts zurück, macht:
	Schreibe "L[ ".
	Für jeden Text t in l, mache:
		zeige den text t.
	Schreibe "] ".
Und kann so benutzt werden:
	"zeige die texte <l>"
Die Funktion zlc mit dem Parameter l vom Typ Buchstaben Liste, gibt nichts zurück, macht:
	Schreibe "L[ ".
	Für jeden Buchstaben c in l, mache:
		Schreibe "C( ".
		Schreibe (c als Zahl).
		Schreibe " ) ".
	Schreibe "] ".
Und kann so benutzt werden:
	"zeige die buchstaben <l>"
'''
cp = lambda s: [ord(c) for c in s]
TYN = {"Z": ("Zahl", "Die"), "W": ("Wahrheitswert", "Der"), "C": ("Buchstabe", "Der"), "T": ("Text", "Der"), "LZ": ("Zahlen Liste", "Die"), "LT": ("Text Liste", "Die"), "LC": ("Buchstaben Liste", "Die")}


def lit(t, v):
    if t == "C" and (v < 32 or v == 127 or 128 <= v < 160):
        return "(%d als Buchstabe)" % v
    if t == "Z":
        return str(v) if v >= 0 else "(-%d)" % -v
    if t == "W":
        return "wahr" if v else "falsch"
    if t == "C":
        return "'" + ddp.esc_char(v, "'") + "'"
    if t == "T":
        return '"' + "".join(ddp.esc_char(c, '"') for c in v) + '"'
    if not v:
        return "eine leere %s" % TYN[t][0]
    return "eine Liste, die aus %s besteht" % ", ".join(lit(t[1], x) for x in v)


def show(t, expr):
    if t == "Z":
        return ['Schreibe "Z( ".', "Schreibe %s." % expr, 'Schreibe " ) ".']
    if t == "W":
        return ['Schreibe "W( ".', "Schreibe (%s als Zahl)." % expr, 'Schreibe " ) ".']
    if t == "C":
        return ['Schreibe "C( ".', "Schreibe (%s als Zahl)." % expr, 'Schreibe " ) ".']
    if t == "T":
        return ["zeige den text %s." % expr]
    return ["zeige die %s %s." % ({"LZ": "zahlen", "LT": "texte", "LC": "buchstaben"}[t], expr)]


def tmp(t, name):
    """an expression of the same value that is not an assignable (selects the by-value overload)"""
    if t == "T":
        return '(%s verkettet mit "")' % name
    if t in ("LZ", "LT", "LC"):
        return "(%s verkettet mit (eine leere %s))" % (name, TYN[t][0])
    return name


# fn, argument types, result type or None, source template ({i}: variable, {i!}: temporary of the same value), mutated argument
FUNCS = [
    ("append", ["LZ", "Z"], None, "Füge {1} an {0} an.", 0), ("append", ["LT", "T"], None, "Füge {1!} an {0} an.", 0),
    ("appendlist", ["LZ", "LZ"], None, "Füge {1!} an {0} an.", 0), ("prepend", ["LZ", "Z"], None, "Stelle {1} vor {0}.", 0), ("prepend", ["LT", "T"], None, "Stelle {1!} vor {0}.", 0),
    ("prependlist", ["LT", "LT"], None, "Stelle {1!} vor {0}.", 0),
    ("insert", ["LZ", "Z", "Z"], None, "Setze {2} an die Stelle {1} von {0}.", 0), ("insert", ["LT", "Z", "T"], None, "Setze {2!} an die Stelle {1} von {0}.", 0),
    ("insertrange", ["LZ", "Z", "LZ"], None, "Setze die Elemente in {2!} an die Stelle {1} von {0}.", 0),
    ("delete", ["LZ", "Z"], None, "Lösche das Element an der Stelle {1} aus {0}.", 0), ("delete", ["LT", "Z"], None, "Lösche das Element an der Stelle {1} aus {0}.", 0),
    ("deleterange", ["LZ", "Z", "Z"], None, "Lösche alle Elemente von {1} bis {2} aus {0}.", 0), ("deleterange", ["LT", "Z", "Z"], None, "Lösche alle Elemente von {1} bis {2} aus {0}.", 0),
    ("fill", ["LZ", "Z"], None, "Fülle {0} mit {1}.", 0), ("clear", ["LT"], None, "Leere {0}.", 0),
    ("indexofref", ["LZ", "Z"], "Z", "(der Index von {1} in {0})", None), ("indexof", ["LT", "T"], "Z", "(der Index von {1!} in {0!})", None),
    ("containsref", ["LZ", "Z"], "W", "({0} {1} enthält)", None), ("contains", ["LT", "T"], "W", "({0!} {1!} enthält)", None), ("notcontains", ["LZ", "Z"], "W", "({0} {1} nicht enthält)", None),
    ("isemptyref", ["LZ"], "W", "({0} leer ist)", None), ("isempty", ["LT"], "W", "({0!} leer ist)", None),
    ("firstnref", ["LZ", "Z"], "LZ", "(die ersten {1} Elemente von {0})", None), ("firstn", ["LT", "Z"], "LT", "(die ersten {1} Elemente von {0!})", None),
    ("lastnref", ["LT", "Z"], "LT", "(die letzten {1} Elemente von {0})", None), ("lastn", ["LZ", "Z"], "LZ", "(die letzten {1} Elemente von {0!})", None),
    ("reversedref", ["LZ"], "LZ", "({0} gespiegelt)", None), ("reversed", ["LT"], "LT", "({0!} gespiegelt)", None),
    ("sum", ["LZ"], "Z", "(die Summe aller Zahlen in {0!})", None), ("product", ["LZ"], "Z", "(das Produkt aller Zahlen in {0!})", None),
    ("eadd", ["LZ", "LZ"], "LZ", "(jede Zahl aus {0!} mit {1!} addiert)", None), ("esub", ["LZ", "LZ"], "LZ", "(jede Zahl aus {0!} mit {1!} subtrahiert)", None),
    ("emul", ["LZ", "LZ"], "LZ", "(jede Zahl aus {0!} mit {1!} multipliziert)", None),
    ("ascending", ["Z", "Z"], "LZ", "(eine aufsteigende Zahlen Liste von {0} bis {1})", None), ("descending", ["Z", "Z"], "LZ", "(eine absteigende Zahlen Liste von {0} bis {1})", None),
    ("joinchars", ["LC"], "T", "({0!} aneinandergehängt)", None), ("jointexts", ["LT"], "T", "(alle Texte in {0!} aneinandergehängt)", None),
    ("sorted", ["LZ"], "LZ", "({0!} sortiert)", None), ("sortref", ["LZ"], None, "Sortiere {0}.", 0),
    ("firstchar", ["T"], "C", "(der erste Buchstabe von {0!})", None), ("lastchar", ["T"], "C", "(der letzte Buchstabe von {0!})", None), ("nthchar", ["Z", "T"], "C", "(der {0}. Buchstabe von {1!})", None),
    ("trimstart", ["T", "C"], "T", "({0!} mit allen {1} davor entfernt)", None), ("trimend", ["T", "C"], "T", "({0!} mit allen {1} danach entfernt)", None),
    ("trim", ["T", "C"], "T", "({0!} mit allen {1} davor und danach entfernt)", None),
    ("containschar", ["T", "C"], "W", "({0!} {1} enthält)", None), ("countchar", ["T", "C"], "Z", "(die Anzahl der {1} Buchstaben in {0!})", None),
    ("containstext", ["T", "T"], "W", "({0!} {1!} enthält)", None), ("counttext", ["T", "T"], "Z", "(die Anzahl der Subtexte {1!} in {0!})", None),
    ("counttextno", ["T", "T"], "Z", "(die Anzahl der nicht überlappenden Subtexte {1!} in {0!})", None),
    ("startschar", ["C", "T"], "W", "({0} am Anfang von {1!} steht)", None), ("endschar", ["C", "T"], "W", "({0} am Ende von {1!} steht)", None),
    ("startstext", ["T", "T"], "W", "({0!} am Anfang von {1!} steht)", None), ("endstext", ["T", "T"], "W", "({0!} am Ende von {1!} steht)", None),
    ("tappendtext", ["T", "T"], None, "Füge {1!} an {0} an.", 0), ("tappendchar", ["T", "C"], None, "Füge {1} an {0} an.", 0),
    ("tprependtext", ["T", "T"], None, "Stelle {1!} vor {0}.", 0), ("tprependchar", ["T", "C"], None, "Stelle {1} vor {0}.", 0),
    ("tinserttext", ["T", "Z", "T"], None, "Setze {2!} an die Stelle {1} von {0}.", 0), ("tinsertchar", ["T", "Z", "C"], None, "Setze {2} an die Stelle {1} von {0}.", 0),
    ("tdelete", ["T", "Z"], None, "Lösche das Element an der Stelle {1} aus {0}.", 0), ("tdeleterange", ["T", "Z", "Z"], None, "Lösche alle Elemente im Bereich von {1} bis {2} aus {0}.", 0),
    ("tfill", ["T", "C"], None, "Fülle {0} mit {1}.", 0),
    ("chars", ["T"], "LC", "(die Buchstaben in {0!})", None), ("charsastexts", ["T"], "LT", "(die Buchstaben in {0!} als Text Liste)", None),
    ("tindexofchar", ["T", "C"], "Z", "(der Index von {1} in {0!})", None), ("tindexoftext", ["T", "T"], "Z", "(der Index von {1!} in {0!})", None),
    ("tisempty", ["T"], "W", "({0!} leer ist)", None), ("upper", ["T"], "T", "({0!} groß geschrieben)", None), ("lower", ["T"], "T", "({0!} klein geschrieben)", None),
    ("padleft", ["T", "C", "Z"], "T", "({0!} mit {2} {1} links gepolstert)", None), ("padright", ["T", "C", "Z"], "T", "({0!} mit {2} {1} rechts gepolstert)", None),
    ("splitchar", ["T", "C"], "LT", "({0!} an {1} gespalten)", None), ("splittext", ["T", "T"], "LT", "({0!} an {1!} gespalten)", None),
    ("findall", ["T", "T"], "LZ", "(alle Indizes vom Subtext {0!} in {1!})", None),
    ("jointl", ["LT", "C"], "T", "({0!} mit dem Trennzeichen {1} zum Text verbunden)", None), ("joinzl", ["LZ", "C"], "T", "({0!} mit dem Trennzeichen {1} zum Text verbunden)", None),
    ("hamming", ["T", "T"], "Z", "(die Hamming-Distanz zwischen {0!} und {1!})", None), ("levenshtein", ["T", "T"], "Z", "(die Levenshtein-Distanz zwischen {0!} und {1!})", None),
    ("compare", ["T", "T"], "Z", "({0!} mit {1!} verglichen)", None),
    # numbers
    ("max2", ["Z", "Z"], "Z", "(die größere Zahl von {0} und {1})", None), ("max3", ["Z", "Z", "Z"], "Z", "(die größere Zahl von {0}, {1} und {2})", None),
    ("min2", ["Z", "Z"], "Z", "(die kleinere Zahl von {0} und {1})", None), ("min3", ["Z", "Z", "Z"], "Z", "(die kleinere Zahl von {0}, {1} und {2})", None),
    ("clamp", ["Z", "Z", "Z"], "Z", "({0} zwischen {1} und {2})", None), ("sign", ["Z"], "Z", "(das Vorzeichen von {0})", None),
    ("gcd", ["Z", "Z"], "Z", "(der größte gemeinsame Teiler von {0} und {1})", None), ("lcm", ["Z", "Z"], "Z", "(das kleinste gemeinsame Vielfache von {0} und {1})", None),
    ("divisible", ["Z", "Z"], "W", "({0} durch {1} teilbar ist)", None), ("notdivisible", ["Z", "Z"], "W", "({0} nicht durch {1} teilbar ist)", None),
    ("primefactors", ["Z"], "LZ", "(die Primfaktoren von {0})", None), ("divisors", ["Z"], "LZ", "(alle Teiler von {0})", None),
    ("even", ["Z"], "W", "({0} eine gerade Zahl ist)", None), ("noteven", ["Z"], "W", "({0} keine gerade Zahl ist)", None), ("factorial", ["Z"], "Z", "({0} Fakultät)", None),
    ("maxlist", ["LZ"], "Z", "(die größte Zahl in {0!})", None), ("minlist", ["LZ"], "Z", "(die kleinste Zahl in {0!})", None), ("dozen", ["Z"], "Z", "({0} Dutzend)", None),
    ("hex2num", ["T"], "Z", "(die Hexadezimalzahl {0!})", None), ("num2hex", ["Z"], "T", "({0} in Hexadezimal)", None),
    # characters
    ("isspace", ["C"], "W", "({0} ein leeres Zeichen ist)", None), ("isblank", ["C"], "W", "({0} ein Leerzeichen ist)", None), ("isupper", ["C"], "W", "({0} ein großer Buchstabe ist)", None),
    ("islower", ["C"], "W", "({0} ein kleiner Buchstabe ist)", None), ("isdigit", ["C"], "W", "({0} eine Ziffer ist)", None), ("iscntrl", ["C"], "W", "({0} ein Kontrollzeichen ist)", None),
    ("islatin", ["C"], "W", "({0} ein lateinischer Buchstabe ist)", None), ("islatinnum", ["C"], "W", "({0} ein lateinischer Buchstabe oder eine Zahl ist)", None),
    ("isgerman", ["C"], "W", "({0} ein deutscher Buchstabe ist)", None), ("isgermannum", ["C"], "W", "({0} ein deutscher Buchstabe oder eine Zahl ist)", None),
    ("toupper", ["C"], "C", "({0} als großer Buchstabe)", None), ("tolower", ["C"], "C", "({0} als kleiner Buchstabe)", None),
    ("asciichar", ["Z"], "C", "(der ASCII Zeichen mit der Nummer {0})", None), ("asciigt", ["C", "C"], "W", "(der ASCII-Wert von {0} größer als {1})", None),
    ("asciilt", ["C", "C"], "W", "(der ASCII-Wert von {0} kleiner als {1})", None),
]
NUMFNS = {"max2", "max3", "min2", "min3", "clamp", "sign", "gcd", "lcm", "divisible", "notdivisible", "primefactors", "divisors", "even", "noteven", "factorial", "dozen", "num2hex", "asciichar"}
CHARFNS = {"isspace", "isblank", "isupper", "islower", "isdigit", "iscntrl", "islatin", "islatinnum", "isgerman", "isgermannum", "toupper", "tolower", "asciigt", "asciilt"}
NUMVALS = [-7, -1, 0, 1, 2, 3, 4, 6, 9, 12, 16, 17, 30, 97, 255, 360]
CHARVALS = [9, 10, 13, 31, 32, 47, 48, 57, 58, 64, 65, 90, 91, 96, 97, 122, 123, 191, 192, 196, 214, 215, 216, 220, 222, 223, 228, 246, 247, 248, 252, 255]
HEXVALS = [cp("0"), cp("ff"), cp("FF"), cp("1aB"), cp("7fffff"), cp("10"), cp("g"), cp("")]
VALUES = {
    "Z": [-1, 0, 1, 2, 3, 4, 5, 7],
    "W": [True, False],
    "C": [ord("a"), ord("b"), ord("X"), 0xF6, 0x20],
    "T": [cp(""), cp("a"), cp("abab"), cp("ö€ ö"), cp("aXbXc"), cp(" x "), cp("aaa"), cp("XaX"), cp("b"), cp("abc"), cp("ABC ä")],
    "LZ": [[], [5], [1, 2, 3], [3, 1, 2, 3], [-1, 0, 7, 7], [2, 2]],
    "LT": [[], [cp("a")], [cp("ö€"), cp(""), cp("b")], [cp(""), cp("a"), cp("b")], [cp("a"), cp("a")]],
    "LC": [[], [ord("a")], [0xF6, 0x20AC, ord("x")]],
}


def adversary(n):
    """an order on which a quicksort that takes the median of first / middle / last and keeps an explicit stack of pending ranges (Duden/Sortierung)
    picks the third smallest element of every range as pivot: every level leaves a two-element range pending, the stack grows to about n/3 entries
    (more than the 50 pairs it is created with, from about 155 elements on)"""
    def build(vals):
        if len(vals) <= 5:
            return list(vals)
        R = build(vals[3:])
        return [vals[0], vals[1], R[-1]] + R[:-1] + [vals[2]]
    return build(list(range(1, n + 1)))


def long_lists(rng):
    """longer lists in structured orders for the sorting functions (ascending, descending, organ pipe, saw tooth, many equal keys, the
    classic median-of-three adversary 1, k+1, 3, k+3, ..., 2, 4, 6, ... and seeded random orders)"""
    out = []
    for n in (17, 60, 200):
        k = n // 2
        out += [list(range(1, n + 1)), list(range(n, 0, -1)), list(range(1, k + 1)) + list(range(k, 0, -1)), [i % 7 for i in range(n)], [i % 2 for i in range(n)],
                [x for i in range(1, k + 1) for x in [i if i % 2 else k + i - 1]] + [2 * i for i in range(1, k + 1)],
                [rng.randrange(-50, 50) for _ in range(n)], rng.sample(range(1000), n)]
    out += [adversary(160), adversary(200), adversary(170)[::-1], adversary(330)]
    return out


def calls(tier, rng):
    out = []
    for fn, ats, rt, tpl, mut in FUNCS:
        if fn in ("sorted", "sortref"):
            for lst in long_lists(rng):
                out.append((fn, ats, rt, tpl, mut, [lst]))
        vals = [(NUMVALS if (fn in NUMFNS and t == "Z") else CHARVALS if (fn in CHARFNS and t == "C") else HEXVALS if fn == "hex2num" else VALUES[t]) for t in ats]
        combos = list(itertools.product(*vals))
        cap = 40 if tier == "quick" else 250
        if len(combos) > cap:
            combos = rng.sample(combos, cap)
        for c in combos:
            out.append((fn, ats, rt, tpl, mut, list(c)))
    return out


def render_call(k, call):
    fn, ats, rt, tpl, mut, args = call
    body = []
    for i, (t, v) in enumerate(zip(ats, args)):
        body.append("%s %s v%d ist %s." % (TYN[t][1], TYN[t][0], i, lit(t, v)))
    src = tpl
    for i, t in enumerate(ats):
        src = src.replace("{%d!}" % i, tmp(t, "v%d" % i)).replace("{%d}" % i, "v%d" % i)
    body.append('Schreibe "R ".')
    if rt is None:
        body.append(src)
    else:
        body.append("%s %s erg ist %s." % (TYN[rt][1], TYN[rt][0], src))
        body += show(rt, "erg")
    body.append('Schreibe "A ".')
    for i, t in enumerate(ats):
        body += show(t, "v%d" % i)
    return ["Die Funktion fall_%d gibt nichts zurück, ist extern sichtbar, macht:" % k] + ["\t" + l for l in body] + ["Und kann so benutzt werden:", '\t"fall_%d"' % k, ""]


TOK = re.compile(r"T\(|L\[|Z\(|W\(|C\(|\)|\]|-?\d+")


def parse_values(text):
    toks = TOK.findall(text)
    pos = [0]

    def val():
        t = toks[pos[0]]
        pos[0] += 1
        if t == "T(":
            r = []
            while toks[pos[0]] != ")":
                r.append(int(toks[pos[0]])); pos[0] += 1
            pos[0] += 1
            return r
        if t in ("Z(", "C("):
            v = int(toks[pos[0]]); pos[0] += 2
            return v
        if t == "W(":
            v = int(toks[pos[0]]) != 0; pos[0] += 2
            return v
        if t == "L[":
            r = []
            while toks[pos[0]] != "]":
                r.append(val())
            pos[0] += 1
            return r
        raise ValueError("bad token %r" % t)
    out = []
    while pos[0] < len(toks):
        out.append(val())
    return out


def run(tier):
    ck = Check("C17", tier)
    rng = vlib.rng("c17")
    cs = calls(tier, rng)
    runner = ddp.Runner()
    per = 50
    groups = [cs[i:i + per] for i in range(0, len(cs), per)]
    opts = (1, 2) if tier == "quick" else (0, 1, 2)

    def one(g):
        src = PRELUDE + "\n" + "\n".join("\n".join(render_call(k, c)) for k, c in enumerate(g)) + "\n"
        return g, src, ddp.run_forked(runner, src, len(g), opts=opts, dispatch=True)
    pending, done = groups, []
    while pending:
        nxt = []
        with ThreadPoolExecutor(max_workers=12) as ex:
            for g, src, res in ex.map(one, pending):
                if res["fail"] and len(g) > 1:
                    h = len(g) // 2
                    nxt += [g[:h], g[h:]]
                else:
                    done.append((g, src, res))
        pending = nxt
    recs, meta = [], []
    for g, src, res in done:
        if res["fail"]:
            stage, msg = list(res["fail"].values())[0]
            ck.fail("C17:build:%s" % g[0][0], "driver for %s(%s) does not build (%s): %s" % (g[0][0], g[0][5], stage, msg[-500:]), dict(fn=g[0][0], args=g[0][5], source=src))
            continue
        for o in opts:
            for k, c in enumerate(g):
                fn, ats, rt, tpl, mut, args = c
                rr = res["runs"][o][k]
                text = rr["out"].decode("utf-8", "replace")
                rterr = rr["err"].lstrip().startswith("Laufzeitfehler") or rr["code"] != 0
                ev = dict(e="call", fn=fn, args=args, res="-", after=[], rterr=bool(rterr), cfg="O%d" % o)
                if not rterr:
                    m = re.match(r"R (.*)A (.*)$", text, re.S)
                    try:
                        rv = parse_values(m.group(1)) if m else None
                        av = parse_values(m.group(2)) if m else None
                        if rt is not None:
                            ev["res"] = rv[0]
                        ev["after"] = av
                    except Exception:
                        ev["rterr"] = True
                        ev["garbled"] = text[:200]
                ev["detail"] = (rr["err"] or "")[:200]
                meta.append((c, src, o))
                recs.append(ev)
    res, st = validate_monitor("DudenTrace", "t.cfg", ["duden"], [{k: v for k, v in r.items() if k not in ("cfg", "detail", "garbled")} for r in recs], procs=12, sets=("bad",),
                               extra_files={"t.cfg": T_CFG}, is_start=lambda r: True)
    ck.cov["states"] = st["distinct"]; ck.cov["transitions"] = st["generated"]
    ck.cov["traces_validated_against_impl"] = len(recs)
    ck.cov["evaluations"] = len(recs)
    ck.cov["distinct_nontrivial"] = len(cs)
    ck.cov["functions_covered"] = sorted(set(f[0] for f in FUNCS))
    ck.cov["tlc_runs"].append(dict(name="DudenTrace", lines=st["lines"], wall_s=round(st["wall"], 1)))
    seen = {}
    for i in res["bad"]:
        c, src, o = meta[i]
        fn, ats, rt, tpl, mut, args = c
        ev = recs[i]
        cls = "rterr" if ev["rterr"] else "wrong"
        key = "C17:%s:%s:%s" % (fn, "".join(ats), cls)
        seen[key] = seen.get(key, 0) + 1
        if os.environ.get("VERIF_C17_ALL"):
            vlib.log("BAD %s %r O%d -> res=%r after=%r rterr=%s" % (fn, args, o, ev["res"], ev["after"], ev["rterr"]))
        if seen[key] > 1:
            continue
        shown = [("".join(chr(x) for x in a) if isinstance(a, list) and t == "T" else a) for a, t in zip(args, ats)]
        ck.fail(key, "%s%s (O%d): observed result %r, arguments afterwards %r, failed=%s %s - DudenSeq says otherwise" % (fn, shown, o, ev["res"], ev["after"], ev["rterr"], ev.get("detail", "")[:120]),
                dict(fn=fn, argtypes=ats, args=args, event={k: v for k, v in ev.items()}, source=src))
    ck.cov["failing_calls_per_class"] = seen
    ck.sample(dict(fn=recs[0]["fn"], args=recs[0]["args"], res=recs[0]["res"], after=recs[0]["after"]))
    ck.cov["rule"] = "for each of the covered functions (value and Referenz variants) every combination of the argument vocabulary (lists of length 0..4 over numbers / texts / characters, texts with multi-byte characters, indices and counts -1..7), capped by a seeded sample per function; each call is one trace"
    ck.assumptions += ["outside the documented domain (guards of DudenSeq!Apply) nothing is compared", "Kommazahl-valued and PCRE2/libarchive-dependent functions are not covered"]
    return ck.finish(exhaustive=False)
