"""C09 - Calls resolve to the longest type-matching alias; arguments bind by name.   DESIGN.md §4 C09
Alias populations over a small vocabulary (prefix-related patterns, permuted placeholders, same pattern with different parameter
types, Referenz vs value, generic vs concrete, negated forms, imported vs local) and call sites in every argument form are parsed by
the real frontend; the resolved callee, the argument binding and the negation wrapper read from the AST are validated by
spec/alias/AliasResolve.tla (TLC).  User-defined operator overloads are checked the same way (exact operand types, else built in)."""
import itertools, json, bisect
import vlib
from vlib import Check, Infra, FEPool, validate_monitor

T_CFG = """SPECIFICATION Spec
CONSTANTS
  TraceFile = "trace.ndjson"
INVARIANTS Report
POSTCONDITION Accepted
CHECK_DEADLOCK FALSE
"""
W = lambda w: {"k": "w", "w": w}
P = lambda p: {"k": "p", "p": p}
PATTERNS = {
    "P1": [W("foo"), P("a")],
    "P2": [W("foo"), P("a"), W("mit"), P("b")],
    "P3": [W("foo"), P("b"), W("mit"), P("a")],
    "P4": [W("foo"), P("a"), W("bar")],
    "P5": [W("bar"), P("a")],
    "P6": [W("foo"), W("mit"), P("a")],
    "P7": [W("foo"), W("bar")],                      # words only; `bar` is also the name of a variable (argument form "varword")
    "N1": [W("foo"), P("a"), W("nicht")],          # used with a negation marker: "foo <a> <!nicht>"
}
TYPINGS = {  # name -> {param: (type, ref)}
    "Z": {"a": ("Z", False), "b": ("Z", False)}, "T": {"a": ("T", False), "b": ("T", False)}, "ZT": {"a": ("Z", False), "b": ("T", False)},
    "TZ": {"a": ("T", False), "b": ("Z", False)}, "Zr": {"a": ("Z", True), "b": ("Z", False)}, "Tr": {"a": ("T", True), "b": ("Z", True)},
    "G": {"a": ("G", False), "b": ("G", False)}, "GZ": {"a": ("G", False), "b": ("Z", False)},
    "C": {"a": ("C", False), "b": ("C", False)}, "Cr": {"a": ("C", True), "b": ("Z", False)},
}
TN = {"Z": "Zahl", "T": "Text", "G": "T", "C": "Buchstabe"}


def variants():
    vs = []
    for pn, pat in PATTERNS.items():
        params = [x["p"] for x in pat if x["k"] == "p"]
        for tn, ty in TYPINGS.items():
            if len(params) == 1 and tn in ("ZT", "TZ", "GZ", "Tr"):
                continue
            if len(params) == 0 and tn != "Z":
                continue
            vs.append((pn, tn))
    return vs


def render_fn(name, pn, tn, public=False):
    pat = PATTERNS[pn]
    ty = TYPINGS[tn]
    params = sorted(set(x["p"] for x in pat if x["k"] == "p"))
    generic = any(ty[p][0] == "G" for p in params)

    def ptype(p):
        t, ref = ty[p]
        if not ref:
            return TN[t]
        return {"Z": "Zahlen Referenz", "T": "Text Referenz", "G": "T Referenz", "C": "Buchstaben Referenz"}[t]
    if len(params) == 0:
        ps = ""
    elif len(params) == 1:
        ps = "mit dem Parameter %s vom Typ %s" % (params[0], ptype(params[0]))
    else:
        ps = "mit den Parametern %s vom Typ %s" % (" und ".join(params), " und ".join(ptype(p) for p in params))
    alias = " ".join(x["w"] if x["k"] == "w" else "<%s>" % x["p"] for x in pat)
    if pn == "N1":
        alias = "foo <a> <!nicht>"
    head = "Die %s%sFunktion %s %s, gibt einen Wahrheitswert zurück, macht:" % ("öffentliche " if public else "", "generische " if generic else "", name, ps)
    if not params:
        head = "Die %sFunktion %s gibt einen Wahrheitswert zurück, macht:" % ("öffentliche " if public else "", name)
    return [head, "\tGib wahr zurück.",
            "Und kann so benutzt werden:", '\t"%s"' % alias], params


def aliases_of(name, pn, tn):
    pat = PATTERNS[pn]
    ty = TYPINGS[tn]
    params = sorted(set(x["p"] for x in pat if x["k"] == "p"))
    par = {p: {"t": ty[p][0], "ref": ty[p][1]} for p in params}
    if pn == "N1":
        return [dict(fn=name, pat=pat, par=par, neg=True), dict(fn=name, pat=[W("foo"), P("a")], par=par, neg=False)]
    return [dict(fn=name, pat=pat, par=par, neg=False)]


ARGS = {  # form -> (type -> source text maker(id))
    "lit": {"Z": lambda i: str(10 + i), "T": lambda i: '"s%d"' % i, "C": lambda i: "'%d'" % i},
    "neg": {"Z": lambda i: "-%d" % (10 + i)},
    "group": {"Z": lambda i: "(%d plus 1)" % (10 + i), "T": lambda i: '("s%d" verkettet mit "x")' % i},
    "var": {"Z": lambda i: "vz%d" % i, "T": lambda i: "vt%d" % i, "C": lambda i: "vc%d" % i},
    "groupvar": {"Z": lambda i: "(vz%d)" % i, "T": lambda i: "(vt%d)" % i},
    # assignables that are not plain names: an element of a list, a field of a Kombination (both may be passed by Referenz) ...
    "elem": {"Z": lambda i: "(lz%d an der Stelle 1)" % i, "T": lambda i: "(lt%d an der Stelle 1)" % i, "C": lambda i: "(lc%d an der Stelle 1)" % i},
    "field": {"Z": lambda i: "(zahl von p%d)" % i, "T": lambda i: "(wort von p%d)" % i},
    # ... and a character of a Text: a Buchstabe, but NOT something a Buchstaben Referenz can point to
    "textchar": {"C": lambda i: "(vt%d an der Stelle 1)" % i},
    # a variable whose NAME is a word of some alias pattern: as an argument it is an argument, where the pattern has the word it is the word
    "varword": {"Z": lambda i: "bar"},
}
ARGTEXT = {}   # text as the AST dump shows it -> id, filled per program


def sites_for(pop_patterns, rng, tier):
    """call sites: every distinct pattern shape of the population with arguments in several forms and types"""
    shapes = []
    for pn in pop_patterns:
        pats = [PATTERNS[pn]] + ([[W("foo"), P("a")]] if pn == "N1" else [])
        for pat in pats:
            sh = tuple(x["w"] if x["k"] == "w" else None for x in pat)
            if sh not in shapes:
                shapes.append(sh)
    sites = []
    for sh in shapes:
        nargs = sum(1 for x in sh if x is None)
        combos = list(itertools.product([(f, t) for f in ARGS for t in ARGS[f]], repeat=nargs))
        if len(combos) > 12:
            combos = rng.sample(combos, 12 if tier == "quick" else 40)
        for combo in combos:
            items, k = [], 0
            for x in sh:
                if x is None:
                    f, t = combo[k]
                    k += 1
                    items.append(dict({"k": "a", "id": k, "t": t, "form": f}, **({"w": "bar"} if f == "varword" else {})))
                else:
                    items.append(W(x))
            # `bar` is the name of a declared variable: wherever it stands it is the word and (possibly) an argument; one such item per site
            items = [dict(k="a", id=50 + pos, t="Z", form="varword", w="bar") if (it.get("w") == "bar") else it for pos, it in enumerate(items)]
            if sum(1 for it in items if it.get("form") == "varword") > 1:
                continue
            sites.append(items)
    return sites


def render_site(items):
    out = []
    for it in items:
        out.append(it["w"] if (it["k"] == "w" or it.get("form") == "varword") else ARGS[it["form"]][it["t"]](it["id"]))
    return " ".join(out)


def arg_id(text):
    import re
    m = re.search(r"(\d+)", text)
    if not m:
        return 0
    n = int(m.group(1))
    return n - 10 if n >= 10 else n


def run(tier):
    ck = Check("C09", tier)
    rng = vlib.rng("c09")
    vs = variants()
    pops = []
    pairs = list(itertools.combinations(vs, 2))
    triples = list(itertools.combinations(vs, 3))
    pops += [[v] for v in vs]
    pops += pairs if tier == "thorough" else rng.sample(pairs, 500)
    pops += rng.sample(triples, 400 if tier == "quick" else 6000)
    jobs, metas = [], []
    for pi, pop in enumerate(pops):
        imported = pi % 3 == 2 and len(pop) > 1        # every third population: the first function lives in an imported module
        lines = ["Die Zahl bar ist 9.", "Die Zahl vz1 ist 1.", "Die Zahl vz2 ist 2.", 'Der Text vt1 ist "a".', 'Der Text vt2 ist "b".', "Der Buchstabe vc1 ist 'x'.", "Der Buchstabe vc2 ist 'y'.",
                 "Die Zahlen Liste lz1 ist eine Liste, die aus 1, 2 besteht.", "Die Zahlen Liste lz2 ist eine Liste, die aus 3, 4 besteht.",
                 'Die Text Liste lt1 ist eine Liste, die aus "a", "b" besteht.', 'Die Text Liste lt2 ist eine Liste, die aus "c", "d" besteht.',
                 "Die Buchstaben Liste lc1 ist eine Liste, die aus 'a', 'b' besteht.", "Die Buchstaben Liste lc2 ist eine Liste, die aus 'c', 'd' besteht.",
                 "Wir nennen die Kombination aus", "\tder Zahl zahl mit Standardwert 1,", '\tdem Text wort mit Standardwert "w",', "einen Paar, und erstellen sie so:", '\t"ein leerer Paar"',
                 "Der Paar p1 ist ein leerer Paar.", "Der Paar p2 ist ein leerer Paar.", "Der Wahrheitswert erg ist wahr.", ""]
        files = {}
        aliases = []
        order = list(pop)
        rng.shuffle(order)
        for k, (pn, tn) in enumerate(order):
            name = "f%d" % k
            if imported and k == 0:
                fl, _ = render_fn(name, pn, tn, public=True)
                files["modul.ddp"] = "\n".join(fl) + "\n"
                lines.insert(0, 'Binde "modul" ein.')
            else:
                fl, _ = render_fn(name, pn, tn)
                lines += fl + [""]
            aliases += aliases_of(name, pn, tn)
        # a duplicate alias (same pattern, same parameter types) is rejected at declaration time (C20): such populations are skipped
        keyset = set()
        dup = False
        for a in aliases:
            key = (tuple((x["k"], x.get("w")) for x in a["pat"]), tuple((a["par"][x["p"]]["t"], a["par"][x["p"]]["ref"]) for x in a["pat"] if x["k"] == "p"))
            if key in keyset:
                dup = True
            keyset.add(key)
        if dup:
            continue
        sites = sites_for([pn for pn, _ in pop], rng, tier)
        site_lines = {}
        for s in sites:
            lines.append("Speichere %s in erg." % ("(" + render_site(s) + ")"))
            site_lines[len(lines)] = s
        files["main.ddp"] = "\n".join(lines) + "\n"
        jobs.append(dict(files=files, main="main.ddp", calls=True))
        metas.append((aliases, site_lines, files))
    pool = FEPool(14)
    answers = pool.run(jobs)
    recs, idx = [], []
    for a, (aliases, site_lines, files) in zip(answers, metas):
        if not a["runs"] or a["runs"][0].get("panic") or a["runs"][0].get("err"):
            ck.fail("C09:frontend-crash", "frontend crashed on an alias population: %s" % json.dumps(a)[:500], dict(files=files))
            continue
        r = a["runs"][0]
        first_site = min(site_lines) if site_lines else 10 ** 9
        pre = [d for d in r["diags"] if d["lvl"] == "err" and d["file"] == "main.ddp" and d["r"][0] < first_site or (d["lvl"] == "err" and d["file"] != "main.ddp")]
        if pre:
            raise Infra("C09 renderer: population rejected before the call sites: %s\n%s" % (pre[:2], files["main.ddp"][:1500]))
        # a call whose arguments fit no alias is "called" anyway so that the checker reports the argument types (3xxx),
        # or refused with an instantiation error for generic aliases (2xxx other than syntax): both mean "no type-matching alias".
        # A syntax error (1xxx) on the line only says that tokens were left over after the resolved call.
        errl = set(d["r"][0] for d in r["diags"] if d["lvl"] == "err" and d["code"] >= 2000)
        byline = {}
        for c in r.get("calls") or []:
            if c["file"] == "main.ddp":
                byline.setdefault(c["pos"][0], []).append(c)
        idx.append((len(recs), files))
        recs.append(dict(e="pop", aliases=aliases))
        for ln, s in sorted(site_lines.items()):
            got = dict(fn="none", neg=False, args={})
            if ln not in errl:
                fc = [c for c in byline.get(ln, []) if c["kind"] == "func"]
                if fc:
                    c = fc[0]      # the outermost call of the line comes first in visiting order
                    vw = next((it["id"] for it in s if it.get("form") == "varword"), 0)
                    got = dict(fn=c["name"], neg=any(x["kind"] == "not" for x in byline.get(ln, [])), args={p: (vw if t.strip("() ") == "bar" else arg_id(t)) for p, t in (c["args"] or {}).items()})
            recs.append(dict(e="site", site=s, got=got, line=ln))
    orig = vlib.split_chunks
    try:
        vlib.split_chunks = lambda records, n, is_start=None: orig(records, n, lambda r: r.get("e") == "pop")
        res, st = validate_monitor("AliasResolveTrace", "t.cfg", ["alias"], [{k: v for k, v in r.items() if k != "line"} for r in recs], procs=14, sets=("bad",), extra_files={"t.cfg": T_CFG})
    finally:
        vlib.split_chunks = orig
    ck.cov["states"] = st["distinct"]; ck.cov["transitions"] = st["generated"]
    nsites = sum(1 for r in recs if r["e"] == "site")
    ck.cov["traces_validated_against_impl"] = len(idx)
    ck.cov["evaluations"] = nsites
    ck.cov["distinct_nontrivial"] = nsites
    ck.cov["populations"] = len(idx)
    ck.cov["resolved_sites"] = sum(1 for r in recs if r["e"] == "site" and r["got"]["fn"] != "none")
    ck.cov["tlc_runs"].append(dict(name="AliasResolveTrace", lines=st["lines"], wall_s=round(st["wall"], 1)))
    starts = [i for i, _ in idx]
    seen = set()
    for i in res["bad"]:
        j = bisect.bisect_right(starts, i) - 1
        pop = recs[starts[j]]["aliases"]
        desc = sorted("%s:%s" % (" ".join(x.get("w") or "<%s>" % x["p"] for x in a["pat"]), ",".join("%s=%s%s" % (p, v["t"], "&" if v["ref"] else "") for p, v in sorted(a["par"].items()))) + ("!" if a["neg"] else "") for a in pop)
        site = recs[i]["site"]
        sdesc = " ".join(x.get("w") or "%s:%s" % (x["form"], x["t"]) for x in site)
        key = "C09:%s@%s" % ("|".join(desc), sdesc)
        if key in seen:
            continue
        seen.add(key)
        ck.fail(key, "call site `%s` with aliases %s resolved to %s, which AliasResolve does not allow" % (sdesc, desc, recs[i]["got"]),
                dict(aliases=pop, site=site, got=recs[i]["got"], files=idx[j][1], line=recs[i]["line"]))
    overloads(ck, pool)
    ck.sample(dict(aliases=[a for a in recs[0]["aliases"]], first_site=recs[1] if len(recs) > 1 else None))
    ck.cov["rule"] = "populations of 1-3 functions over 7 alias patterns x 10 parameter typings (Zahl/Text/Buchstabe, value/Referenz/generic), declaration order shuffled, every third population with an imported function; call sites for every pattern shape with arguments in the forms literal, negative literal, parenthesised expression, variable, parenthesised variable, list element, field, character of a Text; each site is one resolution"
    return ck.finish(exhaustive=False)


def overloads(ck, pool):
    """user-defined operator overloads are selected by exact operand types, the built-in meaning applies otherwise"""
    src = '''Wir nennen die Kombination aus
	der Zahl x mit Standardwert 0,
einen Punkt, und erstellen sie so:
	"ein Punkt"
Wir definieren eine Meter als eine Zahl.
Die Funktion pp mit den Parametern a und b vom Typ Punkt und Punkt, gibt einen Punkt zurück, macht:
	Gib a zurück.
Und überlädt den "plus" Operator.
Die Funktion pz mit den Parametern a und b vom Typ Punkt und Zahl, gibt einen Punkt zurück, macht:
	Gib a zurück.
Und überlädt den "plus" Operator.
Die Funktion mm mit den Parametern a und b vom Typ Meter und Meter, gibt eine Meter zurück, macht:
	Gib a zurück.
Und überlädt den "minus" Operator.
Die Funktion neg_p mit dem Parameter a vom Typ Punkt, gibt einen Punkt zurück, macht:
	Gib a zurück.
Und überlädt den "unäres minus" Operator.
Der Punkt p ist ein Punkt.
Die Meter m ist 1 als Meter.
Die Zahl z ist 1.
Der Punkt r1 ist p plus p.
Der Punkt r2 ist p plus 1.
Die Zahl r3 ist z plus 1.
Die Meter r4 ist m minus m.
Die Zahl r5 ist z minus 1.
Die Zahl r6 ist (m als Zahl) minus 1.
Der Punkt r7 ist -p.
Die Zahl r8 ist -z.
Die Kommazahl r9 ist 1,5 plus z.
'''
    byvar = {"r1": ("overload", "pp"), "r2": ("overload", "pz"), "r3": ("builtin", None), "r4": ("overload", "mm"), "r5": ("builtin", None), "r6": ("builtin", None),
             "r7": ("overload", "neg_p"), "r8": ("builtin", None), "r9": ("builtin", None)}
    expect = {}
    for n, line in enumerate(src.splitlines(), 1):
        for v, e in byvar.items():
            if " %s ist " % v in line:
                expect[n] = e
    a = pool.run([dict(files={"main.ddp": src}, main="main.ddp", calls=True)])[0]
    r = a["runs"][0] if a["runs"] else None
    if not r or r.get("panic") or any(d["lvl"] == "err" for d in r["diags"]):
        ck.fail("C09:overload:program", "the operator-overload program is not accepted: %s" % json.dumps(a)[:600], dict(source=src))
        return
    for ln, (kind, name) in expect.items():
        got = [c for c in r["calls"] if c["pos"][0] == ln and c["kind"] in ("overload", "builtin") and c["name"] not in ("als",)]
        top = [c for c in got if c["kind"] == "overload"] or got
        ok = bool(top) and top[0]["kind"] == kind and (name is None or top[0]["name"] == name)
        ck.cov["evaluations"] += 1
        if not ok:
            ck.fail("C09:overload:line%d" % ln, "operator on line %d (%s): expected %s %s, AST has %s" % (ln, src.splitlines()[ln - 1], kind, name, got), dict(source=src, line=ln, got=got))
    # generic overloads (also with the type parameter only inside a generic Kombination): the exact non-generic overload wins over a generic one,
    # whatever the order of declaration; a generic one applies where no exact one exists
    head = '''Wir nennen die generische Kombination aus
	dem T x,
	dem T y,
einen Vektor2, und erstellen sie so:
	"Vektor2(<x>, <y>)"
'''
    decls = {
        "tk": '''Die Funktion tk mit den Parametern a und b vom Typ Text und Text, gibt einen Text zurück, macht:
	Gib a zurück.
Und überlädt den "verkettet mit" Operator.
''',
        "vk": '''Die Funktion vk mit den Parametern a und b vom Typ Zahl-Vektor2 und Zahl-Vektor2, gibt einen Text zurück, macht:
	Gib "k" zurück.
Und überlädt den "verkettet mit" Operator.
''',
        "vg": '''Die generische Funktion vg mit den Parametern a und b vom Typ T-Vektor2 und T-Vektor2, gibt einen Text zurück, macht:
	Gib "g" zurück.
Und überlädt den "verkettet mit" Operator.
''',
        "gz": '''Die generische Funktion gz mit den Parametern a und b vom Typ T-Vektor2 und Zahl, gibt einen Text zurück, macht:
	Gib "z" zurück.
Und überlädt den "verkettet mit" Operator.
'''}
    uses = '''Der Zahl-Vektor2 z1 ist Vektor2(1, 2).
Der Text-Vektor2 t1 ist Vektor2("x", "y").
Die Zahlen Liste zl ist eine Liste, die aus 1, 2 besteht.
Der Text g1 ist "a" verkettet mit "b".
Der Text g2 ist z1 verkettet mit z1.
Der Text g3 ist t1 verkettet mit t1.
Der Text g4 ist t1 verkettet mit 5.
Die Zahlen Liste g5 ist zl verkettet mit zl.
'''
    want = {"g1": ("overload", "tk"), "g2": ("overload", "vk"), "g3": ("overload", "vg"), "g4": ("overload", "gz"), "g5": ("builtin", None)}
    jobs, srcs = [], []
    for order in itertools.permutations(["tk", "vk", "vg", "gz"]):
        src2 = head + "".join(decls[k] for k in order) + uses
        srcs.append(src2)
        jobs.append(dict(files={"main.ddp": src2}, main="main.ddp", calls=True))
    for src2, a in zip(srcs, pool.run(jobs)):
        r = a["runs"][0] if a["runs"] else None
        if r and not r.get("panic") and any(d["lvl"] == "err" and d["code"] == 2021 for d in r["diags"]):
            # declaring an exact overload after a generic one that already covers its types is refused at the declaration ("bereits überladen"):
            # the property speaks about the selection at use sites, so these orders are only counted
            ck.cov["overload_orders_refused_at_declaration"] = ck.cov.get("overload_orders_refused_at_declaration", 0) + 1
            continue
        if not r or r.get("panic") or any(d["lvl"] == "err" for d in r["diags"]):
            ck.fail("C09:overload:generic-program", "the generic operator-overload program is not accepted: %s" % json.dumps(a)[:600], dict(source=src2))
            continue
        ck.cov["overload_orders_checked"] = ck.cov.get("overload_orders_checked", 0) + 1
        for n, line in enumerate(src2.splitlines(), 1):
            for v, (kind, name) in want.items():
                if " %s ist " % v not in line:
                    continue
                got = [c for c in r["calls"] if c["pos"][0] == n and c["kind"] in ("overload", "builtin")]
                top = [c for c in got if c["kind"] == "overload"] or got
                ok = bool(top) and top[0]["kind"] == kind and (name is None or top[0]["name"] == name)
                ck.cov["evaluations"] += 1
                if not ok:
                    ck.fail("C09:overload:generic:%s" % v, "operator in `%s`: expected %s %s, AST has %s (declaration order in the replay)" % (line, kind, name, [(c["kind"], c["name"]) for c in got]),
                            dict(source=src2, line=n, got=got))
