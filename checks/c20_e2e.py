def run(ck, tier):
    pass
