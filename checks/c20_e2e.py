"""C20 end-to-end: alias populations rendered as DDP modules, parsed by the real frontend in every
declaration order; observations validated by AliasDeclTrace (spec/alias/AliasDecl.tla)."""
import itertools, json, os
import vlib
from vlib import Infra, tlc, validate_monitor, FEPool

MOD = """Wir nennen die öffentliche Kombination aus
	der öffentlichen Zahl x mit Standardwert 1,
einen Punkt, und erstellen sie so:
	"ein Punkt%(M)s"

Die öffentliche Funktion zeige_%(m)s mit dem Parameter p vom Typ Punkt, gibt einen Wahrheitswert zurück, macht:
	Gib wahr zurück.
Und kann so benutzt werden:
	"zeige <p>"

Die öffentliche Funktion mache_%(m)s gibt einen Punkt zurück, macht:
	Gib ein Punkt%(M)s zurück.
Und kann so benutzt werden:
	"mache %(M)s"
"""
PTYPE = {4: "Zahl", 9: "Nummer", 5: "Text", 6: "Zahlen Referenz", 14: "Byte"}
ARG_LIT = {4: "1", 9: "1", 5: '"s"', 14: "(1 als Byte)", 7: "(mache A)", 8: "(mache B)"}
ARG_VAR = {4: "vz", 9: "vz", 6: "vz", 5: "vt", 14: "vb"}
WORD = {2: "zeige", 3: "mit", 13: "nicht"}
TRACE_CFG = """SPECIFICATION Spec
CONSTANTS
  TraceFile = "trace.ndjson"
INVARIANTS Report
POSTCONDITION Accepted
CHECK_DEADLOCK FALSE
"""


def alias_string(item):
    # the menu's pats come from one of four templates; reconstruct the written alias
    pats = item["pats"]
    if len(pats) == 2:
        return "zeige <p> <!nicht>"
    return " ".join("<p>" if k == 0 else WORD[k] for k in pats[0]["key"])


def render(seq, menu):
    """returns (files, decl line ranges [(first,last)], calls [(line, fn, pat, argref)])"""
    lines = ["Wir nennen eine Zahl auch eine Nummer.", "Die Zahl vz ist 1.", 'Der Text vt ist "s".', "Der Byte vb ist 1 als Byte.", "Der Wahrheitswert w ist wahr.", ""]
    ranges = []
    for k, m in enumerate(seq, 1):
        item = menu[m - 1]
        first = len(lines) + 1
        if item["src"] == "local":
            lines += ["Die Funktion f%d mit dem Parameter p vom Typ %s, gibt einen Wahrheitswert zurück, macht:" % (k, PTYPE[item["par"]]),
                      "\tGib wahr zurück.", "Und kann so benutzt werden:", '\t"%s"' % alias_string(item)]
        else:
            s = item["src"]
            lines += ['Binde zeige_%s und mache_%s aus "%s" ein.' % (s, s, s)]
        ranges.append((first, len(lines)))
        lines.append("")
    calls = []
    for k, m in enumerate(seq, 1):
        item = menu[m - 1]
        for pi, pat in enumerate(item["pats"], 1):
            forms = []
            if item["par"] in ARG_LIT:
                forms.append((ARG_LIT[item["par"]], False))
            if item["par"] in ARG_VAR:
                forms.append((ARG_VAR[item["par"]], True))
            for arg, isref in forms:
                txt = " ".join(arg if x == 0 else WORD[x] for x in pat["key"])
                lines.append("Speichere %s in w." % txt)
                calls.append((len(lines), k, pi, isref))
    files = {"main.ddp": "\n".join(lines) + "\n", "a.ddp": MOD % dict(m="a", M="A"), "b.ddp": MOD % dict(m="b", M="B")}
    return files, ranges, calls


def observe(ans, seq, menu, ranges, calls):
    ev = [dict(e="reset")]
    if ans.get("killed") is not None or ans.get("timeout") or not ans["runs"]:
        return ev + [dict(e="crash")], "worker died: %s" % (ans.get("stderr", "")[-300:] if not ans.get("timeout") else "timeout")
    r = ans["runs"][0]
    if r.get("panic") or r.get("err"):
        return ev + [dict(e="crash")], (r.get("panic") or r.get("err"))
    dupdiag = [False] * len(seq)
    other = []
    for d in r["diags"]:
        if d["lvl"] != "err":
            continue
        hit = False
        for i, (a, b) in enumerate(ranges):
            if d["file"] == "main.ddp" and a <= d["r"][0] <= b:
                hit = True
                if d["code"] in (2007, 2008):
                    dupdiag[i] = True
                else:
                    other.append(d)
        if not hit and d["r"][0] < (calls[0][0] if calls else 10 ** 9):
            other.append(d)
    if other:
        raise Infra("C20 e2e renderer produced a program with unrelated errors: %s\n%s" % (other[:2], seq))
    for i, m in enumerate(seq):
        ev.append(dict(e="decl", item=m, dup=dupdiag[i]))
    if not any(dupdiag):
        byline = {}
        for c in r.get("calls") or []:
            if c["file"] == "main.ddp" and c["name"] not in ("mache_a", "mache_b"):
                byline.setdefault(c["pos"][0], []).append(c)
        errlines = set(d["r"][0] for d in r["diags"] if d["lvl"] == "err")
        for line, fn, pi, isref in calls:
            got, neg = 0, False
            if line not in errlines:
                for c in byline.get(line, []):
                    if c["kind"] == "not":
                        neg = True
                    else:
                        nm = c["name"]
                        if nm.startswith("f") and nm[1:].isdigit():
                            got = int(nm[1:])
                        elif nm in ("zeige_a", "zeige_b"):
                            got = [k for k, m in enumerate(seq, 1) if menu[m - 1]["src"] == nm[-1]][0]
            ev.append(dict(e="call", fn=fn, pat=pi, argref=isref, got=got, neg=neg))
    return ev, None


def sequences(nmenu, menu, maxlen, tier, rng):
    imported = [i for i in range(1, nmenu + 1) if menu[i - 1]["src"] != "local"]
    def ok(s):
        return all(s.count(i) <= 1 for i in imported)
    out = []
    for n in range(1, maxlen + 1):
        for s in itertools.product(range(1, nmenu + 1), repeat=n):
            if ok(s):
                out.append(s)
    return out


def run(ck, tier):
    # menu from the specification
    r = tlc("AliasDeclTrace", "t.cfg", ["alias"], timeout=120, files={"t.cfg": TRACE_CFG, "trace.ndjson": '{"e":"reset"}\n'})
    menu = json.load(open(os.path.join(r.workdir, "menu.json")))["menu"]
    rng = vlib.rng("c20e2e")
    seqs = sequences(len(menu), menu, 2, tier, rng)
    # length 3 (quick: seeded sample of 3000; thorough: all), length 4 (thorough: seeded sample)
    all3 = [s for s in itertools.product(range(1, len(menu) + 1), repeat=3) if all(s.count(i) <= 1 for i in (21, 22))]
    seqs += all3 if tier == "thorough" else rng.sample(all3, 3000)
    # always include the population that crashed the pinned compiler, in every order
    for p in itertools.permutations((17, 21, 22)):
        if p not in seqs:
            seqs.append(p)
    if tier == "thorough":
        for _ in range(20000):
            seqs.append(tuple(rng.choice([i for i in range(1, len(menu) + 1)]) for _ in range(4)))
        seqs = [s for s in seqs if all(s.count(i) <= 1 for i in (21, 22))]
    pool = FEPool(14)
    jobs, meta = [], []
    for s in seqs:
        files, ranges, calls = render(s, menu)
        jobs.append(dict(files=files, main="main.ddp", calls=True))
        meta.append((s, ranges, calls, files))
    answers = pool.run(jobs)
    recs, starts, notes = [], [], []
    for a, (s, ranges, calls, files) in zip(answers, meta):
        ev, note = observe(a, s, menu, ranges, calls)
        starts.append(len(recs))
        notes.append(note)
        recs += ev
    res, st = validate_monitor("AliasDeclTrace", "t.cfg", ["alias"], recs, procs=12, sets=("bad",), extra_files={"t.cfg": TRACE_CFG})
    ck.cov["states"] += st["distinct"]; ck.cov["transitions"] += st["generated"]
    ck.cov["traces_validated_against_impl"] += len(seqs)
    ck.cov["evaluations"] += st["lines"]
    ck.cov["distinct_nontrivial"] += len(set(seqs))
    ck.cov["tlc_runs"].append(dict(name="AliasDeclTrace", lines=st["lines"], wall_s=round(st["wall"], 1), programs=len(seqs)))
    import bisect
    seen = set()
    for i in res["bad"]:
        j = bisect.bisect_right(starts, i) - 1
        s, ranges, calls, files = meta[j]
        if j in seen:
            continue
        seen.add(j)
        names = ["%s:%s:%s" % (menu[m - 1]["src"], PTYPE.get(menu[m - 1]["par"], "Punkt"), alias_string(menu[m - 1])) for m in s]
        alike = sum(1 for m in s if m in (21, 22)) == 2
        key = "C20:e2e:%s:seq=%s:%s" % ("print-alike" if alike else "other", "-".join(map(str, s)), recs[i]["e"])
        ck.fail(key, "alias population %s: observed %s contradicts AliasDecl (%s)" % (names, recs[i], notes[j] or ""),
                dict(kind="e2e", seq=list(s), names=names, files=files, event=recs[i], note=notes[j]))
    ck.sample(dict(e2e_population=[alias_string(menu[m - 1]) + " / " + str(menu[m - 1]["par"]) for m in seqs[-1]], events=recs[starts[-1]:][:8]))
