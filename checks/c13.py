"""C13 - The token stream is a faithful, positioned partition of the source.   DESIGN.md §4 C13

Inputs are enumerated exhaustively (all strings up to a length over class alphabets; all short byte strings
for invalid UTF-8) and sampled (seeded long strings, the repository's .ddp files); the REAL scanner scans each;
spec/scanner/ScannerTrace.tla (TLC) steps the Scanner state machine token by token over the recorded stream and
evaluates the partition invariants on the recorded tokens."""
import itertools, json, os, subprocess, glob
import vlib
from vlib import Check, Infra, validate_monitor

CFG = "ScannerTrace.cfg"
FULL = ["a", "Z", "ä", "_", "1", "0", ",", ".", "-", ":", "(", ")", '"', "'", "\\", "[", "]", "<", ">", " ", "\t", "\n", "\r", "€", "😀", "n", "ist", "!"]
SUBS = {
    "strings": (['"', "\\", "n", "q", "a", "'", "\n", "€"], 5, 6),
    "numbers": (["1", "0", ",", ".", "a", " ", "-"], 5, 6),
    "blanks": ([" ", "\t", "\n", "\r", "a", "    "], 5, 7),
    "comments": (["[", "]", "a", "\n", '"', " "], 5, 7),
    # code points Unicode counts as white space but DDP does not (they are symbols), next to real blanks and indentation
    "unicode-spaces": (["\u00a0", "\u2028", "\v", "\f", "\u3000", "\u0085", "\t", "    ", "a", "\n"], 4, 5),
}
ALIAS = (["<", ">", "a", "1", " ", "!", "wenn", "ä", "\n", "*"], 4, 5)
BADBYTES = [0x61, 0x80, 0xC3, 0xE2, 0xF0, 0xFF, 0xA4, 0xED, 0xA0, 0xF4, 0x90]


def strings_upto(alpha, n):
    for k in range(0, n + 1):
        for t in itertools.product(alpha, repeat=k):
            yield "".join(t)


def gen_inputs(tier):
    rng = vlib.rng("c13")
    seen = set()
    inputs = []  # (mode, bytes, class)

    def add(mode, b, cls):
        key = (mode, b)
        if key not in seen:
            seen.add(key)
            inputs.append((mode, b, cls))
    for s in strings_upto(FULL, 3 if tier == "quick" else 4):
        add("n", s.encode(), "full")
    for name, (alpha, q, t) in SUBS.items():
        for s in strings_upto(alpha, q if tier == "quick" else t):
            add("n", s.encode(), name)
    alpha, q, t = ALIAS
    for s in strings_upto(alpha, q if tier == "quick" else t):
        add("a", s.encode(), "alias")
    kw = json.load(open(os.path.join(vlib.SPEC, "scanner", "keywords.json")))["keywords"]
    for w in sorted(kw):
        for v in (w, w.lower(), w.upper(), w[:1].upper() + w[1:], w + "x", "x" + w, w + " " + w.upper() + "."):
            add("n", v.encode(), "keywords")
        add("a", (w + " <" + w + ">").encode(), "keywords")
    for k in range(1, (3 if tier == "quick" else 4) + 1):
        for t in itertools.product(BADBYTES, repeat=k):
            add("n", bytes(t), "bytes")
    for _ in range(2000 if tier == "quick" else 20000):
        n = rng.randint(5, 30)
        add(rng.choice("nna"), "".join(rng.choice(FULL) for _ in range(n)).encode(), "random")
    # random byte-level mutations of valid strings
    for _ in range(500 if tier == "quick" else 5000):
        b = bytearray("".join(rng.choice(FULL) for _ in range(rng.randint(2, 12))).encode())
        b[rng.randrange(len(b))] = rng.choice(BADBYTES + [rng.randrange(256)])
        add("n", bytes(b), "bytes")
    lim = 1500 if tier == "quick" else 6000
    files = sorted(glob.glob(os.path.join(vlib.sut(), "src", "tests", "testdata", "**", "*.ddp"), recursive=True)) + \
        sorted(glob.glob(os.path.join(vlib.sut(), "src", "examples", "*.ddp"))) + \
        sorted(glob.glob(os.path.join(vlib.sut(), "Duden", "*.ddp")))
    for f in files:
        b = open(f, "rb").read()
        if len(b) <= lim:
            add("n", b, "files")
    return inputs


def scan_all(inputs):
    b = vlib.harness_bin("scan")
    d = vlib.subdir("c13")
    inp = os.path.join(d, "in.ndjson")
    with open(inp, "w") as f:
        for mode, bs, _ in inputs:
            f.write(json.dumps(dict(mode=mode, b=list(bs))) + "\n")
    outp = os.path.join(d, "out.ndjson")
    with open(inp) as fi, open(outp, "w") as fo:
        p = subprocess.run([b], stdin=fi, stdout=fo, stderr=subprocess.PIPE, text=True)
    if p.returncode != 0:
        raise Infra("scan harness died (a crash of the scanner itself kills it): " + p.stderr[-2000:])
    return vlib.read_ndjson(outp)


def run(tier, only=None):
    ck = Check("C13", tier)
    inputs = gen_inputs(tier) if only is None else only
    recs = scan_all(inputs)
    starts = [i for i, r in enumerate(recs) if r["e"] == "src"]
    if len(starts) != len(inputs):
        raise Infra("scan harness answered %d of %d inputs" % (len(starts), len(inputs)))
    res, st = validate_monitor_src(recs)
    ck.cov["states"] = st["distinct"]; ck.cov["transitions"] = st["generated"]
    ck.cov["traces_validated_against_impl"] = len(inputs)
    ck.cov["evaluations"] = len(inputs)
    ck.cov["distinct_nontrivial"] = len(inputs)
    ck.cov["tokens_checked"] = sum(1 for r in recs if r["e"] == "tok")
    byclass = {}
    for _, _, c in inputs:
        byclass[c] = byclass.get(c, 0) + 1
    ck.cov["inputs_by_class"] = byclass
    ck.cov["tlc_runs"].append(dict(name="ScannerTrace", lines=st["lines"], wall_s=round(st["wall"], 1), chunks=st["chunks"]))
    import bisect
    seen = set()
    for i in res["bad"]:
        j = bisect.bisect_right(starts, i) - 1
        if j in seen:
            continue
        seen.add(j)
        mode, bs, cls = inputs[j]
        key = "C13:%s:%s:%s" % (cls, mode, bs.hex()[:80])
        ck.fail(key, "scanner output for %r (mode %s) contradicts Scanner.tla at event %s" % (bs[:80], mode, recs[i]),
                dict(mode=mode, bytes=list(bs), text=bs.decode("utf-8", "replace"), event=recs[i], stream=recs[starts[j]:starts[j] + 12]))
    for k in (5, len(inputs) // 2, len(inputs) - 1):
        mode, bs, cls = inputs[k]
        ck.sample(dict(mode=mode, text=bs.decode("utf-8", "replace"), cls=cls, events=recs[starts[k] + 1:starts[k] + 5]))
    ck.cov["rule"] = ("distinct inputs: every string up to the tier's length over the 28-symbol class alphabet and over each focused "
                      "sub-alphabet (normal and alias mode), every keyword in 7 spellings, every byte string up to the tier's length over 11 "
                      "bytes for invalid UTF-8, seeded random strings, the repository's .ddp files; each input is one trace (tokens + refusal)")
    ck.assumptions += ["spec/scanner/Keywords.tla (committed snapshot of the keyword table) is the lexical specification",
                       "capitalisation and alias-parameter complaints are not modelled (not compared)"]
    return ck.finish(exhaustive=True)


def validate_monitor_src(recs):
    # chunks must start at a "src" event
    orig = vlib.split_chunks
    try:
        vlib.split_chunks = lambda records, n, is_start=None: orig(records, n, lambda r: r.get("e") == "src")
        return validate_monitor("ScannerTrace", CFG, ["scanner", "common"], recs, procs=14, sets=("bad",))
    finally:
        vlib.split_chunks = orig


def replay(path):
    c = json.load(open(path))["case"]
    return run("quick", only=[(c["mode"], bytes(c["bytes"]), "replay")])
