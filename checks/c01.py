"""C01 - Compiled programs behave as DDP's evaluation rules prescribe.   DESIGN.md §4 C01"""
import vlib, ddp, semrun, semgen, corpus, parsecheck
from vlib import Check


def run(tier):
    ck = Check("C01", tier)
    rng = vlib.rng("c01")
    runner = ddp.Runner()
    opts = (1,) if tier == "quick" else (0, 1, 2)
    cases = semgen.optable(tier, rng)
    r = semrun.judge_cases(ck, cases, opts=opts, per=40, prefix="C01", runner=runner, label="optable")
    ck.cov["evaluations"] += r["n_cases"] * len(opts)
    ck.cov["distinct_nontrivial"] += r["n_cases"]
    ck.cov["unspecified_skipped"] = len(r["unspec_cases"])
    ck.cov["unspecified_sample"] = r["unspec_cases"][:30]
    ck.cov["not_compiled_cases"] = [k for k, _, _, _ in r["compile_failed"]][:50]
    ck.cov["programs"] = r["n_progs"]
    sopts = (1, 2) if tier == "quick" else (0, 1, 2)
    sc = semgen.stmt_cases(tier, rng) + semgen.copy_cases(tier, rng) + semgen.ownership_cases(tier, rng)
    r2 = semrun.judge_cases(ck, sc, opts=sopts, per=25, prefix="C01", runner=runner, label="stmts", funcs=semgen.OWN_FUNCS, nearly=semgen.OWN_GLOBALS)
    ck.cov["evaluations"] += r2["n_cases"] * len(sopts)
    ck.cov["distinct_nontrivial"] += r2["n_cases"]
    ck.cov["unspecified_skipped"] += len(r2["unspec_cases"])
    ck.cov["not_compiled_cases"] += [k for k, _, _, _ in r2["compile_failed"]][:50]
    ck.cov["programs"] += r2["n_progs"]
    for k, stage, msg, src in (r["compile_failed"] + r2["compile_failed"])[:3]:
        vlib.log("NOT COMPILED:", k, stage, msg[-300:])
    # the shape of the real parser's tree for operator chains without parentheses (Precedence.tla), decided by ParseTrace
    ck.cov["parse_structure"] = parsecheck.check(ck, tier, rng)
    ck.cov["traces_validated_against_impl"] += ck.cov["parse_structure"]["chains"]
    # the repository's own programs: the tree the REAL parser built, exported by astx, evaluated by DDPSem, against the executable of the original source
    cc = corpus.check_semantics(ck, (1,) if tier == "quick" else (0, 1, 2), "corpus", subset=("kddp" if tier == "quick" else "all"))
    ck.cov["corpus"] = cc
    ck.cov["evaluations"] += cc["validated_observations"]
    ck.cov["traces_validated_against_impl"] += cc["validated_observations"]
    ck.sample(dict(case=cases[0].key, source_excerpt=ddp.render(semgen.batch_program(cases[:1], "s"))[-400:]))
    ck.cov["rule"] = "operator table: every operator x admissible operand types x boundary values (each case distinct by key); quick: seeded half of the numeric tables; statements, compound assignments, alternative spellings, copy / aliasing arrangements, producing shape x consuming context matrix at -O1/-O2"
    return ck.finish(exhaustive=(tier == "thorough"))
