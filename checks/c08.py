"""C08 - Values are copied; only Referenz parameters alias.   DESIGN.md §4 C08
DDPSem is value-semantic by construction (the store maps locations to values, only Referenz bindings alias), so the property
is conformance of the compiled programs to it on the copy x mutation x type matrix, at every optimisation level."""
import vlib, ddp, semrun, semgen
from vlib import Check


def run(tier):
    ck = Check("C08", tier)
    rng = vlib.rng("c08")
    cases = semgen.copy_cases(tier, rng) + [c for c in semgen.stmt_cases(tier, rng) if c.key.startswith("each:")]
    opts = (0, 1, 2)
    r = semrun.judge_cases(ck, cases, opts=opts, per=12, prefix="C08", label="copies", funcs=semgen.FUNCS, nearly=semgen.GLOBALS)
    ck.cov["evaluations"] = r["n_cases"] * len(opts)
    ck.cov["distinct_nontrivial"] = r["n_cases"]
    ck.cov["unspecified_skipped"] = len(r["unspec_cases"])
    ck.cov["not_compiled_cases"] = [k for k, _, _, _ in r["compile_failed"]]
    for k, stage, msg, src in r["compile_failed"][:3]:
        vlib.log("NOT COMPILED:", k, stage, msg[-400:])
    ck.cov["programs"] = r["n_progs"]
    ck.sample(dict(case=cases[0].key, source_excerpt=ddp.render(semgen.batch_program(cases[:1], "s", funcs=[], nearly_stmts=[]))[-500:]))
    ck.cov["rule"] = "copy-introducing construct x mutation form x non-primitive type (+ Referenz aliasing, same variable by value and by Referenz, globals), each at -O0/-O1/-O2"
    return ck.finish(exhaustive=True)
