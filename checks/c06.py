"""C06 - Out-of-domain operations stop with a Laufzeitfehler, never silently.   DESIGN.md §4 C06
Every (container length, index) pair incl. 64-bit extremes x element type x access form, slices, Variable conversions:
DDPSem's domain predicates say which ones end in `rterr`; the compiled program must agree in both directions."""
import vlib, ddp, semrun, semgen
from vlib import Check


def run(tier):
    ck = Check("C06", tier)
    rng = vlib.rng("c06")
    cases = semgen.domain_cases(tier, rng)
    opts = (1,) if tier == "quick" else (0, 1, 2)
    r = semrun.judge_cases(ck, cases, opts=opts, per=40, prefix="C06", label="domain", funcs=semgen.FUNCS_C06, nearly=semgen.GLOBALS)
    ck.cov["evaluations"] = r["n_cases"] * len(opts)
    ck.cov["distinct_nontrivial"] = r["n_cases"]
    ck.cov["unspecified_skipped"] = len(r["unspec_cases"])
    ck.cov["unspecified_sample"] = r["unspec_cases"][:10]
    ck.cov["not_compiled_cases"] = [k for k, _, _, _ in r["compile_failed"]][:40]
    for k, stage, msg, src in r["compile_failed"][:3]:
        vlib.log("NOT COMPILED:", k, stage, msg[-400:])
    ck.cov["programs"] = r["n_progs"]
    ck.cov["expected_laufzeitfehler_cases"] = sum(1 for m in r["meta"] if len(m[1]) == 1)
    ck.sample(dict(case=cases[3].key, source_excerpt=ddp.render(semgen.batch_program(cases[3:4], "s"))[-300:]))
    ck.cov["rule"] = "container length 0..n x index in -2..len+2 + 64-bit extremes x element type x access form (rvalue var/temporary, assignment target, Referenz argument, nested, Byte index, three slice forms) + Variable conversions + '...'; every case distinct by key"
    return ck.finish(exhaustive=True)
