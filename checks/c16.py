"""C16 - Compilation is repeatable: same sources, same verdict, same diagnostics.   DESIGN.md §4 C16"""
import hashlib, json, os, subprocess
import vlib, feinputs, frontend_common as fc
from vlib import Check, Infra, FEPool, tlc, validate_monitor

MC_CFG = """SPECIFICATION Spec
CONSTANTS
  Comparator = "%s"
  MaxSize = 3
  ExportFile = "%s"
INVARIANT OrderIndependent
CHECK_DEADLOCK FALSE
"""
T_CFG = """SPECIFICATION Spec
CONSTANTS
  TraceFile = "trace.ndjson"
INVARIANTS Report
POSTCONDITION Accepted
CHECK_DEADLOCK FALSE
"""


def shape_program(shape):
    """module m with one public declaration at each (line, column) of the shape; the importer already declares all the names"""
    rows = {}
    for k, p in enumerate(shape, 1):
        rows.setdefault(p["l"], []).append((p["c"], k))
    mlines = []
    for l in range(1, 4):
        items = sorted(rows.get(l, []))
        text = ""
        for c, k in items:
            text += " " * (c - 1 - len(text)) + "Die öffentliche Zahl n%d ist %d." % (k, k) if not text else " Die öffentliche Zahl n%d ist %d." % (k, k)
        mlines.append(text)
    main = "".join("Die Zahl n%d ist 0.\n" % k for k in range(1, len(shape) + 1)) + 'Binde "m" ein.\n'
    return {"m.ddp": "\n".join(mlines) + "\n", "main.ddp": main}


def obs_id(r, table):
    o = json.dumps(dict(err=r.get("err"), panic=(r.get("panic") or "")[:200], faulty=r.get("faulty"), diags=[(d["lvl"], d["code"], d["file"], d["r"], d["msg"]) for d in r.get("diags") or []],
                        calls=sorted((c["pos"], c["kind"], c["name"], c["mod"], sorted((c.get("args") or {}).items())) for c in r.get("calls") or []),
                        modules=[(m["file"], m["faulty"]) for m in r.get("modules") or []]), sort_keys=True, ensure_ascii=False)
    return table.setdefault(o, len(table) + 1)


EFFECT_ORDER = '''Binde "Duden/Ausgabe" ein.
Die Zahl zaehler ist 0.
Die Funktion naechste gibt eine Zahl zurück, macht:
	Erhöhe zaehler um 1.
	Gib zaehler zurück.
Und kann so benutzt werden:
	"die naechste Nummer"
Die Funktion markiert mit dem Parameter t vom Typ Text, gibt einen Text zurück, macht:
	Erhöhe zaehler um 1.
	Gib t verkettet mit (zaehler als Text) zurück.
Und kann so benutzt werden:
	"<t> markiert"
Wir nennen die Kombination aus
	der Zahl eins mit Standardwert 0,
	der Zahl zwei mit Standardwert 0,
	der Zahl drei mit Standardwert 0,
	dem Text vier mit Standardwert "",
einen Vierer, und erstellen sie so:
	"ein Vierer aus <eins>, <zwei>, <drei> und <vier>" oder
	"ein Vierer rueckwaerts aus <vier>, <drei>, <zwei> und <eins>" oder
	"ein Zweier aus <drei> und <eins>"
Die Funktion zeige mit dem Parameter v vom Typ Vierer, gibt nichts zurück, macht:
	Schreibe (eins von v).
	Schreibe " ".
	Schreibe (zwei von v).
	Schreibe " ".
	Schreibe (drei von v).
	Schreibe " ".
	Schreibe (vier von v) auf eine Zeile.
Und kann so benutzt werden:
	"zeige <v>"
Die Funktion drei_zahlen mit den Parametern a, b und c vom Typ Zahl, Zahl und Zahl, gibt eine Zahl zurück, macht:
	Gib a mal 100 plus b mal 10 plus c zurück.
Und kann so benutzt werden:
	"kombiniere <a>, <b> und <c>" oder
	"kombiniere rueckwaerts <c>, <b> und <a>"
zeige (ein Vierer aus (die naechste Nummer), (die naechste Nummer), (die naechste Nummer) und ("x" markiert)).
zeige (ein Vierer rueckwaerts aus ("y" markiert), (die naechste Nummer), (die naechste Nummer) und (die naechste Nummer)).
zeige (ein Zweier aus (die naechste Nummer) und (die naechste Nummer)).
zeige (ein Vierer aus (die naechste Nummer), (die naechste Nummer), (die naechste Nummer) und ("z" markiert)).
Schreibe (kombiniere (die naechste Nummer), (die naechste Nummer) und (die naechste Nummer)) auf eine Zeile.
Schreibe (kombiniere rueckwaerts (die naechste Nummer), (die naechste Nummer) und (die naechste Nummer)) auf eine Zeile.
Die Zahlen Liste l ist eine Liste, die aus (die naechste Nummer), (die naechste Nummer), (die naechste Nummer) besteht.
Schreibe l auf eine Zeile.
Schreibe ((die naechste Nummer) minus (die naechste Nummer) mal (die naechste Nummer)) auf eine Zeile.
'''


def generic_permuted():
    import itertools
    L = ['Binde "Duden/Ausgabe" ein.', "Wir definieren eine Nummer als eine Zahl.", "Wir definieren eine Marke als einen Text.", "Wir definieren eine Masse als eine Kommazahl.", ""]
    for tn, base in (("Nummer", "Zahl"), ("Marke", "Text"), ("Masse", "Kommazahl")):
        L += ["Die Funktion zeige_%s mit dem Parameter x vom Typ %s, gibt nichts zurück, macht:" % (tn, tn), '\tSchreibe "%s:".' % tn, "\tSchreibe (x als %s)." % base,
              "Und kann so benutzt werden:", '\t"Schreibe <x>"', ""]
    L += ["Die generische Funktion zwei mit den Parametern a und b vom Typ T und R, gibt nichts zurück, macht:", "\tSchreibe a.", '\tSchreibe " | ".', "\tSchreibe b.",
          '\tSchreibe "" auf eine Zeile.', "Und kann so benutzt werden:", '\t"zwei <a> <b>"', "",
          "Die generische Funktion drei mit den Parametern a, b und c vom Typ T, R und S, gibt nichts zurück, macht:", "\tSchreibe a.", '\tSchreibe " | ".', "\tSchreibe b.",
          '\tSchreibe " | ".', "\tSchreibe c.", '\tSchreibe "" auf eine Zeile.', "Und kann so benutzt werden:", '\t"drei <a> <b> <c>"', "",
          "Die Nummer n ist 12 als Nummer.", 'Die Marke m ist "abc" als Marke.', "Die Masse g ist 2,5 als Masse.", ""]
    for plain, defd in (("7", "n"), ('"xyz"', "m"), ("0,5", "g")):
        for a, b in itertools.product((plain, defd), repeat=2):
            L.append("zwei %s %s." % (a, b))
        for t in itertools.product((plain, defd), repeat=3):
            L.append("drei %s %s %s." % t)
    L += ["zwei 7 m.", "zwei m 7.", "zwei n \"xyz\".", "zwei \"xyz\" n.", "drei 7 m g.", "drei g m 7.", "drei m g 7."]
    return "\n".join(L) + "\n"


def run(tier):
    ck = Check("C16", tier)
    rng = vlib.rng("c16")
    N = 20 if tier == "quick" else 200
    # M: the design-level question - which populations make the result depend on the map order?
    r1 = tlc("Determinism", "mc.cfg", ["det"], workers=4, timeout=600, files={"mc.cfg": MC_CFG % ("implemented", "shapes.json")})
    ck.add_tlc(r1, "Determinism implemented comparator")
    shapes = json.load(open(os.path.join(r1.workdir, "shapes.json")))
    r2 = tlc("Determinism", "mc.cfg", ["det"], workers=4, timeout=600, files={"mc.cfg": MC_CFG % ("lexicographic", "")})
    vlib.tlc_must_pass(r2, "Determinism with the lexicographic comparator (reference design)")
    ck.add_tlc(r2, "Determinism lexicographic comparator")
    ck.cov["order_dependent_shapes_of_the_pinned_comparator"] = len(shapes)
    pool = FEPool(12, timeout=60)
    jobs, meta = [], []
    for sh in shapes:
        files = shape_program(sh)
        # same column on one line cannot hold two declarations: such shapes are laid out one after the other (still distinct columns)
        jobs.append(dict(files=files, main="main.ddp", repeat=N, calls=True))
        order = sorted(range(len(sh)), key=lambda i: (sh[i]["l"], sh[i]["c"]))
        meta.append(("shape:" + ",".join("%d.%d" % (p["l"], p["c"]) for p in sh), files, order[0] + 1))
    inputs = fc.build_inputs("quick", rng)
    seeds = [x for x in inputs if x[0].startswith("seed:")]
    muts = rng.sample([x for x in inputs if x[0].startswith("mut:")], 150 if tier == "quick" else 1500)
    for key, files, main in seeds + muts:
        jobs.append(dict(files=files, main=main, repeat=N, calls=True))
        meta.append((key, files, 0))
    answers = pool.run(jobs)
    recs, keys = [], []
    for a, (key, files, expect) in zip(answers, meta):
        if not a["runs"]:
            continue      # crashes/timeouts are C03's subject
        table = {}
        ids = [obs_id(r, table) for r in a["runs"]]
        first = 0
        if expect:
            d0 = [d for d in a["runs"][0]["diags"] if d["lvl"] == "err"]
            import re
            m = re.search(r"n(\d+)", d0[0]["msg"]) if d0 else None
            first = int(m.group(1)) if m else -1
        recs.append(dict(e="rep", ids=ids, first=first, expect=expect))
        keys.append((key, files, table))
    # process level: kddp on the shapes and a sample of seeds, stderr + exit status + emitted IR
    sut = vlib.sut()
    K = 6 if tier == "quick" else 30
    proc_items = [(k, f, "main.ddp") for k, f, _ in meta[:len(shapes)]] + [(k, f, m) for k, f, m in rng.sample(seeds, 25 if tier == "quick" else len(seeds))]
    # valid multi-module programs whose initialisers depend on each other (the C10 scheme): the order of module
    # initialisation must not vary between compilations
    import c10
    # (the last two: several mutually independent modules imported by a module that is not the main module - their initialisers run in the
    #  textual order of the import statements of that module in every compilation)
    for g in ([[1], [2], [3], []], [[1, 2], [3], [3], []], [[2, 1], [3], [3, 1], []], [[1], [2, 3], [3], []], [[3, 2, 1], [2], [3], []],
              [[1], [2, 3, 4, 5, 6, 7], [], [], [], [], [], []], [[1, 2], [5, 3, 4], [7, 6, 5], [], [], [], [], []]):
        G = dict(n=len(g), imp=[[dict(t=t, sel="all") for t in imps] for imps in g])
        files = {"main.ddp": c10.main_src(G["imp"][0]).encode()}
        for k in range(1, G["n"]):
            files["m%d.ddp" % k] = c10.module_src(k, G["imp"][k]).encode()
        proc_items.append(("modules:%s" % json.dumps(g).replace(" ", ""), files, "main.ddp"))
    # programs in which the ORDER of evaluating sibling sub-expressions is observable (effects on a global counter): arguments of a
    # Kombination literal, of a function call, elements of a list literal, operands; the executables of all K compilations must behave alike
    proc_items.append(("modules:evaluation-order", {"main.ddp": EFFECT_ORDER.encode()}, "main.ddp"))
    # generic functions with several type parameters, instantiated with every arrangement of types that share one machine representation
    # (a type and a definition of it): which instantiation a call reaches must not depend on anything that varies between compilations
    proc_items.append(("modules:generic-permuted-type-parameters", {"main.ddp": generic_permuted().encode()}, "main.ddp"))
    from concurrent.futures import ThreadPoolExecutor

    def proc(item):
        key, files, main = item
        d = pool.materialize(files)
        table, ids = {}, []
        env = dict(os.environ, DDPPATH=sut)
        for rep in range(K):
            out = os.path.join(d, "o.o")
            if os.path.exists(out):
                os.remove(out)
            try:
                p = subprocess.run([os.path.join(sut, "bin", "kddp"), "kompiliere", main, "-o", out], cwd=d, env=env, stdout=subprocess.PIPE, stderr=subprocess.PIPE, timeout=120)
                beh = ""
                if p.returncode == 0 and os.path.exists(out) and (rep < 3 or key.startswith("modules:")):
                    # the behaviour of the executable (not the text of the IR, which may legitimately be ordered differently)
                    lk = subprocess.run(["gcc", "o.o", os.path.join(sut, "shim", "setlocale_wrap.o"), "-L" + os.path.join(sut, "lib"), "-lddpstdlib", "-lddpruntime", "-lm",
                                         os.path.join(sut, "lib", "main.o"), "-Wl,--wrap=setlocale", "-o", "o.out"], cwd=d, stdout=subprocess.PIPE, stderr=subprocess.STDOUT)
                    if lk.returncode == 0:
                        try:
                            q = subprocess.run([os.path.join(d, "o.out")], cwd=d, stdin=subprocess.DEVNULL, stdout=subprocess.PIPE, stderr=subprocess.PIPE, timeout=10)
                            beh = (q.returncode, hashlib.sha1(q.stdout).hexdigest(), q.stderr.decode("utf-8", "replace")[:200])
                        except subprocess.TimeoutExpired:
                            beh = "run-timeout"
                    else:
                        beh = "link-failed"
                # an internal error prints a Go stack trace with addresses: not an observable of the property (only the message before it)
                err_text = p.stderr.decode("utf-8", "replace").split("StackTrace:")[0]
                o = (p.returncode, err_text, "same-as-first-three" if (rep >= 3 and not key.startswith("modules:")) else beh)
            except subprocess.TimeoutExpired:
                o = ("timeout",)
            if rep >= 3 and not key.startswith("modules:"):
                o = (o[0], o[1]) if len(o) > 1 else o
                first = [k for k, v in table.items() if v == ids[0]][0]
                ids.append(ids[0] if (first[0], first[1]) == o else table.setdefault(o, len(table) + 1))
            else:
                ids.append(table.setdefault(o, len(table) + 1))
        import shutil
        shutil.rmtree(d, ignore_errors=True)
        return key, files, ids, table
    with ThreadPoolExecutor(max_workers=12) as ex:
        for key, files, ids, table in ex.map(proc, proc_items):
            recs.append(dict(e="rep", ids=ids, first=0, expect=0))
            keys.append(("cli:" + key, files, {json.dumps(k, ensure_ascii=False)[:800]: v for k, v in table.items()}))
    orig = vlib.split_chunks
    try:
        vlib.split_chunks = lambda records, n, is_start=None: [(0, records)]
        res, st = validate_monitor("DeterminismTrace", "t.cfg", ["det"], recs, procs=1, sets=("bad",), extra_files={"t.cfg": T_CFG})
    finally:
        vlib.split_chunks = orig
    ck.cov["states"] += st["distinct"]; ck.cov["transitions"] += st["generated"]
    ck.cov["traces_validated_against_impl"] = len(recs)
    ck.cov["evaluations"] = sum(len(r["ids"]) for r in recs)
    ck.cov["distinct_nontrivial"] = len(recs)
    ck.cov["repetitions_in_process"] = N
    ck.cov["repetitions_fresh_process"] = K
    ck.cov["tlc_runs"].append(dict(name="DeterminismTrace", lines=st["lines"], wall_s=round(st["wall"], 1)))
    for i in res["bad"]:
        key, files, table = keys[i]
        variants = sorted(table.items(), key=lambda kv: kv[1])
        cls = "shape" if "shape:" in key else key.split(":")[0] + ":" + key.split(":")[1].split("/")[-1] if ":" in key else key
        ck.fail("C16:%s" % (key if "shape:" in key else cls + ":" + key), "compiling %s repeatedly gave %d different observations (ids %s; first clash n%s, source order expects n%s)" % (
            key, len(table), recs[i]["ids"], recs[i]["first"], recs[i]["expect"]), dict(input=key, files={k: (v if isinstance(v, str) else v.decode("utf-8", "replace")) for k, v in files.items()},
                                                                                          observations=[json.loads(k) if k.startswith("{") else k for k, _ in variants][:3], ids=recs[i]["ids"]))
    ck.sample(dict(shape=shapes[0] if shapes else None, program=shape_program(shapes[0]) if shapes else None))
    ck.cov["rule"] = "every order-dependent population TLC finds for the pinned comparator (as module + importer with clashing names), all seed programs and import arrangements, a seeded sample of their mutants; each compiled N times in one process and K times in fresh processes"
    ck.assumptions += ["Go cannot be told which map order to use: repetition samples the orders (an order picked with probability >= 1/8 is missed by 20 repetitions with probability <= 0.07)"]
    return ck.finish(exhaustive=False)
