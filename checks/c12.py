"""C12 - A Text is a sequence of Unicode code points.   DESIGN.md §4 C12"""
import json, os, subprocess
import vlib, ddp, semrun, semgen
from vlib import Check, Infra


T_CFG = """SPECIFICATION Spec
CONSTANTS
  TraceFile = "trace.ndjson"
INVARIANTS Report
POSTCONDITION Accepted
CHECK_DEADLOCK FALSE
"""


def percharacter(ck, tier):
    """per-character operations of the runtime for Unicode scalar values (thorough: all of them), against Utf8.tla"""
    s = vlib.sut()
    d = vlib.subdir("c12drv")
    exe = os.path.join(d, "textdrv")
    p = subprocess.run(["clang-14", "-fsanitize=address", "-g", "-O1", "-I" + os.path.join(s, "include"), os.path.join(vlib.VERIF, "harness", "c", "textdrv.c"),
                        "-L" + os.path.join(s, "asan", "lib"), "-lddpruntime", os.path.join(s, "lib", "ddp_list_types_defs.o"), "-lddpruntime", "-lm", "-o", exe], stdout=subprocess.PIPE, stderr=subprocess.STDOUT, text=True)
    if p.returncode != 0:
        raise Infra("textdrv build failed: " + p.stdout[-1500:])
    if tier == "quick":
        ranges = [(0, 0x900, 1), (0x900, 0xD7FF, 61), (0xD7F0, 0xE010, 1), (0xE010, 0xFFFF, 53), (0xFFF0, 0x10010, 1), (0x10010, 0x10FFFF, 997), (0x10FFF0, 0x10FFFF, 1)]
    else:
        ranges = [(0, 0x10FFFF, 1)]
    recs = []
    for a, b, st in ranges:
        q = subprocess.run([exe, str(a), str(b), str(st)], stdout=subprocess.PIPE, stderr=subprocess.PIPE, text=True, env=dict(os.environ, ASAN_OPTIONS="detect_leaks=1"))
        if q.returncode != 0:
            ck.fail("C12:textdrv:%x-%x" % (a, b), "the runtime driver died (sanitizer report or crash) on code points %x..%x: %s" % (a, b, q.stderr[-1500:]), dict(range=[a, b, st], stderr=q.stderr[-3000:]))
            continue
        recs += [json.loads(x) for x in q.stdout.splitlines()]
    orig = vlib.split_chunks
    try:
        vlib.split_chunks = lambda records, n, is_start=None: [(i, records[i:i + max(1, len(records) // n + 1)]) for i in range(0, len(records), max(1, len(records) // n + 1))]
        res, st = vlib.validate_monitor("TextTrace", "t.cfg", ["text", "common"], recs, procs=14, sets=("bad",), extra_files={"t.cfg": T_CFG})
    finally:
        vlib.split_chunks = orig
    ck.cov["states"] += st["distinct"]; ck.cov["transitions"] += st["generated"]
    ck.cov["traces_validated_against_impl"] += len(recs)
    ck.cov["code_points_checked"] = len(recs)
    ck.cov["tlc_runs"].append(dict(name="TextTrace", lines=st["lines"], wall_s=round(st["wall"], 1)))
    for i in res["bad"][:50]:
        ck.fail("C12:cp:%x" % recs[i]["cp"], "runtime per-character operations contradict Utf8.tla for U+%04X: %s" % (recs[i]["cp"], recs[i]), recs[i])


def run(tier):
    ck = Check("C12", tier)
    rng = vlib.rng("c12")
    cases = semgen.text_history_cases(tier, rng)
    opts = (1,) if tier == "quick" else (0, 1, 2)
    r = semrun.judge_cases(ck, cases, opts=opts, per=12, prefix="C12", label="hist", funcs=semgen.FUNCS, nearly=semgen.GLOBALS)
    ck.cov["evaluations"] = r["n_cases"] * len(opts)
    ck.cov["distinct_nontrivial"] = r["n_cases"]
    ck.cov["unspecified_skipped"] = len(r["unspec_cases"])
    ck.cov["not_compiled_cases"] = [k for k, _, _, _ in r["compile_failed"]][:20]
    for k, stage, msg, src in r["compile_failed"][:3]:
        vlib.log("NOT COMPILED:", k, stage, msg[-400:])
    ck.cov["programs"] = r["n_progs"]
    percharacter(ck, tier)
    ck.sample(dict(case=cases[40].key))
    ck.cov["rule"] = "a Text built from each initial literal by every sequence of <= n production steps (concatenations on both sides, slices, in-place replacement by shorter/equal/longer characters, through a Referenz), then all observers (length, text, for-each with index, every index, both open slices, equality with a character-wise rebuilt text in both orders)"
    return ck.finish(exhaustive=(tier == "thorough"))
