"""Shared driver of C03 and C07: many inputs through the real frontend (sacrificial workers), one 'parse' event each,
validated by spec/front/FrontendTrace.tla."""
import json, os, subprocess, bisect
import vlib, feinputs, ddp, semgen
from vlib import Infra, FEPool

T_CFG = """SPECIFICATION Spec
CONSTANTS
  TraceFile = "trace.ndjson"
INVARIANTS Report
POSTCONDITION Accepted
CHECK_DEADLOCK FALSE
"""


def build_inputs(tier, rng):
    """returns list of (key, files dict (bytes), main)"""
    seeds = feinputs.seed_programs() + feinputs.import_arrangements()
    # a few generated valid programs (the renderer's output is itself a good seed)
    cs = semgen.stmt_cases("quick", rng)
    for i in range(3):
        prog = semgen.batch_program(rng.sample(cs, 6), "gen%d" % i, funcs=semgen.FUNCS, nearly_stmts=semgen.GLOBALS)
        seeds.append(("generated/%d" % i, {"main.ddp": ddp.render(prog).encode()}, "main.ddp"))
    # generic functions: declared in the main and in an imported module, generics calling (recursive) generics
    import gengen
    gc = gengen.cases("quick", rng)
    for i in range(0, len(gc), 20):
        P = semgen.batch_program(gc[i:i + 20], "gen-generic%d" % i, funcs=[], nearly_stmts=[])
        Gp = gengen.generic_program(P)
        Gp["typedecls"], Gp["main_decoys"] = gengen.TYPEDECLS, gengen.MAIN_DECOYS
        seeds.append(("generated/generic%d" % i, {"main.ddp": ddp.render(Gp).encode()}, "main.ddp"))
        seeds.append(("generated/generic-lib%d" % i, {k: v.encode() for k, v in ddp.render_with_lib(Gp, {f["n"] for f in Gp["funcs"]}).items()}, "main.ddp"))
    inputs = [("seed:" + n, f, m) for n, f, m in seeds]
    mains = [f[m] for _, f, m in seeds]
    toks = feinputs.tokenize(mains)
    per_seed = 60 if tier == "quick" else 100000
    pairs = 10 if tier == "quick" else 400
    nbytes = 8 if tier == "quick" else 200
    for (name, files, main), tk in zip(seeds, toks):
        try:
            text = files[main].decode("utf-8")
        except UnicodeDecodeError:
            continue
        # the scanner harness reports code point columns: tokenize() computed offsets in code points of `text`
        # the hand-written feature seeds are small: all of their mutants, in every tier
        lim = None if (name.startswith("feature/") and "operator-arity" not in name) or name.startswith("regression/") else per_seed
        if "operator-arity" in name and tier == "quick":
            lim = 8
        for kind, mt in feinputs.token_mutants(text, tk, rng, limit=lim, pairs=pairs):
            nf = dict(files)
            nf[main] = mt.encode("utf-8")
            inputs.append(("mut:%s:%s" % (name, kind), nf, main))
        for kind, mb in feinputs.byte_mutants(files[main], rng, nbytes):
            nf = dict(files)
            nf[main] = mb
            inputs.append(("mut:%s:%s" % (name, kind), nf, main))
    return inputs


def diag_records(d, files):
    out = []
    f = files.get(d["file"])
    known = f is not None
    ll = feinputs.line_lengths(f) if known else [0]
    l1, c1, l2, c2 = d["r"]
    g = lambda l: ll[l - 1] if 1 <= l <= len(ll) else 0
    out.append(dict(lvl=d["lvl"], code=d["code"], known=known, l1=l1, c1=c1, l2=l2, c2=c2, nlines=len(ll), len1=g(l1), len2=g(l2)))
    for s in d.get("sub") or []:
        out += diag_records(s, files)
    return out


def crash_site(text):
    """the innermost frames of the repository's own code in a Go stack trace: file:line, up to three"""
    import re
    frames = re.findall(r"/src/((?:parser|scanner|ast|ddptypes|ddperror|compiler)[\w/]*/\w+\.go):(\d+)", text)
    frames = [f for f in frames if not f[0].endswith(("interface.go", "error.go")) and "verif_hook" not in f[0]]
    if "stack overflow" in text or "stack exceeds" in text:
        # recursion: name the cycle by the most frequent frames
        from collections import Counter
        c = Counter(f[0] for f in frames)
        return "stack-overflow:" + ",".join(sorted(f for f, _ in c.most_common(2)))
    return ",".join("%s:%s" % f for f in frames[:2]) or "?"


def observe(inputs, cli_sample=0, rng=None, workers=12):
    pool = FEPool(workers, timeout=20)
    jobs = [dict(files=f, main=m, trace=True, render=True) for _, f, m in inputs]
    answers = pool.run(jobs)
    cli = {}
    if cli_sample:
        # every unmutated seed goes through the command line as well, plus a seeded sample of the mutants
        seeds = [i for i, (k, _, _) in enumerate(inputs) if k.startswith("seed:")]
        rest = [i for i in range(len(inputs)) if not inputs[i][0].startswith("seed:")]
        idx = seeds + rng.sample(rest, min(cli_sample, len(rest)))
        sut = vlib.sut()
        from concurrent.futures import ThreadPoolExecutor

        def one(i):
            d = pool.materialize(inputs[i][1])
            out = os.path.join(d, "out.o")
            try:
                p = subprocess.run([os.path.join(sut, "bin", "kddp"), "kompiliere", inputs[i][2], "-o", out], cwd=d, env=dict(os.environ, DDPPATH=sut),
                                   stdout=subprocess.PIPE, stderr=subprocess.PIPE, timeout=60)
                rc = p.returncode
                err = p.stderr.decode("utf-8", "replace")[-600:]
            except subprocess.TimeoutExpired:
                rc, err = -99, "timeout"
            art = os.path.exists(out) and os.path.getsize(out) > 0
            import shutil
            shutil.rmtree(d, ignore_errors=True)
            return i, dict(ran=True, exit0=(rc == 0), artefact=art, rc=rc, stderr=err)
        with ThreadPoolExecutor(max_workers=12) as ex:
            for i, c in ex.map(one, idx):
                cli[i] = c
    recs = []
    for i, ((key, files, main), a) in enumerate(zip(inputs, answers)):
        ev = dict(e="parse", id=key, outcome="module", stall=False, faulty=False, nomodule=False, anymodfaulty=False, diags=[], renderpanics=0, finish=[],
                  cli=dict(ran=False, exit0=False, artefact=False))
        if a.get("timeout"):
            ev["outcome"] = "timeout"
        elif a.get("killed") is not None or not a["runs"]:
            ev["outcome"] = "killed"
            ev["detail"] = (a.get("stderr") or "")[:3000]
            ev["site"] = crash_site(a.get("stderr") or "")
        else:
            r = a["runs"][0]
            ev["stall"] = bool(r.get("stall"))
            if r.get("panic"):
                ev["outcome"] = "panic"
                ev["detail"] = r["panic"][:6000]
                ev["site"] = crash_site(r["panic"])
            elif r.get("err"):
                ev["outcome"] = "error"
            ev["faulty"] = bool(r.get("faulty"))
            ev["nomodule"] = bool(r.get("nomodule"))
            ev["anymodfaulty"] = any(m.get("faulty") for m in r.get("modules") or [])
            fmap = {k: v for k, v in files.items()}
            for d in r.get("diags") or []:
                ev["diags"] += diag_records(d, fmap)
            ev["renderpanics"] = len(r.get("render_panic") or [])
            ev["renderdetail"] = (r.get("render_panic") or [])[:2]
            ev["finish"] = r.get("finish") or []
            ev["codes"] = [d["code"] for d in (r.get("diags") or [])][:8]
            if i in cli and ev["outcome"] in ("module", "error"):
                # a Parse that returns an error value (no module) is a failed compilation as well
                ev["cli"] = {k: cli[i][k] for k in ("ran", "exit0", "artefact")}
                ev["clidetail"] = cli[i]
        recs.append(ev)
    return recs


def validate(ck, recs):
    orig = vlib.split_chunks
    try:
        vlib.split_chunks = lambda records, n, is_start=None: [(i, records[i:i + max(1, len(records) // n + 1)]) for i in range(0, len(records), max(1, len(records) // n + 1))]
        slim = [{k: v for k, v in r.items() if k not in ("detail", "renderdetail", "codes", "clidetail", "id", "site")} for r in recs]
        res, st = vlib.validate_monitor("FrontendTrace", "t.cfg", ["front"], slim, procs=14, sets=("total", "flag", "range", "render", "cli"), extra_files={"t.cfg": T_CFG})
    finally:
        vlib.split_chunks = orig
    ck.cov["states"] += st["distinct"]; ck.cov["transitions"] += st["generated"]
    ck.cov["tlc_runs"].append(dict(name="FrontendTrace", lines=st["lines"], wall_s=round(st["wall"], 1)))
    return res
