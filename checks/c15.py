"""C15 - A generic call behaves like its monomorphic specialisation.   DESIGN.md §4 C15
Every generated program exists twice: with generic functions (declared once, called at several types) and with one textually
specialised function per instantiation; both, compiled in one module and with the functions in an imported library, must behave as
DDPSem evaluates the SPECIALISED program (so generic = specialised = specification).  Well-typedness of generic calls (one binding per
type parameter) and identity of generic-Kombination instantiations are validated against spec/types/Generics.tla."""
import bisect, itertools, json
import vlib, ddp, semrun, semgen, gengen
from vlib import Check, Infra, FEPool, validate_monitor

T_CFG = """SPECIFICATION Spec
CONSTANTS
  TraceFile = "trace.ndjson"
INVARIANTS Report
POSTCONDITION Accepted
CHECK_DEADLOCK FALSE
"""
TT_ = {"Z": ("Zahl", {"k": "p", "n": "Z"}, "5"), "T": ("Text", {"k": "p", "n": "T"}, '"t"'), "W": ("Wahrheitswert", {"k": "p", "n": "W"}, "wahr"),
       "LZ": ("Zahlen Liste", {"k": "l", "e": {"k": "p", "n": "Z"}}, "(eine leere Zahlen Liste)"), "LT": ("Text Liste", {"k": "l", "e": {"k": "p", "n": "T"}}, "(eine leere Text Liste)"),
       "N": ("Nummer", {"k": "a", "n": "Nummer", "u": {"k": "p", "n": "Z"}}, "(5 als Nummer)"), "H": ("Hausnummer", {"k": "d", "n": "Hausnummer", "u": {"k": "p", "n": "Z"}}, "(5 als Hausnummer)")}
G_ = {"k": "g", "n": "T"}
LG = {"k": "l", "e": G_}
BOX = lambda a: {"k": "i", "n": "Box", "a": [a]}
TT_.update({"BZ": ("Zahl-Box", BOX({"k": "p", "n": "Z"}), "(eine Box mit 5)"), "BT": ("Text-Box", BOX({"k": "p", "n": "T"}), '(eine Box mit "t")'),
            "BN": ("Nummer-Box", BOX({"k": "a", "n": "Nummer", "u": {"k": "p", "n": "Z"}}), "(eine Box mit (5 als Nummer))")})
SIGS = {"zwei_boxen": (["T-Box", "T-Box"], [BOX(G_), BOX(G_)]), "box_und_t": (["T-Box", "T"], [BOX(G_), G_]),
        "ein_t": (["T"], [G_]), "zwei_t": (["T", "T"], [G_, G_]), "liste_und_t": (["T Liste", "T"], [LG, G_]), "zwei_listen": (["T Liste", "T Liste"], [LG, LG]),
        "t_und_zahl": (["T", "Zahl"], [G_, {"k": "p", "n": "Z"}])}


def typing_part(ck, pool):
    head = ["Wir nennen eine Zahl auch eine Nummer.", "Wir definieren eine Hausnummer als eine Zahl.", "",
            "Wir nennen die generische Kombination aus", "\tdem T wert,", "eine Box, und erstellen sie so:", '\t"eine Box mit <wert>"', ""]
    for name, (ptypes, _) in SIGS.items():
        ps = ["p%d" % i for i in range(len(ptypes))]
        if len(ps) == 1:
            decl = "mit dem Parameter %s vom Typ %s" % (ps[0], ptypes[0])
        else:
            decl = "mit den Parametern %s vom Typ %s" % (" und ".join([", ".join(ps[:-1]), ps[-1]]) if len(ps) > 2 else " und ".join(ps), " und ".join([", ".join(ptypes[:-1]), ptypes[-1]]) if len(ptypes) > 2 else " und ".join(ptypes))
        head += ["Die generische Funktion %s %s, gibt einen Wahrheitswert zurück, macht:" % (name, decl), "\tGib wahr zurück.", "Und kann so benutzt werden:", '\t"%s %s"' % (name, " ".join("<%s>" % p for p in ps)), ""]
    H_ = {"k": "g", "n": "U"}
    for nm, pt in (("gleichartig", "T-Box und T-Box"), ("verschiedenartig", "T-Box und U-Box")):
        head += ["Die generische Funktion %s mit den Parametern a und b vom Typ %s, gibt einen Wahrheitswert zurück, macht:" % (nm, pt), "\tGib wahr zurück.", "Und kann so benutzt werden:", '\t"waehle <a> und <b>"', ""]
    head += ["Der Wahrheitswert erg ist wahr."]
    lines, meta = list(head), []
    for name, (ptypes, pterms) in SIGS.items():
        for combo in itertools.product(TT_, repeat=len(pterms)):
            lines.append("Speichere (%s %s) in erg." % (name, " ".join(TT_[c][2] for c in combo)))
            meta.append((len(lines), pterms, [TT_[c][1] for c in combo], name, combo))
    anymeta = []
    for combo in itertools.product(list(TT_), repeat=2):
        lines.append("Speichere (waehle %s und %s) in erg." % (TT_[combo[0]][2], TT_[combo[1]][2]))
        anymeta.append((len(lines), [[BOX(G_), BOX(G_)], [BOX(G_), BOX(H_)]], [TT_[c][1] for c in combo], combo))
    # generic Kombination: equal type arguments -> one type; different -> different types
    lines += ["Wir nennen die generische Kombination aus", "\tdem T inhalt,", "\tdem R extra,", "eine Kiste2, und erstellen sie so:", '\t"eine Kiste2 aus <inhalt> und <extra>"', ""]
    kinds = ["Z", "T", "N", "H", "LZ"]
    imeta = []
    n = 0
    for a in itertools.product(kinds, repeat=2):
        for b in itertools.product(kinds, repeat=2):
            n += 1
            ta = "%s-%s-Kiste2" % (TT_[a[0]][0], TT_[a[1]][0]) if " " not in TT_[a[0]][0] + TT_[a[1]][0] else None
            tb = "%s-%s-Kiste2" % (TT_[b[0]][0], TT_[b[1]][0]) if " " not in TT_[b[0]][0] + TT_[b[1]][0] else None
            if ta is None or tb is None:
                ta = "(%s)-(%s)-Kiste2" % (TT_[a[0]][0], TT_[a[1]][0])
                tb = "(%s)-(%s)-Kiste2" % (TT_[b[0]][0], TT_[b[1]][0])
            lines.append("Die %s ka%d ist eine Kiste2 aus %s und %s." % (ta, n, TT_[a[0]][2], TT_[a[1]][2]))
            decl_line = len(lines)
            lines.append("Die %s kb%d ist ka%d." % (tb, n, n))
            imeta.append((decl_line, len(lines), [TT_[x][1] for x in a], [TT_[x][1] for x in b], a, b))
    src = "\n".join(lines) + "\n"
    ans = pool.run([dict(files={"m.ddp": src}, main="m.ddp")])[0]
    r = ans["runs"][0] if ans["runs"] else None
    if not r or r.get("panic") or r.get("err"):
        ck.fail("C15:typing:crash", "frontend crashed on the generic typing program: %s" % json.dumps(ans)[:600], dict(source=src))
        return
    errl = {}
    for d in r["diags"]:
        if d["lvl"] == "err":
            errl.setdefault(d["r"][0], d)
    pre = [d for ln, d in errl.items() if ln <= len(head)]
    if pre:
        raise Infra("C15 typing prelude rejected: %s" % pre[:2])
    recs, desc = [], []
    for ln, pterms, aterms, name, combo in meta:
        recs.append(dict(e="unify", params=pterms, args=aterms, accepted=ln not in errl))
        desc.append("%s(%s)" % (name, ",".join(combo)))
    for ln, alts, aterms, combo in anymeta:
        recs.append(dict(e="unifyany", alts=alts, args=aterms, accepted=ln not in errl))
        desc.append("waehle(%s)" % ",".join(combo))
    for dl, ln, a, b, ka, kb in imeta:
        if dl in errl:
            continue          # the declaration of the left value itself was not accepted (e.g. spelling of the type): not judged
        recs.append(dict(e="inst", a=a, b=b, same=ln not in errl))
        desc.append("Kiste2<%s> := Kiste2<%s>" % (",".join(kb), ",".join(ka)))
    orig = vlib.split_chunks
    try:
        vlib.split_chunks = lambda records, n, is_start=None: [(0, records)]
        res, st = validate_monitor("GenericsTrace", "t.cfg", ["types"], recs, procs=1, sets=("bad",), extra_files={"t.cfg": T_CFG})
    finally:
        vlib.split_chunks = orig
    ck.cov["states"] += st["distinct"]; ck.cov["transitions"] += st["generated"]
    ck.cov["typing_cases"] = len(recs)
    ck.cov["inst_cases_judged"] = sum(1 for r in recs if r["e"] == "inst")
    ck.cov["evaluations"] += len(recs)
    ck.cov["distinct_nontrivial"] += len(recs)
    ck.cov["tlc_runs"].append(dict(name="GenericsTrace", lines=st["lines"], wall_s=round(st["wall"], 1)))
    for i in res["bad"]:
        ck.fail("C15:typing:%s" % desc[i], "%s: the frontend says %s, Generics.tla says otherwise" % (desc[i], recs[i].get("accepted", recs[i].get("same"))), dict(event=recs[i], source=src))


CACHE_CFG = """SPECIFICATION Spec
CONSTANTS
  TraceFile = "trace.ndjson"
INVARIANTS Report
POSTCONDITION Accepted
CHECK_DEADLOCK FALSE
"""


def cache_part(ck, tier, rng, sources):
    """the cache of instantiations (hook H4) while the real frontend parses the generic programs, the repository's generic tests and
    mutants of both in which instantiations fail (ill-typed arguments, undeclared names, names of another kind): GenericsCacheTrace"""
    import feinputs
    inputs = []
    for bi, (b, S, vs) in enumerate(sources):
        d = dict(vs)
        inputs.append(("G%d" % bi, {"main.ddp": d["G"].encode()}, "main.ddp"))
        inputs.append(("Glib%d" % bi, {k: v.encode() for k, v in d["Glib"].items()}, "main.ddp"))
    for name, files, main in feinputs.seed_programs():
        if "generic" in name or "generics" in name:
            inputs.append((name, files, main))
    # every generic function of every generic program once with an ill-typed declaration as the last statement but one of its body: the
    # instantiation fails AFTER the instantiations its body needs were created, and the program calls it again
    for bi, (b, S, vs) in enumerate(sources):
        lines = dict(vs)["G"].split("\n")
        ends = [i for i, ln in enumerate(lines) if ln.startswith("Und kann so benutzt werden:") and any(l2.startswith("Die generische Funktion") for l2 in lines[max(0, i - 40):i])]
        for n, e in enumerate(ends):
            if e >= 2 and lines[e - 1].startswith("\t"):
                mod = lines[:e - 1] + ['\tDie Zahl kaputt ist "keine Zahl".'] + lines[e - 1:]
                inputs.append(("G%d:fail-in-function-%d" % (bi, n), {"main.ddp": "\n".join(mod).encode()}, "main.ddp"))
                # ... and with a declaration that is well typed for SOME bindings of the type parameter only (the first parameter used as a
                # Text / as a Zahl): one instantiation of the function fails while another one - possibly created inside it - succeeds
                hdr = next((lines[i] for i in range(e - 1, max(0, e - 40), -1) if lines[i].startswith("Die generische Funktion")), "")
                import re as _re
                m = _re.search(r"mit de[mn] Parametern? (\w+).* vom Typ (\w+)( Liste)?", hdr)
                if m and m.group(2) in ("T", "A", "B", "R") and not m.group(3):
                    for tn, art in (("Text", "Der"), ("Zahl", "Die")):
                        mod = lines[:e - 1] + ["\t%s %s nur_%s ist %s." % (art, tn, tn.lower(), m.group(1))] + lines[e - 1:]
                        inputs.append(("G%d:fail-in-function-%d-unless-%s" % (bi, n, tn), {"main.ddp": "\n".join(mod).encode()}, "main.ddp"))
    seeds = [x for x in inputs if ":fail-in-function-" not in x[0]]
    toks = feinputs.tokenize([f[m] for _, f, m in seeds])
    nmut = 40 if tier == "quick" else 400
    for (name, files, main), tk in zip(seeds, toks):
        try:
            text = files[main].decode("utf-8")
        except UnicodeDecodeError:
            continue
        muts = [m for m in feinputs.token_mutants(text, tk, rng) if m[0].split(":")[0] in ("lit", "subst", "del", "transplant")]
        for kind, mt in rng.sample(muts, min(nmut, len(muts))):
            nf = dict(files)
            nf[main] = mt.encode("utf-8")
            inputs.append(("%s:%s" % (name, kind), nf, main))
    pool = FEPool(12, timeout=30)
    answers = pool.run([dict(files=f, main=m, trace=True) for _, f, m in inputs])
    recs, owner = [], []
    nfail = 0
    for (name, files, main), a in zip(inputs, answers):
        if not a.get("runs") or a["runs"][0].get("panic"):
            continue          # crashes and time-outs are C03's subject (a panic unwinds through the deferred `done` events)
        ev = a["runs"][0].get("inst") or []
        if not ev:
            continue
        owner.append((len(recs), name, files, main))
        recs.append(dict(e="reset"))
        for x in ev:
            recs.append(dict(e="inst", kind=x["kind"], fn=x["fn"], mod=x["mod"], key=x["key"], nerr=x["nerr"], cache=x["cache"] or []))
            nfail += 1 if x["kind"] == "done" and x["nerr"] > 0 else 0
    if not recs:
        raise Infra("no instantiation event was recorded: hook H4 missing?")
    res, st = validate_monitor("GenericsCacheTrace", "t.cfg", ["types"], recs, procs=8, sets=("bad",), extra_files={"t.cfg": CACHE_CFG})
    ck.cov["states"] += st["distinct"]; ck.cov["transitions"] += st["generated"]
    ck.cov["tlc_runs"].append(dict(name="GenericsCacheTrace", lines=st["lines"], wall_s=round(st["wall"], 1)))
    ck.cov["cache_steps_validated"] = sum(1 for r in recs if r["e"] == "inst")
    ck.cov["cache_parses"] = len(owner)
    ck.cov["failed_instantiations_observed"] = nfail
    ck.cov["traces_validated_against_impl"] += len(owner)
    starts = [o[0] for o in owner]
    seen = set()
    for i in res["bad"]:
        j = bisect.bisect_right(starts, i) - 1
        _, name, files, main = owner[j]
        if name in seen:
            continue
        seen.add(name)
        ev = recs[i]
        ck.fail("C15:cache:%s:%s" % (ev["kind"], name.split(":")[0]), "instantiation cache: step %s of %s (errors %d) is not a step of GenericsCache or leaves another list than the model: %s (input %s)" % (
            ev["kind"], ev["key"], ev["nerr"], ev["cache"], name), dict(input=name, main=main, event=ev, files={k: v.decode("utf-8", "replace") for k, v in files.items()}))


def strip_alias(x):
    """type aliases are transparent: the specification sees the aliased type"""
    if isinstance(x, dict):
        return {k: strip_alias(v) for k, v in x.items() if k != "alias"}
    if isinstance(x, list):
        return [strip_alias(v) for v in x]
    return x


def run(tier):
    ck = Check("C15", tier)
    rng = vlib.rng("c15")
    cases = gengen.cases(tier, rng)
    # plan on the specialised ASTs
    per = 14
    batches = [cases[i:i + per] for i in range(0, len(cases), per)]
    runner = ddp.Runner()
    opts = (1, 2) if tier == "quick" else (0, 1, 2)
    recs, meta = [], []
    sources = []
    for bi, b in enumerate(batches):
        P = semgen.batch_program(b, "C15-%d" % bi, funcs=[], nearly_stmts=[])
        S = gengen.specialise(P)
        Gp = gengen.generic_program(P)
        for X in (S, Gp):
            X["typedecls"] = gengen.TYPEDECLS
            X["main_decoys"] = gengen.MAIN_DECOYS
        libS = ddp.render_with_lib(S, {f["n"] for f in S["funcs"]})
        libG = ddp.render_with_lib(Gp, {f["n"] for f in Gp["funcs"]})
        sources.append((b, S, [("S", ddp.render(S)), ("G", ddp.render(Gp)), ("Slib", libS), ("Glib", libG)]))
    flat = [src for _, _, vs in sources for _, src in vs]
    results = runner.run_sources(flat, opts=opts)
    k = 0
    for b, S, vs in sources:
        meta.append((len(recs), b, vs))
        recs.append(dict(e="prog", id="C15", p=strip_alias(dict(structs=S["structs"], funcs=S["funcs"], main=S["main"]))))
        for name, src in vs:
            r = results[k]
            k += 1
            for o in opts:
                if o in r["fail"]:
                    stage, msg = r["fail"][o]
                    ck.fail("C15:build:%s:%s:O%d" % (b[0].key, name, o), "variant %s of the program with cases %s does not build (%s): %s" % (name, [c.key for c in b][:4], stage, msg[-500:]),
                            dict(variant=name, cases=[c.key for c in b], source=src))
                    continue
                rr = r["runs"][o]
                recs.append(ddp.obs_event(rr, "%s-O%d" % (name, o)) if not rr["timeout"] else dict(e="obs", cfg="%s-O%d" % (name, o), out=[], rterr=False, code=-99))
    bad, exp, st, nun = semrun.validate(recs)
    ck.cov["states"] += st["distinct"]; ck.cov["transitions"] += st["generated"]
    ck.cov["tlc_runs"].append(dict(name="DDPRunTrace C15", lines=st["lines"], wall_s=round(st["wall"], 1)))
    ck.cov["traces_validated_against_impl"] = sum(1 for r in recs if r["e"] == "obs")
    ck.cov["evaluations"] = ck.cov["traces_validated_against_impl"]
    ck.cov["distinct_nontrivial"] = len(cases)
    ck.cov["unspecified_programs"] = nun
    starts = [m[0] for m in meta]
    for i in bad:
        j = bisect.bisect_right(starts, i) - 1
        _, b, vs = meta[j]
        ev = recs[i]
        sig, etext = exp.get(i, ("?", ""))
        otext = "".join(chr(c) for c in ev["out"])
        ci = semgen.first_diff_case(etext, otext)
        if ci is None or ci >= len(b):
            ci = len(b) - 1
        variant = ev["cfg"].split("-")[0]
        ck.fail("C15:%s:%s" % (b[ci].key, ev["cfg"]), "variant %s: case %s: expected (DDPSem of the specialised program) %r, observed code=%s %r" % (
            ev["cfg"], b[ci].key, semrun._around(etext, ci), ev["code"], semrun._around(otext, ci)),
            dict(case=b[ci].key, cfg=ev["cfg"], expected=etext, observed=otext, source=dict(vs)[variant]))
    typing_part(ck, FEPool(2))
    cache_part(ck, tier, rng, sources)
    ck.sample(dict(case=cases[0].key, variants=["S (specialised)", "G (generic)", "Slib / Glib (functions in an imported module)"]))
    ck.cov["rule"] = "11 generic templates (identity, list access, construction, Referenz swap, loops, recursion, for-each with early return, writing a by-value list parameter, generics calling generics, Standardwert of T) x 7 argument types; each case in 4 program variants x the tier's -O levels; plus all argument-type tuples over 7 types for 5 generic signatures and 625 pairs of generic-Kombination instantiations"
    return ck.finish(exhaustive=False)
