"""C11 - Optimisation level and link mode do not change program behaviour.   DESIGN.md §4 C11
DDPRun has no notion of optimisation or link mode: there is one behaviour per program. Every core-language program is built
under {O0,O1,O2} x {modules linked, not linked} x {list definitions linked, not linked}; the observation of every configuration is
validated by DDPRunTrace against the one behaviour the semantics assigns, hence all configurations agree with each other."""
import bisect
import vlib, ddp, semrun, semgen, corpus
from vlib import Check, Infra

CFGS = ("LL", "LU", "UU")


def run(tier):
    ck = Check("C11", tier)
    rng = vlib.rng("c11")
    own = semgen.ownership_cases(tier, rng)
    cases = semgen.copy_cases(tier, rng) + semgen.stmt_cases(tier, rng) + (own if tier == "thorough" else rng.sample(own, 60))
    table = semgen.optable("thorough", rng)
    th = semgen.text_history_cases("quick", rng)
    if tier == "quick":
        must = [c for c in table if any(w in c.key for w in ("guard", "short", "lazy"))]      # evaluation that must NOT happen: the classic target of an optimiser
        cases += must + rng.sample([c for c in table if c not in must], 250) + rng.sample(th, 20)
    else:
        cases += table + th
    sigs = semrun.plan_cases(ck, cases, funcs=semgen.OWN_FUNCS, nearly=semgen.OWN_GLOBALS, label="C11 plan")
    okc = [c for c, s in zip(cases, sigs) if s == "ok"]
    per = 30
    batches = [okc[i:i + per] for i in range(0, len(okc), per)]
    progs = [semgen.batch_program(b, "C11-%d" % i, funcs=semgen.OWN_FUNCS, nearly_stmts=semgen.OWN_GLOBALS) for i, b in enumerate(batches)]
    srcs = [ddp.render(p) for p in progs]
    runner = ddp.Runner()
    results = runner.run_sources(srcs, opts=(0, 1, 2), cfgs=CFGS)
    recs, meta = [], []
    unreal = {}
    for i, (b, p, r) in enumerate(zip(batches, progs, results)):
        for key, (stage, msg) in r["fail"].items():
            o, cfg = key
            if cfg != "LL" and stage == "link":
                unreal[(o, cfg)] = unreal.get((o, cfg), 0) + 1      # a synthetic link arrangement that cannot be realised
            else:
                ck.fail("C11:build:%s:O%d-%s" % (b[0].key, o, cfg), "program builds in one configuration but not in O%d-%s (%s): %s" % (o, cfg, stage, msg[-300:]),
                        dict(cases=[c.key for c in b], cfg="O%d-%s" % (o, cfg), source=srcs[i]))
        if not r["runs"]:
            continue
        meta.append((len(recs), i))
        recs.append(dict(e="prog", id=p["id"], p=dict(structs=p["structs"], funcs=p["funcs"], main=p["main"])))
        for (o, cfg), rr in sorted(r["runs"].items()):
            ev = ddp.obs_event(rr, "O%d-%s" % (o, cfg)) if not rr["timeout"] else dict(e="obs", cfg="O%d-%s" % (o, cfg), out=[], rterr=False, code=-99)
            recs.append(ev)
    bad, exp, st, nun = semrun.validate(recs)
    ck.cov["states"] += st["distinct"]; ck.cov["transitions"] += st["generated"]
    ck.cov["tlc_runs"].append(dict(name="DDPRunTrace C11", lines=st["lines"], wall_s=round(st["wall"], 1)))
    ck.cov["traces_validated_against_impl"] = sum(1 for r in recs if r["e"] == "obs")
    ck.cov["evaluations"] = ck.cov["traces_validated_against_impl"]
    ck.cov["distinct_nontrivial"] = len(okc)
    ck.cov["programs"] = len(progs)
    ck.cov["configurations"] = ["O%d-%s" % (o, c) for o in (0, 1, 2) for c in CFGS]
    ck.cov["unrealisable_link_arrangements"] = {"O%d-%s" % k: v for k, v in unreal.items()}
    starts = [m[0] for m in meta]
    for i in bad:
        j = bisect.bisect_right(starts, i) - 1
        bi = meta[j][1]
        ev = recs[i]
        sig, etext = exp.get(i, ("?", ""))
        otext = "".join(chr(c) for c in ev["out"])
        ci = semgen.first_diff_case(etext, otext)
        if ci is None or ci >= len(batches[bi]):
            ci = len(batches[bi]) - 1
        key = "C11:%s:%s" % (batches[bi][ci].key, ev["cfg"])
        ck.fail(key, "configuration %s: case %s behaves differently from the one behaviour of the program: expected %r, observed code=%s %r" % (
            ev["cfg"], batches[bi][ci].key, semrun._around(etext, ci), ev["code"], semrun._around(otext, ci)),
            dict(case=batches[bi][ci].key, cfg=ev["cfg"], expected=etext, observed=otext, source=srcs[bi]))
    cc = corpus.check_semantics(ck, (0, 2) if tier == "quick" else (0, 1, 2), "corpus", subset=("kddp" if tier == "quick" else "all"))
    ck.cov["corpus"] = cc
    ck.cov["evaluations"] += cc["validated_observations"]
    ck.cov["traces_validated_against_impl"] += cc["validated_observations"]
    ck.sample(dict(program=progs[0]["id"], cases=[c.key for c in batches[0]][:5], configurations=ck.cov["configurations"]))
    ck.cov["rule"] = "each specified case (copy matrix, statement skeletons, operator table, text histories; quick: seeded sample of the last two) x 9 configurations"
    ck.assumptions += ["'modules not linked' is realised by compiling Duden/Ausgabe on its own, localising its ddp_ddpmain with objcopy and linking all objects; "
                       "an arrangement that cannot be linked is counted, not judged", "programs using the Duden beyond Ausgabe are covered by C17's configuration comparison only"]
    return ck.finish(exhaustive=False)
